"""C16 - capability URL attribution: tuple layout, most-recent-first, reverse-index freshness,
one-shot consumption, seed rewrite (DESIGN.md §4 C16)."""
from __future__ import annotations

import ast
from typing import Any, Dict, List, Optional, Set, Tuple

from ..cfg import CFG
from ..consteval import ConstEval, EnumVal
from ..core import (AnalysisError, FUNC_TYPES, ancestors, ap, atoms, call_attr, calls, enclosing_stmt, facts,
                    find_calls, norm, parent, src, stores, walk)
from .common import namedtuple_fields, returns_of, top_fn

REG = "hippolyzer/lib/proxy/region.py"
HEM = "hippolyzer/lib/proxy/http_event_manager.py"
SESS = "hippolyzer/lib/proxy/sessions.py"
CAPS = "hippolyzer/lib/proxy/caps.py"

NAME, TYPE, URL, STR = "NAME", "TYPE", "URL", "STR"
TABLES = {
    "caps": {"key": NAME, "value": (TYPE, URL)},       # ProxiedRegion.caps: name -> (CapType, url)
    "lookup": {"key": URL, "value": (TYPE, NAME)},     # ProxiedRegion._caps_url_lookup: url -> (CapType, name)
}
CAPDATA_FIELD_ROLES = {"cap_name": NAME, "base_url": URL, "type": TYPE}

# state-field owner table (DESIGN.md A.1)
OWNER_NAMES = {"__init__", "update_caps", "register_cap", "resolve_cap"}
CAPS_OWNERS = {"ProxiedRegion.__init__", "ProxiedRegion.update_caps", "ProxiedRegion.register_cap",
               "ProxiedRegion.resolve_cap"}

TABLE_MUTATORS = {"add", "extend", "update", "popone", "popall", "pop", "popitem", "setdefault", "clear"}
TABLE_REMOVERS = {"popone", "popall", "pop", "popitem", "clear"}
KEYED_METHODS = {"add", "get", "getone", "getall", "popone", "popall", "pop", "setdefault"}
SINGLE_GETTERS = {"get", "getone", "popone", "pop"}
LIST_GETTERS = {"getall", "popall"}
SIZE_MUTATORS = {"remove", "pop", "popitem", "popall", "popone", "clear", "insert", "append", "extend", "add",
                 "discard", "update", "setdefault", "appendleft", "popleft"}
STR_METHODS = {"startswith", "endswith", "split", "rsplit", "encode", "lower", "upper", "strip", "replace"}
COPY_CALLS = {"list", "tuple", "sorted", "set", "frozenset", "dict"}


def _compatible(declared: str, demanded: str) -> bool:
    if demanded == STR:
        return declared in (NAME, URL)
    return declared == demanded


def _eq_literal_facts(node, stop):
    out = []
    for e, pol in facts(node, stop):
        if isinstance(e, ast.Compare) and len(e.ops) == 1 and isinstance(e.ops[0], (ast.Eq, ast.NotEq)):
            l, r = e.left, e.comparators[0]
            if isinstance(l, ast.Constant):
                l, r = r, l
            if isinstance(r, ast.Constant) and isinstance(r.value, str):
                out.append((ap(l) or norm(l), r.value, pol if isinstance(e.ops[0], ast.Eq) else not pol))
    return out


def record_elts(repo, mod, node) -> Optional[Tuple[List[ast.AST], Optional[List[str]]]]:
    """Element expressions of a tuple, or of a NamedTuple / dataclass construction in field order:
    (elements, field names | None)."""
    if isinstance(node, ast.Tuple):
        return list(node.elts), None
    if isinstance(node, ast.Call):
        fields = namedtuple_fields(repo, mod, ap(node.func) or "")
        if fields:
            vals = {}
            for i, a in enumerate(node.args):
                if i < len(fields) and not isinstance(a, ast.Starred):
                    vals[fields[i]] = a
            for k in node.keywords:
                if k.arg in fields:
                    vals[k.arg] = k.value
            if len(vals) == len(fields):
                return [vals[f_] for f_ in fields], list(fields)
    return None


class Model:
    def __init__(self, ctx):
        self.ctx = ctx
        self.repo = ctx.repo
        self.region = self.repo.cls("ProxiedRegion", REG)
        self.api_param_roles: Dict[str, List[Optional[str]]] = {}
        self.resolved_layout: Optional[Tuple[str, ...]] = None
        self.resolved_fields: Optional[List[str]] = None    # attribute names when resolve_cap returns a record
        self._ev: Dict[str, ConstEval] = {}
        cd = self.repo.cls("CapData", CAPS)
        self.capdata_fields = [st.target.id for st in cd.node.body
                               if isinstance(st, ast.AnnAssign) and isinstance(st.target, ast.Name)]
        ctx.require(all(k in self.capdata_fields for k in CAPDATA_FIELD_ROLES), "CapData lost cap_name/base_url/type")

    def rebuild_method(self):
        """The reverse-index rebuild method, found structurally: the one non-constructor method of
        ProxiedRegion that stores entries into self._caps_url_lookup."""
        if getattr(self, "_rebuild", None) is None:
            cands = []
            for m in self.family_methods():
                if m.name == "__init__":
                    continue
                if any(st.path == "self._caps_url_lookup" and st.kind in ("setitem", "mutcall") and
                       (st.kind == "setitem" or st.method in ("update", "setdefault")) for st in stores(m.node)):
                    cands.append(m)
            if len(cands) > 1:
                # an extra writer is an ownership violation (reported by R3); the rebuild is the one that also resets
                narrowed = [m for m in cands if any(st.path == "self._caps_url_lookup" and
                                                    ((st.kind == "mutcall" and st.method == "clear") or st.kind == "assign")
                                                    for st in stores(m.node))]
                if len(narrowed) == 1:
                    cands = narrowed
            if len(cands) != 1:
                raise AnalysisError(f"expected exactly one ProxiedRegion method filling _caps_url_lookup, found "
                                    f"{[c.qual for c in cands]}")
            self._rebuild = cands[0]
        return self._rebuild

    def module_aware(self, mod) -> bool:
        if mod.rel.startswith("hippolyzer/lib/proxy/"):
            return True
        return any(t.startswith("hippolyzer.lib.proxy") for t in mod.imports.values())

    def family(self):
        """ProxiedRegion, the repo classes it inherits from inside the proxy package (mixins), and its subclasses."""
        if getattr(self, "_family", None) is None:
            fam = [c for c in self.repo.mro(self.region) if c == self.region or c.module.rel.startswith("hippolyzer/lib/proxy/")]
            for c in self.repo.subclasses(self.region, strict=True):
                if c not in fam:
                    fam.append(c)
            self._family = fam
        return self._family

    def family_methods(self):
        seen, out = set(), []
        for c in self.family():
            for m in c.methods.values():
                if m.full not in seen:
                    seen.add(m.full)
                    out.append(m)
        return out

    def in_region_class(self, fi) -> bool:
        return fi.cls is not None and any(c == fi.cls for c in self.family())

    def owner_roots(self, fi, seen=()) -> Optional[Set[str]]:
        """Names of the owner methods (__init__, update_caps, register_cap, resolve_cap) through which `fi` runs:
        itself if it is one, or - for a private helper only ever called as self.<helper>() from owned code - theirs.
        None when it is reachable otherwise."""
        fi = top_fn(fi)
        if not self.in_region_class(fi):
            return None
        if fi.name in OWNER_NAMES:
            return {fi.name}
        if fi in seen:
            return set()
        from .common import callers_of
        callers = callers_of(self.repo, fi.name)
        if not callers:
            return None
        roots: Set[str] = set()
        for h, c in callers:
            if not (isinstance(c.func, ast.Attribute) and isinstance(c.func.value, ast.Name) and c.func.value.id == "self"):
                return None
            r = self.owner_roots(h, tuple(seen) + (fi,))
            if r is None:
                return None
            roots |= r
        return roots

    def is_caps_attr(self, node, fi) -> bool:
        if not (isinstance(node, ast.Attribute) and node.attr == "caps"):
            return False
        if isinstance(node.value, ast.Name) and node.value.id == "self":
            return self.in_region_class(fi)
        return self.module_aware(fi.module)

    def captype_member(self, node, mod) -> Optional[str]:
        if not isinstance(node, ast.Attribute):
            return None
        ev = self._ev.setdefault(mod.rel, ConstEval(self.repo, mod))
        v = ev.ev(node)
        if isinstance(v, EnumVal) and v.cls == "CapType":
            return v.name
        return None


class RoleFlow:
    """Flow-insensitive role inference for one top-level function: which local names / expressions hold a
    cap NAME, a CapType (TYPE) or a URL because of *where they were read from* (declared), and which
    role each use site *demands*."""

    def __init__(self, model: Model, fi):
        self.m = model
        self.f = fi
        self.fn = fi.node
        self.mod = fi.module
        self.aliases: Dict[str, str] = {}
        self.roles: Dict[str, Set[str]] = {}
        self.layouts: Dict[str, Set[tuple]] = {}
        self.lists: Dict[str, Set[tuple]] = {}
        self.key_of: Dict[str, Set[str]] = {}
        self.scope: Dict[str, Set[str]] = {}      # name -> {"all" (every entry of a key / table), "first" (newest only)}
        self.use_roles: Dict[str, Set[str]] = {}
        self.resolved_names: Set[str] = set()
        self.checks: List[Tuple[ast.AST, ast.AST, str, str]] = []   # (context, expr, declared, demanded)
        self.params = [a.arg for a in self.fn.args.args + self.fn.args.kwonlyargs]
        for a in self.fn.args.args + self.fn.args.kwonlyargs:
            if a.annotation is not None and (ap(a.annotation) or "").split(".")[-1] == "CapType":
                self.roles.setdefault(a.arg, set()).add(TYPE)
        for st in stores(self.fn):
            if st.kind == "assign" and isinstance(st.target, ast.Name) and st.value is not None:
                if model.is_caps_attr(st.value, fi):
                    self.aliases[st.path] = "caps"
                elif isinstance(st.value, ast.Attribute) and st.value.attr == "_caps_url_lookup":
                    self.aliases[st.path] = "lookup"
        for _ in range(4):
            self._bind_pass()
        self._collect()

    # ---- containers
    def table_of(self, e) -> Optional[str]:
        if self.m.is_caps_attr(e, self.f):
            return "caps"
        if isinstance(e, ast.Attribute) and e.attr == "_caps_url_lookup":
            return "lookup"
        if isinstance(e, ast.Name) and e.id in self.aliases:
            return self.aliases[e.id]
        return None

    def value_layout(self, e) -> Optional[tuple]:
        if isinstance(e, ast.Name):
            ls = self.layouts.get(e.id, set())
            return next(iter(ls)) if len(ls) == 1 else None
        if isinstance(e, ast.Subscript) and not isinstance(e.slice, ast.Slice):
            t = self.table_of(e.value)
            if t:
                return TABLES[t]["value"]
        if isinstance(e, ast.Call) and isinstance(e.func, ast.Attribute) and e.func.attr in SINGLE_GETTERS:
            t = self.table_of(e.func.value)
            if t:
                return TABLES[t]["value"]
        return None

    def key_expr(self, e) -> Optional[ast.AST]:
        if isinstance(e, ast.Subscript) and self.table_of(e.value):
            return e.slice
        if isinstance(e, ast.Call) and isinstance(e.func, ast.Attribute) and self.table_of(e.func.value) and e.args:
            return e.args[0]
        return None

    def list_layout(self, e) -> Optional[tuple]:
        if isinstance(e, ast.Name):
            ls = self.lists.get(e.id, set())
            return next(iter(ls)) if len(ls) == 1 else None
        if isinstance(e, ast.Call) and isinstance(e.func, ast.Attribute):
            t = self.table_of(e.func.value)
            if t and e.func.attr in LIST_GETTERS | {"values"}:
                return TABLES[t]["value"]
        return None

    # ---- binding
    def _bind_role(self, target, role):
        if isinstance(target, ast.Name):
            self.roles.setdefault(target.id, set()).add(role)

    def _bind_layout(self, target, layout, key: Optional[str], scope: Optional[str] = None):
        if isinstance(target, ast.Name):
            self.layouts.setdefault(target.id, set()).add(layout)
            if key:
                self.key_of.setdefault(target.id, set()).add(key)
            if scope:
                self.scope.setdefault(target.id, set()).add(scope)
        elif isinstance(target, (ast.Tuple, ast.List)) and len(target.elts) == len(layout) and \
                not any(isinstance(x, ast.Starred) for x in target.elts):
            for t, r in zip(target.elts, layout):
                self._bind_role(t, r)
                if key and isinstance(t, ast.Name):
                    self.key_of.setdefault(t.id, set()).add(key)
                if scope and isinstance(t, ast.Name):
                    self.scope.setdefault(t.id, set()).add(scope)

    def _bind_iter(self, target, it):
        for _ in range(4):
            while isinstance(it, ast.Call) and isinstance(it.func, ast.Name) and it.func.id in COPY_CALLS | {"reversed"} and it.args:
                it = it.args[0]   # a copy / reordering of the same elements
            if isinstance(it, ast.Name) and it.id not in self.lists and it.id not in self.aliases:
                vals = [st.value for st in stores(self.fn, into_defs=False)
                        if st.path == it.id and st.kind == "assign" and st.value is not None]
                if len(vals) == 1 and isinstance(vals[0], ast.Call):
                    it = vals[0]     # a local naming (a sorted copy of) the table's items
                    continue
            break
        if isinstance(it, ast.Call) and isinstance(it.func, ast.Attribute):
            t = self.table_of(it.func.value)
            if t and it.func.attr == "items":
                if isinstance(target, (ast.Tuple, ast.List)) and len(target.elts) == 2:
                    k, v = target.elts
                    self._bind_role(k, TABLES[t]["key"])
                    self._bind_layout(v, TABLES[t]["value"], k.id if isinstance(k, ast.Name) else None, "all")
                return
            if t and it.func.attr == "keys":
                self._bind_role(target, TABLES[t]["key"])
                return
        t = self.table_of(it)
        if t:
            self._bind_role(target, TABLES[t]["key"])
            return
        ll = self.list_layout(it)
        if ll:
            key = None
            if isinstance(it, ast.Call) and it.args and isinstance(it.args[0], ast.Name):
                key = it.args[0].id          # getall(name) / popall(name)
            elif isinstance(it, ast.Name):
                ks = self.key_of.get(it.id, set())
                key = next(iter(ks)) if len(ks) == 1 else None
            self._bind_layout(target, ll, key, "all")

    def _bind_pass(self):
        for n in walk(self.fn, into_defs=True):
            if isinstance(n, (ast.For, ast.AsyncFor)):
                self._bind_iter(n.target, n.iter)
            elif isinstance(n, ast.comprehension):
                self._bind_iter(n.target, n.iter)
            elif isinstance(n, ast.Assign) and len(n.targets) == 1 and isinstance(n.targets[0], (ast.Tuple, ast.List)) and \
                    isinstance(n.value, (ast.Tuple, ast.List)) and len(n.targets[0].elts) == len(n.value.elts) and \
                    not any(isinstance(x, ast.Starred) for x in n.targets[0].elts + n.value.elts):
                # a, b = x, y  is  a = x; b = y
                for t_, v_ in zip(n.targets[0].elts, n.value.elts):
                    self._bind_assign(t_, v_)
            elif isinstance(n, ast.Assign) and len(n.targets) == 1:
                self._bind_assign(n.targets[0], n.value)

    def _bind_assign(self, tgt, v):
        if True:
            if True:
                lay = self.value_layout(v)
                if lay:
                    k = self.key_expr(v)
                    sc = "first" if k is not None else next(iter(self.scope_for(v)), None)
                    self._bind_layout(tgt, lay, k.id if isinstance(k, ast.Name) else None, sc)
                ll = self.list_layout(v)
                if ll and isinstance(tgt, ast.Name):
                    self.lists.setdefault(tgt.id, set()).add(ll)
                    if isinstance(v, ast.Call) and v.args and isinstance(v.args[0], ast.Name):
                        self.key_of.setdefault(tgt.id, set()).add(v.args[0].id)
                r = self.role_of(v)
                if r and isinstance(tgt, ast.Name):
                    self._bind_role(tgt, r)
                    for k in self.keys_for(v):
                        self.key_of.setdefault(tgt.id, set()).add(k)
                    for sc in self.scope_for(v):
                        self.scope.setdefault(tgt.id, set()).add(sc)
                if isinstance(v, ast.Name) and v.id in self.resolved_names and isinstance(tgt, ast.Name):
                    self.resolved_names.add(tgt.id)          # alias of a resolve_cap() result
                if isinstance(v, ast.Call) and call_attr(v) == "resolve_cap":
                    if isinstance(tgt, ast.Name):
                        self.resolved_names.add(tgt.id)
                        if self.m.resolved_layout and self.m.resolved_fields:
                            # a record result: positions and attributes are both readable off the name
                            self.layouts.setdefault(tgt.id, set()).add(self.m.resolved_layout)
                    elif self.m.resolved_layout:
                        self._bind_layout(tgt, self.m.resolved_layout, None)
                if isinstance(v, ast.Name) and v.id in self.resolved_names and self.m.resolved_layout and \
                        isinstance(tgt, (ast.Tuple, ast.List)):
                    self._bind_layout(tgt, self.m.resolved_layout, None)

    def role_of(self, e) -> Optional[str]:
        if isinstance(e, ast.Name):
            rs = self.roles.get(e.id, set())
            return next(iter(rs)) if len(rs) == 1 else None
        if isinstance(e, ast.Subscript) and isinstance(e.slice, ast.Constant) and isinstance(e.slice.value, int):
            lay = self.value_layout(e.value)
            if lay and 0 <= e.slice.value < len(lay):
                return lay[e.slice.value]
        if isinstance(e, ast.Attribute) and isinstance(e.value, ast.Name) and e.value.id in self.resolved_names and \
                self.m.resolved_fields and self.m.resolved_layout and e.attr in self.m.resolved_fields:
            return self.m.resolved_layout[self.m.resolved_fields.index(e.attr)]
        return None

    def keys_for(self, e) -> Set[str]:
        """Names of the cap-name keys under which the value `e` was read."""
        if isinstance(e, ast.Name):
            return set(self.key_of.get(e.id, set()))
        if isinstance(e, ast.Subscript):
            k = self.key_expr(e.value)
            if isinstance(k, ast.Name):
                return {k.id}
            return self.keys_for(e.value)
        return set()

    def scope_for(self, e) -> Set[str]:
        """Was the value read from every entry ("all") or only from the newest entry of its name ("first")?"""
        if isinstance(e, ast.Name):
            return set(self.scope.get(e.id, set()))
        if isinstance(e, ast.Subscript):
            if self.key_expr(e.value) is not None or self.key_expr(e) is not None:
                return {"first"}
            return self.scope_for(e.value)
        if isinstance(e, ast.Call) and self.key_expr(e) is not None:
            return {"first"}
        return set()

    def role_any(self, e) -> Optional[str]:
        r = self.role_of(e)
        if r:
            return r
        if isinstance(e, ast.Name):
            us = self.use_roles.get(e.id, set()) - {STR}
            if len(us) == 1:
                return next(iter(us))
        return None

    # ---- demands
    def demand(self, ctxnode, e, demanded: str):
        cm = self.m.captype_member(e, self.mod)
        if cm is not None:
            self.checks.append((ctxnode, e, TYPE, demanded))
            return
        d = self.role_of(e)
        if d:
            self.checks.append((ctxnode, e, d, demanded))
        elif isinstance(e, ast.Name):
            self.use_roles.setdefault(e.id, set()).add(demanded)

    def demand_value(self, ctxnode, v, layout: tuple):
        if isinstance(v, ast.Tuple):
            if len(v.elts) != len(layout):
                self.checks.append((ctxnode, v, f"{len(v.elts)}-tuple", f"{len(layout)}-tuple"))
                return
            for el, r in zip(v.elts, layout):
                self.demand(ctxnode, el, r)
        else:
            lay = self.value_layout(v)
            if lay:
                self.checks.append((ctxnode, v, "/".join(lay), "/".join(layout)))

    def _collect(self):
        m = self.m
        for n in walk(self.fn, into_defs=True):
            if isinstance(n, ast.Compare):
                operands = [n.left] + list(n.comparators)
                for i, op in enumerate(n.ops):
                    a, b = operands[i], operands[i + 1]
                    if isinstance(op, (ast.Eq, ast.NotEq, ast.Is, ast.IsNot)):
                        ca, cb = m.captype_member(a, self.mod), m.captype_member(b, self.mod)
                        if cb and not ca:
                            self.demand(n, a, TYPE)
                        elif ca and not cb:
                            self.demand(n, b, TYPE)
                        elif self.role_of(a) and self.role_of(b):
                            self.demand(n, b, self.role_of(a))
                    elif isinstance(op, (ast.In, ast.NotIn)):
                        t = self.table_of(b)
                        if t:
                            self.demand(n, a, TABLES[t]["key"])
                        ll = self.list_layout(b)
                        if ll:
                            self.demand_value(n, a, ll)
            elif isinstance(n, ast.Call):
                f = n.func
                last = call_attr(n)
                if isinstance(f, ast.Attribute):
                    t = self.table_of(f.value)
                    if t:
                        if f.attr in KEYED_METHODS and n.args:
                            self.demand(n, n.args[0], TABLES[t]["key"])
                        if f.attr in ("add", "setdefault") and len(n.args) > 1:
                            self.demand_value(n, n.args[1], TABLES[t]["value"])
                        if f.attr in ("extend", "update") and n.args and \
                                isinstance(n.args[0], (ast.GeneratorExp, ast.ListComp)) and \
                                isinstance(n.args[0].elt, ast.Tuple) and len(n.args[0].elt.elts) == 2:
                            k, v = n.args[0].elt.elts
                            self.demand(n, k, TABLES[t]["key"])
                            self.demand_value(n, v, TABLES[t]["value"])
                        continue
                    ll = self.list_layout(f.value)
                    if ll and f.attr in ("remove", "append", "index", "count") and n.args:
                        self.demand_value(n, n.args[0], ll)
                        continue
                    if f.attr in STR_METHODS:
                        self.demand(n, f.value, STR)
                        if f.attr in ("startswith", "endswith") and n.args:
                            self.demand(n, n.args[0], STR)
                if last in ("urlsplit", "urlparse") and n.args:
                    self.demand(n, n.args[0], URL)
                if last in m.api_param_roles and isinstance(f, ast.Attribute):
                    proles = m.api_param_roles[last]
                    pnames = m.api_param_names[last]
                    for i, a in enumerate(n.args):
                        if i < len(proles) and proles[i]:
                            self.demand(n, a, proles[i])
                    for k in n.keywords:
                        if k.arg in pnames and proles[pnames.index(k.arg)]:
                            self.demand(n, k.value, proles[pnames.index(k.arg)])
                if last == "CapData":
                    for i, a in enumerate(n.args):
                        if i < len(m.capdata_fields) and m.capdata_fields[i] in CAPDATA_FIELD_ROLES:
                            self.demand(n, a, CAPDATA_FIELD_ROLES[m.capdata_fields[i]])
                    for k in n.keywords:
                        if k.arg in CAPDATA_FIELD_ROLES:
                            self.demand(n, k.value, CAPDATA_FIELD_ROLES[k.arg])
            elif isinstance(n, ast.Subscript) and not isinstance(n.slice, ast.Slice):
                t = self.table_of(n.value)
                if t:
                    self.demand(n, n.slice, TABLES[t]["key"])
                    p = parent(n)
                    if isinstance(n.ctx, ast.Store) and isinstance(p, ast.Assign):
                        self.demand_value(p, p.value, TABLES[t]["value"])

    def return_sigs(self) -> List[Tuple[ast.Return, Tuple[Optional[str], ...]]]:
        out = []
        for r in returns_of(self.fn):
            v = r.value
            if v is None or (isinstance(v, ast.Constant) and v.value is None):
                continue
            rec = record_elts(self.m.repo, self.mod, v)
            elts = rec[0] if rec else [v]
            out.append((r, tuple(self.role_any(e) for e in elts)))
        return out

    def return_fields(self) -> Optional[List[str]]:
        names = []
        for r in returns_of(self.fn):
            rec = record_elts(self.m.repo, self.mod, r.value) if r.value is not None else None
            if rec and rec[1]:
                names.append(tuple(rec[1]))
        return list(names[0]) if names and all(n == names[0] for n in names) else None


def _interesting(model: Model, fi) -> bool:
    if fi.parent_fn is not None:
        return False
    if not model.module_aware(fi.module):
        return False
    if model.in_region_class(fi):
        return True
    for n in walk(fi.node, into_defs=True):
        if model.is_caps_attr(n, fi):
            return True
        if isinstance(n, ast.Attribute) and n.attr == "_caps_url_lookup":
            return True
        if isinstance(n, ast.Call) and call_attr(n) == "resolve_cap" and isinstance(n.func, ast.Attribute):
            return True
    return False


def r1(ctx, model: Model):
    repo = ctx.repo
    ctx.rule("C16.R1", "tuple-layout agreement: caps values are (CapType, url), the reverse index holds "
                       "(CapType, name), resolve_cap yields (name, url, type); every index / unpacking / comparison / "
                       "store / CapData field uses each position in its own role")
    # phase 1: roles of the region API parameters (from how the region methods use them)
    model.api_param_roles, model.api_param_names = {}, {}
    api = ["register_cap", "register_wrapper_cap", "register_proxy_cap"]
    flows: Dict[str, RoleFlow] = {}
    for name in api:
        fi = repo.fn(f"ProxiedRegion.{name}")
        flows[name] = RoleFlow(model, fi)
    for _ in range(2):  # wrappers forward to register_cap
        for name in api:
            fl = flows[name]
            ps = [p for p in fl.params if p != "self"]
            roles = []
            for p in ps:
                r = fl.role_of(ast.Name(id=p, ctx=ast.Load()))
                if not r:
                    us = fl.use_roles.get(p, set()) - {STR}
                    r = next(iter(us)) if len(us) == 1 else None
                roles.append(r)
            model.api_param_roles[name] = roles
            model.api_param_names[name] = ps
        for name in api:
            flows[name] = RoleFlow(model, repo.fn(f"ProxiedRegion.{name}"))
    ctx.ob("C16.R1", "register_cap(name, cap_url, cap_type) parameters carry (NAME, URL, TYPE)",
           model.api_param_roles["register_cap"][:3] == [NAME, URL, TYPE], repo.fn("ProxiedRegion.register_cap").where,
           f"parameter roles inferred from the stored tuple: {model.api_param_roles['register_cap']}")
    # resolve_cap's result layout
    rc = RoleFlow(model, repo.fn("ProxiedRegion.resolve_cap"))
    sigs = [s for _, s in rc.return_sigs() if len(s) > 1]
    ctx.require(len(sigs) >= 1 and all(s == sigs[0] for s in sigs) and all(sigs[0]),
                f"ProxiedRegion.resolve_cap: result layout not determinable ({sigs})")
    model.resolved_layout = sigs[0]
    model.resolved_fields = rc.return_fields()
    ctx.ob("C16.R1", "ProxiedRegion.resolve_cap yields (name, url, type)", sigs[0] == (NAME, URL, TYPE),
           repo.fn("ProxiedRegion.resolve_cap").where, f"result layout is {sigs[0]} (annotated Tuple[str, str, CapType])")
    # phase 2: every function touching the tables
    n_checks = 0
    targets = [fi for fi in repo.all_funcs if _interesting(model, fi)]
    ctx.floor("C16.R1", "functions reading or writing cap tables", len(targets), 8)
    for fi in sorted(targets, key=lambda f: f.full):
        fl = RoleFlow(model, fi)
        for cnode, e, declared, demanded in fl.checks:
            n_checks += 1
            ctx.ob("C16.R1", f"{fi.qual}: `{norm(cnode)}`: `{norm(e)}` used as {demanded}", _compatible(declared, demanded),
                   ctx.w(fi, cnode), f"this expression holds a {declared} (by the position it was read from / its type)")
        amb = sorted(k for k, v in fl.roles.items() if len(v) > 1)
        if amb:
            ctx.note(f"C16.R1: {fi.qual}: locals {amb} are bound to more than one role; their uses are not compared")
        sigs = fl.return_sigs()
        known = [(r, s) for r, s in sigs if any(s)]
        if known and (fi.module.rel in (REG, SESS)):
            ok = True
            for i in range(max(len(s) for _, s in known)):
                col = {s[i] for _, s in known if i < len(s) and s[i]}
                if len(col) > 1:
                    ok = False
            arities = {len(s) for _, s in known}
            ctx.ob("C16.R1", f"{fi.qual}: every return yields the same roles", ok and len(arities) == 1, fi.where,
                   "returns: " + "; ".join(f"`{norm(r.value)}` -> {s}" for r, s in sigs))
    ctx.floor("C16.R1", "role-checked uses", n_checks, 8)
    # cap_urls is the name -> URL view
    cu = repo.fn("ProxiedRegion.cap_urls")
    fl = RoleFlow(model, cu)
    pairs = [n for n in walk(cu.node, into_defs=True) if isinstance(n, (ast.GeneratorExp, ast.ListComp, ast.DictComp))]
    ctx.require(len(pairs) == 1, "ProxiedRegion.cap_urls is no longer one comprehension over caps.items()")
    comp = pairs[0]
    if isinstance(comp, ast.DictComp):
        k, v = comp.key, comp.value
    else:
        ctx.require(isinstance(comp.elt, ast.Tuple) and len(comp.elt.elts) == 2, "cap_urls comprehension element is not a pair")
        k, v = comp.elt.elts
    ctx.ob("C16.R1", "ProxiedRegion.cap_urls maps NAME -> URL", fl.role_of(k) == NAME and fl.role_of(v) == URL, cu.where,
           f"pairs are ({fl.role_of(k)}, {fl.role_of(v)})")


# --------------------------------------------------------------------------- R2

def _list_tokens(expr, env, new_p: str) -> Optional[List[str]]:
    """Abstract a list expression to a sequence over {NEW, OLD*}."""
    if isinstance(expr, ast.Name):
        if expr.id == new_p:
            return None
        return list(env[expr.id]) if expr.id in env else None
    if isinstance(expr, (ast.List, ast.Tuple)):
        out = []
        for e in expr.elts:
            if isinstance(e, ast.Name) and e.id == new_p:
                out.append("NEW")
            elif isinstance(e, ast.Starred):
                sub = _list_tokens(e.value, env, new_p)
                if sub is None:
                    return None
                out.extend(sub)
            else:
                return None
        return out
    if isinstance(expr, ast.Subscript) and isinstance(expr.slice, ast.Slice):
        inner = _list_tokens(expr.value, env, new_p)
        return None if inner is None else ["OLD-TRUNCATED*" if x.startswith("OLD") else x for x in inner]
    if isinstance(expr, ast.BinOp) and isinstance(expr.op, ast.Add):
        a, b = _list_tokens(expr.left, env, new_p), _list_tokens(expr.right, env, new_p)
        return None if a is None or b is None else a + b
    if isinstance(expr, ast.ListComp) and len(expr.generators) == 1 and isinstance(expr.elt, ast.Name) and \
            isinstance(expr.generators[0].target, ast.Name) and expr.generators[0].target.id == expr.elt.id:
        g = expr.generators[0]
        toks = _list_tokens(g.iter, env, new_p)
        if toks is None:
            return None
        for c in g.ifs:
            if isinstance(c, ast.Compare) and len(c.ops) == 1 and isinstance(c.ops[0], ast.NotEq) and \
                    {ap(c.left), ap(c.comparators[0])} == {expr.elt.id, new_p}:
                toks = ["OLD-*" if t == "OLD*" else t for t in toks if t != "NEW"]
            else:
                return None
        return toks
    if isinstance(expr, ast.Call):
        nm = call_attr(expr)
        if nm == "popall" and isinstance(expr.func, ast.Attribute) and ap(expr.func.value) in ("self", "super()"):
            return ["OLD*"]
        if nm in ("list", "tuple") and len(expr.args) == 1:
            return _list_tokens(expr.args[0], env, new_p)
    return None


def r2(ctx, model: Model):
    repo = ctx.repo
    ctx.rule("C16.R2", "most-recent-first: CapsMultiDict.add re-inserts [new value] + popped old values; grants go "
                       "through add and are not conditional on what the region already holds")
    f = repo.fn("CapsMultiDict.add")
    params = [a.arg for a in f.node.args.args]
    ctx.require(len(params) == 3, "CapsMultiDict.add signature changed (self, key, value)")
    key_p, new_p = params[1], params[2]
    def is_super_add(c):
        return isinstance(c, ast.Call) and call_attr(c) == "add" and isinstance(c.func, ast.Attribute) and \
            ap(c.func.value) in ("super()",) and len(c.args) == 2

    def run_case(case: str):
        """Abstractly execute add() when the value being added is `case` (absent / present) among the stored ones."""
        st_ = {"env": {}, "emitted": [], "popped": False, "ok_pop": True}

        def emit_of(c, loopvar=None, looptoks=None):
            a = c.args[1]
            if isinstance(a, ast.Name) and a.id == new_p:
                return ["NEW"]
            if loopvar and isinstance(a, ast.Name) and a.id == loopvar:
                return list(looptoks)
            raise AnalysisError(f"CapsMultiDict.add: unsupported re-insert `{norm(c)}`")

        def test(e) -> bool:
            if isinstance(e, ast.UnaryOp) and isinstance(e.op, ast.Not):
                return not test(e.operand)
            if isinstance(e, ast.Compare) and len(e.ops) == 1 and isinstance(e.ops[0], (ast.In, ast.NotIn)) and \
                    ap(e.left) == new_p:
                toks = _list_tokens(e.comparators[0], st_["env"], new_p)
                if toks is None:
                    raise AnalysisError(f"CapsMultiDict.add: unsupported membership test `{norm(e)}`")
                if "OLD*" in toks:
                    st_["popped"] = True
                inside = "NEW" in toks or (case == "present" and any(t.startswith("OLD") and t != "OLD-*" for t in toks))
                return inside if isinstance(e.ops[0], ast.In) else not inside
            raise AnalysisError(f"CapsMultiDict.add: unsupported condition `{norm(e)}`")

        def block(stmts):
            env = st_["env"]
            for st in stmts:
                if isinstance(st, ast.Expr) and isinstance(st.value, ast.Constant):
                    continue
                if isinstance(st, ast.Pass):
                    continue
                if isinstance(st, ast.If):
                    block(st.body if test(st.test) else st.orelse)
                elif isinstance(st, ast.Delete) and all(isinstance(t, ast.Subscript) and isinstance(t.value, ast.Name) and
                                                        t.value.id in env for t in st.targets):
                    # `del vals[k:]` / `del vals[i]`: some of the previous values are dropped
                    for t in st.targets:
                        env[t.value.id][:] = ["OLD-TRUNCATED*" if x.startswith("OLD") else x for x in env[t.value.id]]
                elif isinstance(st, ast.Assign) and len(st.targets) == 1 and isinstance(st.targets[0], ast.Name):
                    toks = _list_tokens(st.value, env, new_p)
                    if toks is None:
                        raise AnalysisError(f"CapsMultiDict.add: unsupported statement `{norm(st)}`")
                    if any(t.startswith("OLD") for t in toks):
                        st_["popped"] = True
                    env[st.targets[0].id] = toks
                elif isinstance(st, ast.Expr) and isinstance(st.value, ast.Call):
                    c = st.value
                    if is_super_add(c):
                        if not st_["popped"]:
                            st_["ok_pop"] = False
                        st_["emitted"].extend(emit_of(c))
                    elif isinstance(c.func, ast.Attribute) and isinstance(c.func.value, ast.Name) and c.func.value.id in env:
                        lst = env[c.func.value.id]
                        if c.func.attr == "append" and len(c.args) == 1 and ap(c.args[0]) == new_p:
                            lst.append("NEW")
                        elif c.func.attr == "insert" and len(c.args) == 2 and isinstance(c.args[0], ast.Constant) and \
                                c.args[0].value == 0 and ap(c.args[1]) == new_p:
                            lst.insert(0, "NEW")
                        elif c.func.attr == "remove" and len(c.args) == 1 and ap(c.args[0]) == new_p:
                            # removes the first equal entry; duplicates may remain
                            if "NEW" in lst:
                                lst.remove("NEW")
                            elif case == "absent":
                                raise AnalysisError("CapsMultiDict.add: remove() of a value that may be absent")
                        elif c.func.attr == "reverse" and not c.args:
                            lst.reverse()
                            lst[:] = ["OLD-REVERSED*" if t.startswith("OLD") else t for t in lst]
                        else:
                            raise AnalysisError(f"CapsMultiDict.add: unsupported list operation `{norm(st)}`")
                    elif call_attr(c) == "popall":
                        st_["popped"] = True  # result discarded: old values are dropped, reported below
                    elif (ap(c.func) or "").split(".")[0] in ("LOG", "logging", "logger"):
                        continue
                    else:
                        raise AnalysisError(f"CapsMultiDict.add: unsupported statement `{norm(st)}`")
                elif isinstance(st, ast.For) and isinstance(st.target, ast.Name) and len(st.body) == 1 and not st.orelse and \
                        isinstance(st.body[0], ast.Expr) and is_super_add(st.body[0].value):
                    it = st.iter
                    rev = False
                    if isinstance(it, ast.Call) and ap(it.func) == "reversed" and len(it.args) == 1:
                        it, rev = it.args[0], True
                    toks = _list_tokens(it, env, new_p)
                    if toks is None:
                        raise AnalysisError(f"CapsMultiDict.add: unsupported loop source `{norm(st.iter)}`")
                    if any(t.startswith("OLD") for t in toks):
                        st_["popped"] = True
                    if rev:
                        toks = ["OLD-REVERSED*" if t.startswith("OLD") else t for t in reversed(toks)]
                    if not st_["popped"]:
                        st_["ok_pop"] = False
                    st_["emitted"].extend(emit_of(st.body[0].value, st.target.id, toks))
                else:
                    raise AnalysisError(f"CapsMultiDict.add: unsupported statement `{norm(st)}`")
        block(f.node.body)
        return st_["emitted"], st_["ok_pop"]
    results = {case: run_case(case) for case in ("absent", "present")}
    bad = {case: (em, okp) for case, (em, okp) in results.items()
           if not (em in (["NEW", "OLD*"], ["NEW", "OLD-*"]) and okp)}
    ctx.ob("C16.R2", "CapsMultiDict.add re-inserts exactly [new value, *previous values]", not bad, f.where,
           ("a slice / del drops some of the previous values (every entry of a name must survive a new grant: an older "
            "PROXY_ONLY or still valid sim URL would stop resolving); " if any("OLD-TRUNCATED*" in em for em, _ in bad.values()) else "") +
           "; ".join(f"when the value is {case} among the stored ones the insertion order is {em}"
                     f"{'' if okp else ' with the previous values still in front'}" for case, (em, okp) in bad.items()) +
           ": lookup by name returns the first value, which must be the newest grant")
    keys_ok = all(ap(c.args[0]) == key_p for c in calls(f.node) if call_attr(c) in ("add", "popall") and c.args)
    ctx.ob("C16.R2", "CapsMultiDict.add pops and re-inserts under the key being added", keys_ok, f.where)
    # the caps table is a CapsMultiDict
    init = repo.fn("ProxiedRegion.__init__")
    ctor = [s for m in model.family_methods() for s in stores(m.node) if s.path == "self.caps" and s.kind == "assign"]
    ctx.ob("C16.R2", "ProxiedRegion.caps is a CapsMultiDict", len(ctor) == 1 and isinstance(ctor[0].value, ast.Call) and
           call_attr(ctor[0].value) == "CapsMultiDict", init.where, "a plain MultiDict appends: lookups by name return the oldest grant")
    # the name -> URL view keeps every entry in caps order (a dict / set in between collapses repeated names to the
    # last one seen, which under prepend-on-add is the OLDEST grant)
    cu = repo.fn("ProxiedRegion.cap_urls")
    ctors = [c for r in returns_of(cu.node) if r.value is not None for c in [r.value]
             if isinstance(c, ast.Call) and (call_attr(c) or "").endswith("MultiDict")]
    if ctors:
        for c in ctors:
            arg = c.args[0] if c.args else None
            collapsing = [n_ for n_ in ast.walk(c) if isinstance(n_, (ast.DictComp, ast.SetComp, ast.Dict)) or
                          (isinstance(n_, ast.Call) and ap(n_.func) in ("dict", "set", "frozenset", "sorted", "reversed"))]
            in_order = isinstance(arg, (ast.GeneratorExp, ast.ListComp)) and len(arg.generators) == 1 and \
                isinstance(arg.generators[0].iter, ast.Call) and call_attr(arg.generators[0].iter) == "items" and \
                model.is_caps_attr(arg.generators[0].iter.func.value, cu) and not arg.generators[0].ifs
            if not collapsing and not in_order:
                raise AnalysisError(f"ProxiedRegion.cap_urls: unsupported construction `{norm(c)}`")
            ctx.ob("C16.R2", "ProxiedRegion.cap_urls keeps every (name, url) of caps in caps order", not collapsing and in_order,
                   ctx.w(cu, c), f"built through `{norm(collapsing[0])}`: repeated names collapse / reorder, so lookup by "
                                 f"name in the view no longer yields the most recent grant" if collapsing else "")
    else:
        loops = [l for l in walk(cu.node) if isinstance(l, ast.For) and isinstance(l.iter, ast.Call) and
                 call_attr(l.iter) == "items" and model.is_caps_attr(l.iter.func.value, cu)]
        adds = [c for l in loops for c in find_calls(l, "add")]
        if not adds:
            raise AnalysisError("ProxiedRegion.cap_urls: neither a MultiDict construction nor an add() loop over caps.items()")
        ctx.ob("C16.R2", "ProxiedRegion.cap_urls keeps every (name, url) of caps in caps order",
               all(not facts(c, cu.node) for c in adds), cu.where, "entries are added conditionally")
    # a plain dict keeps the LAST value per name; caps.items() is newest-first, so that is the oldest grant
    n_views = 0
    for fi in repo.all_funcs:
        if fi.parent_fn is not None or not model.module_aware(fi.module):
            continue
        for n_ in walk(fi.node, into_defs=True):
            gens = []
            if isinstance(n_, ast.DictComp):
                gens = n_.generators
            elif isinstance(n_, ast.Call) and ap(n_.func) == "dict" and n_.args and \
                    isinstance(n_.args[0], (ast.GeneratorExp, ast.ListComp)):
                gens = n_.args[0].generators
            elif isinstance(n_, ast.Call) and ap(n_.func) == "dict" and n_.args and isinstance(n_.args[0], ast.Call) and \
                    call_attr(n_.args[0]) == "items" and isinstance(n_.args[0].func, ast.Attribute) and \
                    model.is_caps_attr(n_.args[0].func.value, fi):
                gens = [ast.comprehension(target=None, iter=n_.args[0], ifs=[], is_async=0)]
            for g in gens:
                it = g.iter
                if isinstance(it, ast.Call) and call_attr(it) == "items" and isinstance(it.func, ast.Attribute) and \
                        model.is_caps_attr(it.func.value, fi):
                    if fi.qual.endswith(".cap_urls") and model.in_region_class(fi):
                        continue   # judged above
                    n_views += 1
                    ctx.ob("C16.R2", f"{top_fn(fi).qual}: `{norm(n_)}` keeps the most recent grant per name", False, ctx.w(fi, n_),
                           "a dict built from caps.items() (newest first, names repeat) ends up with the OLDEST URL per "
                           "name; use cap_urls / caps[name] (first = newest) or iterate in reverse")
    # the proxy's caps client resolves a cap name through the name -> URL view: first entry = newest grant
    from .c18 import effective_code
    pcc = repo.cls("ProxyCapsClient")
    looked = 0
    for g, _ in effective_code(repo, pcc, "request", depth=3):
        for n_ in walk(g.node, into_defs=True):
            if isinstance(n_, ast.Subscript) and isinstance(n_.value, ast.Call) and call_attr(n_.value) in ("getall", "popall") \
                    and not isinstance(n_.slice, ast.Slice):
                idx = n_.slice
                first = isinstance(idx, ast.Constant) and idx.value == 0
                looked += 1
                ctx.ob("C16.R2", f"{g.qual}: `{norm(n_)}` takes the first (newest) URL of the name", first, ctx.w(g, n_),
                       "region.cap_urls lists the URLs of a name newest first (CapsMultiDict.add prepends): any other index, "
                       "[-1] in particular, is an older grant")
    # grant sites
    n = 0
    for fi, node, kind, method in caps_mutations(model):
        q = top_fn(fi).qual
        if kind == "mutcall" and method == "add":
            n += 1
            bad = []
            for e, pol in facts(node, fi.node):
                reads_state = any(model.is_caps_attr(x, fi) or (isinstance(x, ast.Attribute) and x.attr in ("_caps_url_lookup", "cap_urls"))
                                  for x in ast.walk(e))
                if not reads_state:
                    continue
                if _front_equality(model, fi, e, pol, node):
                    continue
                bad.append(norm(e))
            ctx.ob("C16.R2", f"{q}: grant `{norm(node)}` is not conditional on existing caps", not bad, ctx.w(fi, node),
                   f"skipped depending on {bad}: an older, different URL can stay in front of a re-granted one")
        elif kind == "mutcall" and method in ("extend", "update", "setdefault"):
            # re-insertion of popped values in resolve_cap is checked by R4; anything else bypasses prepend
            if model.owner_roots(fi) != {"resolve_cap"}:
                ctx.ob("C16.R2", f"{q}: `{norm(node)}` grants through CapsMultiDict.add", False, ctx.w(fi, node),
                       "extend/update/setdefault append after existing values")
        elif kind == "setitem" and model.owner_roots(fi) != {"__init__"}:
            ctx.ob("C16.R2", f"{q}: `{norm(node)}` grants through CapsMultiDict.add", False, ctx.w(fi, node),
                   "item assignment replaces every earlier grant of that name: their URLs no longer resolve")
    ctx.floor("C16.R2", "grant sites (caps.add)", n, 1)
    # callers of the grant API must not swallow a grant depending on what the region already holds either
    from .c18 import inline_self_calls
    from .common import callers_of
    seen_fn = set()
    for api in ("update_caps", "register_cap"):
        for g0, _c in callers_of(repo, api):
            g0 = top_fn(g0)
            if g0.full in seen_fn or model.in_region_class(g0):
                continue
            seen_fn.add(g0.full)
            g = inline_self_calls(repo, g0)
            for c in [x for x in calls(g.node) if call_attr(x) in ("update_caps", "register_cap") and isinstance(x.func, ast.Attribute)]:
                recv = norm(c.func.value)
                granted = []
                if call_attr(c) == "update_caps" and c.args and isinstance(c.args[0], ast.Dict):
                    granted = [(k, v) for k, v in zip(c.args[0].keys, c.args[0].values) if k is not None]
                elif call_attr(c) == "register_cap" and len(c.args) >= 2:
                    granted = [(c.args[0], c.args[1])]
                bad = []
                for e, pol in facts(c, g.node):
                    reads = [x for x in ast.walk(e) if isinstance(x, ast.Attribute) and x.attr in ("caps", "cap_urls", "_caps_url_lookup")
                             and norm(x.value) == recv]
                    if not reads:
                        continue
                    ok = False
                    if isinstance(e, ast.Compare) and len(e.ops) == 1 and isinstance(e.ops[0], (ast.Eq, ast.NotEq)):
                        differs = pol if isinstance(e.ops[0], ast.NotEq) else not pol
                        for a, b in ((e.left, e.comparators[0]), (e.comparators[0], e.left)):
                            front_key = None
                            if isinstance(a, ast.Subscript) and isinstance(a.value, ast.Attribute) and a.value.attr == "cap_urls":
                                front_key = a.slice
                            elif isinstance(a, ast.Call) and isinstance(a.func, ast.Attribute) and a.func.attr in ("get", "getone") and \
                                    isinstance(a.func.value, ast.Attribute) and a.func.value.attr == "cap_urls" and a.args:
                                front_key = a.args[0]
                            if front_key is not None and differs and \
                                    any(norm(k) == norm(front_key) and norm(v) == norm(b) for k, v in granted):
                                ok = True
                    if not ok:
                        bad.append(f"{'' if pol else 'not '}{norm(e)}")
                if any(isinstance(x, ast.Attribute) and x.attr in ("caps", "cap_urls") for e, _ in facts(c, g.node) for x in ast.walk(e)) or bad:
                    ctx.ob("C16.R2", f"{g0.qual}: `{norm(c)}` is skipped only when that URL is already the newest for its name",
                           not bad, ctx.w(g, c),
                           f"skipped under {bad}: a URL that was granted before but is no longer the newest is not moved "
                           f"to the front again, lookup by name keeps answering the stale one")


def _front_equality(model, fi, e, pol, grant_call) -> bool:
    """Fact `caps.get(name) != value` / `caps[name] != value` (holding): the grant is skipped only when it is
    already the first (most recent) entry."""
    if not (isinstance(e, ast.Compare) and len(e.ops) == 1 and isinstance(e.ops[0], (ast.Eq, ast.NotEq))):
        return False
    differs = pol if isinstance(e.ops[0], ast.NotEq) else not pol
    if not differs:
        return False
    sides = [e.left, e.comparators[0]]
    for a, b in (sides, sides[::-1]):
        front = (isinstance(a, ast.Subscript) and model.is_caps_attr(a.value, fi)) or \
            (isinstance(a, ast.Call) and isinstance(a.func, ast.Attribute) and a.func.attr in ("get", "getone") and
             model.is_caps_attr(a.func.value, fi))
        if front and len(grant_call.args) == 2 and norm(b) == norm(grant_call.args[1]):
            return True
    return False


def caps_mutations(model: Model):
    """(function, node, kind, method) for every mutation of a ProxiedRegion.caps table in the tree."""
    if getattr(model, "_muts", None) is not None:
        return model._muts
    out = []
    for fi in model.repo.all_funcs:
        if fi.parent_fn is not None or not model.module_aware(fi.module):
            continue
        out.extend(_mutations_in(model, fi))
    model._muts = out
    return out


def _mutations_in(model: Model, fi):
    out = []
    if True:
        aliases = set()
        for st in stores(fi.node):
            if st.kind == "assign" and isinstance(st.target, ast.Name) and st.value is not None and \
                    model.is_caps_attr(st.value, fi):
                aliases.add(st.path)

        def is_caps(e):
            return model.is_caps_attr(e, fi) or (isinstance(e, ast.Name) and e.id in aliases)
        for n in walk(fi.node, into_defs=True):
            if isinstance(n, ast.Call) and isinstance(n.func, ast.Attribute) and n.func.attr in TABLE_MUTATORS and \
                    is_caps(n.func.value):
                out.append((fi, n, "mutcall", n.func.attr))
            elif isinstance(n, ast.Subscript) and is_caps(n.value) and isinstance(n.ctx, (ast.Store, ast.Del)):
                out.append((fi, enclosing_stmt(n), "setitem" if isinstance(n.ctx, ast.Store) else "delitem", None))
            elif isinstance(n, ast.Attribute) and isinstance(n.ctx, (ast.Store, ast.Del)) and model.is_caps_attr(n, fi):
                out.append((fi, enclosing_stmt(n), "assign", None))
    return out


# --------------------------------------------------------------------------- R3

def _recalc_nodes(cfg: CFG, rebuild_name: str):
    return {n for n in cfg.nodes if n.ast is not None and n.kind in ("stmt", "test", "loop", "with") and
            any(call_attr(c) == rebuild_name for c in calls(cfg._head_expr(n.ast) if n.kind != "stmt" else n.ast))}


def iteration_mutations(ctx, rule: str, repo, fi, model: Optional[Model] = None):
    """Size-changing mutation of a container inside a `for` over that same container, with control
    returning to the loop head afterwards (the iterator then skips or repeats elements)."""
    cfg = None
    count = 0
    for loop in [n for n in walk(fi.node) if isinstance(n, (ast.For, ast.AsyncFor))]:
        it = loop.iter
        if isinstance(it, ast.Call) and isinstance(it.func, ast.Attribute) and it.func.attr in ("keys", "values", "items") \
                and not it.args:
            it = it.func.value
        base = ap(it)
        if base is None or isinstance(it, ast.Call) or (isinstance(it, ast.Subscript)):
            continue  # a copy / computed sequence
        count += 1
        muts = []
        for n in walk(ast.Module(body=loop.body, type_ignores=[])):
            if isinstance(n, ast.Call) and isinstance(n.func, ast.Attribute):
                if n.func.attr in SIZE_MUTATORS and ap(n.func.value) == base:
                    muts.append((n, norm(n)))
                elif isinstance(n.func.value, ast.Name) and n.func.value.id == "self" and fi.cls is not None and \
                        base.startswith("self."):
                    callee = repo.lookup_method(fi.cls, n.func.attr)
                    if callee is not None and any(isinstance(c.func, ast.Attribute) and c.func.attr in SIZE_MUTATORS and
                                                  ap(c.func.value) == base for c in calls(callee.node)):
                        muts.append((n, f"{norm(n)} (mutates {base})"))
            elif isinstance(n, ast.Delete):
                for t in n.targets:
                    if isinstance(t, ast.Subscript) and ap(t.value) == base:
                        muts.append((n, norm(n)))
        for n, label in muts:
            if cfg is None:
                cfg = CFG(fi.node)
            heads = cfg.nodes_for(loop)
            starts = cfg.stmt_nodes_containing(n)
            back = any(h in cfg.reachable(starts, exc=False) for h in heads) if starts and heads else True
            ctx.ob(rule, f"{fi.qual}: `{label}` inside `for {norm(loop.target)} in {norm(loop.iter)}` leaves the loop",
                   not back, ctx.w(fi, n),
                   f"{base} changes size while it is being iterated and the loop continues: elements are skipped")
    return count


def _stale_witness(cfg: CFG, start, rn, fn_node):
    """A normal-edge path from `start` to the function exit that avoids the rebuild nodes `rn`, or None.
    Boolean flag locals (only ever assigned True/False) are tracked along the path, so that
    `flag = True` after the mutation and `if flag: rebuild()` later is recognised."""
    flags = {}
    for st in stores(fn_node, into_defs=False):
        if isinstance(st.target, ast.Name):
            ok = st.kind == "assign" and isinstance(st.value, ast.Constant) and isinstance(st.value.value, bool)
            flags[st.path] = flags.get(st.path, True) and ok
    flags = {k for k, v in flags.items() if v}

    def step_state(n, state):
        if n.kind == "stmt" and isinstance(n.ast, (ast.Assign, ast.AnnAssign)):
            tgts = n.ast.targets if isinstance(n.ast, ast.Assign) else [n.ast.target]
            for t in tgts:
                if isinstance(t, ast.Name) and t.id in flags and isinstance(n.ast.value, ast.Constant):
                    return state | {t.id} if n.ast.value.value else state - {t.id}
        return state

    def succs_of(n, state):
        if n.kind == "test" and isinstance(n.ast, ast.If) and n.ast.body:
            t = n.ast.test
            neg = False
            if isinstance(t, ast.UnaryOp) and isinstance(t.op, ast.Not):
                t, neg = t.operand, True
            if isinstance(t, ast.Name) and t.id in state:
                body_nodes = set(cfg.nodes_for(n.ast.body[0]))
                inb = [x for x in n.succs if x in body_nodes]
                out = [x for x in n.succs if x not in body_nodes]
                return out if neg else inb
        return n.succs
    from collections import deque
    init = (start, frozenset())
    prev = {init: None}
    dq = deque([init])
    while dq:
        n, state = dq.popleft()
        for x in succs_of(n, state):
            if x in rn:
                continue
            st2 = frozenset(step_state(x, set(state)))
            key = (x, st2)
            if key in prev:
                continue
            prev[key] = (n, state)
            if x is cfg.exit:
                path = [x]
                cur = (n, state)
                while cur is not None:
                    path.append(cur[0])
                    cur = prev[cur]
                return list(reversed(path))
            dq.append(key)
    return None


def r3(ctx, model: Model):
    repo = ctx.repo
    ctx.rule("C16.R3", "reverse index freshness: caps / _caps_url_lookup are written only by their owners; every "
                       "mutation of caps reaches the index rebuild (_recalc_caps) before the function returns; it rebuilds the "
                       "index from scratch over all caps; no table is resized while iterated")
    muts = caps_mutations(model)
    rebuild = model.rebuild_method()
    lookup_owners = {repo.fn("ProxiedRegion.__init__").qual, rebuild.qual}
    ctx.floor("C16.R3", "mutations of ProxiedRegion.caps", len(muts), 3)
    from .c18 import inline_self_calls

    def freshness(fi, node, kind, method, q):
        label = f"{kind}{'.' + method if method else ''} `{norm(node)}`"
        cfg = cfgs.setdefault(fi.full, CFG(fi.node))
        starts = cfg.stmt_nodes_containing(node) if not isinstance(node, ast.stmt) else cfg.nodes_for(node)
        if not starts:
            raise AnalysisError(f"C16.R3: mutation `{norm(node)}` not found in the CFG of {q}")
        rn = _recalc_nodes(cfg, rebuild.name)
        stale = None
        for s_ in starts:
            if s_ in rn:
                continue
            path = _stale_witness(cfg, s_, rn, fi.node)
            if path is not None:
                stale = cfg.describe_path(path)
                break
        ctx.ob("C16.R3", f"{q}: {label} is followed by the index rebuild on every path", stale is None, ctx.w(fi, node),
               "the URL -> cap index is stale when the function returns: resolve_cap misses the new URL or still "
               "resolves a removed one", path=stale)
    cfgs: Dict[str, CFG] = {}
    roots_to_check = {}
    for fi, node, kind, method in muts:
        q = top_fn(fi).qual
        label = f"{kind}{'.' + method if method else ''} `{norm(node)}`"
        roots = model.owner_roots(fi)
        ctx.ob("C16.R3", f"caps written in {q}: {label}", roots is not None and bool(roots), ctx.w(fi, node),
               "region.caps is mutated outside ProxiedRegion's owner methods (the reverse index cannot follow)")
        if roots and top_fn(fi).name not in OWNER_NAMES:
            # a private helper of owners: its writes are checked where the owners run it
            for r in roots:
                roots_to_check[r] = True
            continue
        if roots:
            roots_to_check[top_fn(fi).name] = True
            continue
        freshness(fi, node, kind, method, q)
    for rname in sorted(roots_to_check):
        real = repo.fn(f"ProxiedRegion.{rname}")
        inl = inline_self_calls(repo, real, exclude=(rebuild.name,))
        for fi, node, kind, method in _mutations_in(model, inl):
            freshness(inl, node, kind, method, f"ProxiedRegion.{rname}")
    # lookup ownership
    n_l = 0
    for fi in repo.all_funcs:
        if fi.parent_fn is not None:
            continue
        for st in stores(fi.node):
            if st.path.replace("[]", "").endswith("._caps_url_lookup") and st.kind != "assign" or \
                    (st.kind == "assign" and st.path.endswith("._caps_url_lookup")):
                n_l += 1
                ctx.ob("C16.R3", f"_caps_url_lookup written in {fi.qual}: {st.kind}{'.' + st.method if st.method else ''}",
                       fi.qual in lookup_owners or model.owner_roots(fi) == {"__init__"}, ctx.w(fi, st.node), "the reverse index is written outside its rebuild method")
    ctx.floor("C16.R3", "writes of _caps_url_lookup", n_l, 2)
    # rebuild method shape
    rf = rebuild
    cfg = CFG(rf.node)
    fills = [s for s in stores(rf.node) if s.path == "self._caps_url_lookup" and s.kind == "setitem"]
    resets = [s for s in stores(rf.node) if s.path == "self._caps_url_lookup" and
              ((s.kind == "mutcall" and s.method == "clear") or s.kind == "assign")]
    ctx.ob("C16.R3", "index rebuild fills the index", len(fills) >= 1, rf.where)
    reset_nodes = {n for s in resets for n in cfg.stmt_nodes_containing(s.node)} | \
                  {n for s in resets for n in cfg.nodes_for(s.node)}
    for s in fills:
        sn = cfg.nodes_for(s.node) or cfg.stmt_nodes_containing(s.node)
        reach = cfg.reachable([cfg.entry], avoid=lambda n: n in reset_nodes)
        ctx.ob("C16.R3", "index rebuild empties the index before refilling it", bool(reset_nodes) and
               not any(n in reach for n in sn), ctx.w(rf, s.node),
               "URLs of caps that were removed (consumed temporary caps) keep resolving")
        loops = [a for a in ancestors(s.node) if isinstance(a, ast.For)]
        over_all = bool(loops) and isinstance(loops[-1].iter, ast.Call) and call_attr(loops[-1].iter) == "items" and \
            model.is_caps_attr(loops[-1].iter.func.value, rf)
        cond = [norm(e) for e, _ in facts(s.node, rf.node)]
        ctx.ob("C16.R3", "index rebuild indexes every (name, value) of caps.items()", over_all and not cond, ctx.w(rf, s.node),
               f"index entry written under conditions {cond}" if cond else "the fill is not a loop over self.caps.items()")
    for q in sorted(CAPS_OWNERS | {f"ProxiedRegion.{rebuild.name}", "CapsMultiDict.add", "ProxiedRegion.register_wrapper_cap",
                               "ProxiedRegion.register_proxy_cap", "Session.resolve_cap"}):
        iteration_mutations(ctx, "C16.R3", repo, repo.fn(q))


# --------------------------------------------------------------------------- R4

def r4(ctx, model: Model):
    repo = ctx.repo
    ctx.rule("C16.R4", "one-shot consumption: resolve_cap's TEMPORARY branch removes exactly the matched (type, url) "
                       "from caps (siblings under the same name are re-inserted) and nothing is removed for other types")
    from .c18 import inline_self_calls
    f = inline_self_calls(repo, repo.fn("ProxiedRegion.resolve_cap"), exclude=(model.rebuild_method().name,))
    fl = RoleFlow(model, f)

    def temp_fact(node) -> bool:
        for e, pol in facts(node, f.node):
            if isinstance(e, ast.Compare) and len(e.ops) == 1:
                a, b = e.left, e.comparators[0]
                for x, y in ((a, b), (b, a)):
                    if model.captype_member(y, f.module) == "TEMPORARY" and fl.role_of(x) == TYPE:
                        if (isinstance(e.ops[0], (ast.Eq, ast.Is)) and pol) or (isinstance(e.ops[0], (ast.NotEq, ast.IsNot)) and not pol):
                            return True
        return False
    muts = [(node, kind, method) for fi, node, kind, method in _mutations_in(model, f)]
    removers = [(n, k, m) for n, k, m in muts if (k == "mutcall" and m in TABLE_REMOVERS) or k == "delitem"]
    ctx.ob("C16.R4", "resolve_cap consumes a matched TEMPORARY cap", any(temp_fact(n) for n, _, _ in removers), f.where,
           "no removal from caps under `cap_type == CapType.TEMPORARY`: a one-shot cap keeps resolving")
    for n, k, m in muts:
        ctx.ob("C16.R4", f"resolve_cap: `{norm(n)}` only happens for TEMPORARY caps", temp_fact(n), ctx.w(f, n),
               "resolving a non-temporary cap changes the region's caps")
    # exactly the matched pair
    for n, k, m in removers:
        if not temp_fact(n):
            continue
        if k == "mutcall" and m == "popall":
            st = enclosing_stmt(n)
            ctx.require(isinstance(st, ast.Assign) and len(st.targets) == 1 and isinstance(st.targets[0], ast.Name),
                        f"resolve_cap: result of `{norm(n)}` is not bound to a local (unsupported consumption shape)")
            lst = st.targets[0].id
            key = n.args[0] if n.args else None
            ctx.ob("C16.R4", "resolve_cap: values are popped under the matched cap's name",
                   key is not None and fl.role_of(key) == NAME, ctx.w(f, n))
            rem = [c for c in find_calls(f.node, "remove") if ap(c.func.value) == lst and temp_fact(c)]
            ctx.ob("C16.R4", f"resolve_cap: exactly one entry is dropped from the popped list", len(rem) == 1, ctx.w(f, n),
                   f"found {len(rem)} `{lst}.remove(...)` calls: the matched cap is not used up (or siblings are lost)")
            for c in rem:
                a = c.args[0] if c.args else None
                good = isinstance(a, ast.Tuple) and len(a.elts) == 2 and fl.role_of(a.elts[0]) == TYPE and \
                    fl.role_of(a.elts[1]) == URL
                # the URL is the one that matched the request (the loop variable tested with startswith)
                matched = set()
                for e, pol in facts(c, f.node):
                    if pol and isinstance(e, ast.Call) and call_attr(e) == "startswith" and e.args:
                        matched.add(ap(e.args[0]))
                good = good and ap(a.elts[1]) in matched
                ctx.ob("C16.R4", "resolve_cap: the dropped entry is the matched (type, url)", bool(good), ctx.w(f, c),
                       f"`{norm(c)}` does not remove (type, url) of the URL that matched the request")
            def uses_list(c):
                if lst in {x.id for x in ast.walk(c) if isinstance(x, ast.Name)}:
                    return True
                return any(isinstance(a, ast.For) and lst in {x.id for x in ast.walk(a.iter) if isinstance(x, ast.Name)}
                           for a in ancestors(c))
            re_ins = [c for c in calls(f.node) if isinstance(c.func, ast.Attribute) and c.func.attr in ("extend", "add") and
                      model.is_caps_attr(c.func.value, f) and temp_fact(c) and uses_list(c)]
            ctx.ob("C16.R4", "resolve_cap: remaining values of that name are re-inserted", len(re_ins) >= 1, ctx.w(f, n),
                   "popall drops every cap registered under the name, not only the matched one")
            for c in re_ins:
                order_ok = c.func.attr == "extend" and c.args and isinstance(c.args[0], (ast.GeneratorExp, ast.ListComp)) and \
                    ap(c.args[0].generators[0].iter) == lst
                if c.func.attr == "extend":
                    # a CapsMultiDict that overrides extend() and routes it through the prepending add() reverses
                    ext = repo.lookup_method(repo.cls("CapsMultiDict", REG), "extend")
                    if ext is not None and order_ok:
                        adds = [x for x in calls(ext.node) if isinstance(x.func, ast.Attribute) and x.func.attr == "add" and
                                isinstance(x.func.value, ast.Name) and x.func.value.id == "self"]
                        if adds:
                            fwd = [x for x in adds if not any(isinstance(a, ast.For) and isinstance(a.iter, ast.Call) and
                                                              ap(a.iter.func) == "reversed" for a in ancestors(x))]
                            order_ok = not fwd
                        elif not any(ap(x.func) == "super().extend" for x in calls(ext.node)):
                            raise AnalysisError("CapsMultiDict.extend override has an unsupported shape")
                if c.func.attr == "add":
                    # add() prepends: the list must be walked newest-last
                    loops = [a for a in ancestors(c) if isinstance(a, ast.For)]
                    order_ok = bool(loops) and isinstance(loops[0].iter, ast.Call) and ap(loops[0].iter.func) == "reversed"
                ctx.ob("C16.R4", f"resolve_cap: `{norm(c)}` keeps the remaining values in order", bool(order_ok), ctx.w(f, c),
                       "CapsMultiDict.add prepends: re-adding the survivors oldest-last (directly or through an extend() "
                       "override that calls add) reverses them, so lookup by name no longer yields the most recent grant")
                # re-insert after the removal
                cfg = CFG(f.node)
                rn = {x for r in rem for x in cfg.stmt_nodes_containing(r)}
                cn = cfg.stmt_nodes_containing(c)
                reach = cfg.reachable([cfg.entry], avoid=lambda x: x in rn)
                ctx.ob("C16.R4", f"resolve_cap: the matched entry is dropped before `{norm(c)}`",
                       bool(rn) and not any(x in reach for x in cn), ctx.w(f, c), "the consumed cap is put back")
        elif k == "mutcall" and m in ("popone", "pop") or k == "delitem":
            ctx.ob("C16.R4", f"resolve_cap: `{norm(n)}` removes exactly the matched (type, url)", False, ctx.w(f, n),
                   "popone/pop/del remove the *first* value under the name, which need not be the matched URL")
        else:
            raise AnalysisError(f"C16.R4: unsupported consumption `{norm(n)}`")
    # the function reports the match it found
    rets = [(r, record_elts(repo, f.module, r.value)[0]) for r in returns_of(f.node)
            if r.value is not None and record_elts(repo, f.module, r.value)]
    url_p = [a.arg for a in f.node.args.args][1] if len(f.node.args.args) > 1 else None
    for r, elts in rets:
        ok = any(pol and isinstance(e, ast.Call) and call_attr(e) == "startswith" and isinstance(e.func, ast.Attribute) and
                 ap(e.func.value) == url_p and e.args and fl.role_of(e.args[0]) == URL and
                 ap(e.args[0]) in {ap(x) for x in elts}
                 for e, pol in facts(r, f.node))
        ctx.ob("C16.R4", "resolve_cap: a result is returned only for a cap URL that the request URL extends", ok, ctx.w(f, r),
               "the returned cap is not guarded by `<request url>.startswith(<that cap's url>)`")


# --------------------------------------------------------------------------- R5

def _expanded_facts(node, stop):
    """facts(), plus the element conditions of a dominating `any(<generator>)` (they hold for some entry)."""
    out = []
    for e, pol in facts(node, stop):
        out.append((e, pol))
        if pol and isinstance(e, ast.Call) and ap(e.func) == "any" and len(e.args) == 1 and \
                isinstance(e.args[0], (ast.GeneratorExp, ast.ListComp)):
            g = e.args[0]
            out.extend(atoms(g.elt, True))
            for gen in g.generators:
                for c in gen.ifs:
                    out.extend(atoms(c, True))
    return out


def _seed_branch(ctx, fi) -> ast.If:
    found = []
    for n in walk(fi.node):
        if isinstance(n, ast.If):
            for e, pol in atoms(n.test, True):
                if pol and isinstance(e, ast.Compare) and len(e.ops) == 1 and isinstance(e.ops[0], ast.Eq):
                    l, r = e.left, e.comparators[0]
                    if isinstance(l, ast.Constant):
                        l, r = r, l
                    if (ap(l) or "").endswith(".cap_name") and isinstance(r, ast.Constant) and r.value == "Seed":
                        found.append(n)
    ctx.require(len(found) == 1, f"{fi.qual}: expected one `cap_name == \"Seed\"` branch, found {len(found)}")
    return found[0]


def _parsed_var(ctx, branch: ast.If, fi, content_path: str) -> str:
    names = []
    for st in stores(ast.Module(body=branch.body, type_ignores=[])):
        if st.kind == "assign" and isinstance(st.target, ast.Name) and isinstance(st.value, ast.Call) and \
                (call_attr(st.value) or "").startswith("parse") and st.value.args and ap(st.value.args[0]) == content_path:
            names.append(st.path)
    ctx.require(len(set(names)) == 1, f"{fi.qual}: Seed branch no longer parses {content_path} into one local")
    return names[0]


def _branch_facts(node, branch: ast.If, fn_node) -> Set[Tuple[str, bool]]:
    """Conditions holding at node that were introduced inside the Seed branch."""
    inner = set()
    for e, pol in facts(node, fn_node):
        if any(a is branch for a in ancestors(e)) and not any(x is e for x in ast.walk(branch.test)):
            inner.add((norm(e), pol))
    return inner


def _meta_aliases(body) -> Dict[str, Any]:
    """local name -> constant key, for `name = flow.metadata[key]` (also chained `name = flow.metadata[key] = []`)."""
    out = {}
    for n in walk(body):
        if isinstance(n, ast.AnnAssign) and n.value is not None:
            n = ast.Assign(targets=[n.target], value=n.value)
        if isinstance(n, ast.Assign):
            names = [t.id for t in n.targets if isinstance(t, ast.Name)]
            subs = [t for t in n.targets if isinstance(t, ast.Subscript)] + ([n.value] if isinstance(n.value, ast.Subscript) else [])
            if isinstance(n.value, ast.Name):
                names.append(n.value.id)      # flow.metadata[k] = some_list
            for sb in subs:
                if ap(sb.value) == "flow.metadata" and isinstance(sb.slice, ast.Constant):
                    for nm in names:
                        out[nm] = sb.slice.value
    return out


def _is_record_list(e, aliases) -> bool:
    return ap(e) == "flow.metadata[]" or (isinstance(e, ast.Name) and e.id in aliases)


def _same_guard(a: Set[Tuple[str, bool]], b: Set[Tuple[str, bool]], lst: str) -> bool:
    """Equal guards, ignoring `<x> in <the request list>` (the loop that removes every occurrence adds it)."""
    def strip(s_):
        return {(t, p) for t, p in s_ if not (p and t.endswith(f" in {lst}"))}
    return strip(a) == strip(b)


def _metadata_keys(nodes, into) -> None:
    for n in nodes:
        if isinstance(n, ast.Subscript) and ap(n.value) == "flow.metadata" and isinstance(n.slice, ast.Constant):
            into.add(n.slice.value)


def _selects_proxy_only(model: Model, m) -> bool:
    """The region method returns a URL taken from an entry it found by `type == CapType.PROXY_ONLY` among ALL entries
    of the name (getall / items), not just the newest one."""
    fl = RoleFlow(model, m)
    for r in returns_of(m.node):
        if r.value is None or isinstance(r.value, ast.Constant):
            continue
        for e, pol in facts(r, m.node):
            if isinstance(e, ast.Compare) and len(e.ops) == 1 and isinstance(e.ops[0], (ast.Eq, ast.Is)) and pol:
                for x, y in ((e.left, e.comparators[0]), (e.comparators[0], e.left)):
                    if model.captype_member(y, m.module) == "PROXY_ONLY" and fl.role_of(x) == TYPE and \
                            "all" in fl.scope_for(x) and "first" not in fl.scope_for(x) and fl.role_of(r.value) == URL:
                        return True
    return False


def r5(ctx, model: Model):
    repo = ctx.repo
    ctx.rule("C16.R5", "seed rewrite preserves grants: the request branch strips exactly the names whose cap type is "
                       "PROXY_ONLY and records each; the response branch removes nothing from the simulator's map, "
                       "re-adds every recorded name with its registered URL, wraps only names present, and serialises "
                       "that same map")
    # ------------ request
    from .c18 import inline_self_calls
    rq = inline_self_calls(repo, repo.fn("MITMProxyEventManager._handle_request"))
    br = _seed_branch(ctx, rq)
    lst = _parsed_var(ctx, br, rq, "flow.request.content")
    fl = RoleFlow(model, rq)
    body = ast.Module(body=br.body, type_ignores=[])
    removes, records, other_mut = [], [], []
    req_alias = _meta_aliases(body)
    for n in walk(body):
        if isinstance(n, ast.Call) and isinstance(n.func, ast.Attribute):
            if ap(n.func.value) == lst and n.func.attr in SIZE_MUTATORS:
                (removes if n.func.attr == "remove" and len(n.args) == 1 else other_mut).append(n)
            elif _is_record_list(n.func.value, req_alias) and n.func.attr == "append" and len(n.args) == 1:
                records.append(n)
        elif isinstance(n, ast.Delete) and any(isinstance(t, ast.Subscript) and ap(t.value) == lst for t in n.targets):
            other_mut.append(n)
    for st in stores(body):
        if st.path == lst and st.kind in ("assign", "augassign") and not (isinstance(st.value, ast.Call) and
                                                                           (call_attr(st.value) or "").startswith("parse")):
            other_mut.append(st.node)
    ctx.ob("C16.R5", "seed request: proxy-only names are stripped from the requested list", len(removes) >= 1, ctx.w(rq, br),
           "nothing is removed from the parsed seed request")
    for n in other_mut:
        ctx.ob("C16.R5", f"seed request: `{norm(n)}` is a per-name removal", False, ctx.w(rq, n),
               "the requested cap list is changed by something other than removing one proxy-only name")

    def proxy_only_tests(node, name_expr):
        """Type expressions of the cap named `name_expr` that are known to equal PROXY_ONLY at node."""
        out = []
        if not isinstance(name_expr, ast.Name):
            return out
        for e, pol in _expanded_facts(node, rq.node):
            if isinstance(e, ast.Compare) and len(e.ops) == 1:
                for x, y in ((e.left, e.comparators[0]), (e.comparators[0], e.left)):
                    if model.captype_member(y, rq.module) == "PROXY_ONLY" and fl.role_of(x) == TYPE and \
                            name_expr.id in fl.keys_for(x):
                        if (isinstance(e.ops[0], (ast.Eq, ast.Is)) and pol) or \
                                (isinstance(e.ops[0], (ast.NotEq, ast.IsNot)) and not pol):
                            out.append(x)
        return out

    def proxy_only_for(node, name_expr) -> bool:
        return bool(proxy_only_tests(node, name_expr))
    for n in removes:
        ctx.ob("C16.R5", f"seed request: `{norm(n)}` only for a name whose own cap type is PROXY_ONLY",
               proxy_only_for(n, n.args[0]), ctx.w(rq, n),
               "a capability the simulator must grant is stripped from the upstream request (or the type tested "
               "belongs to another cap)")
        tests = proxy_only_tests(n, n.args[0])
        if tests:
            newest_only = [norm(x) for x in tests if "first" in fl.scope_for(x) or not fl.scope_for(x)]
            ctx.ob("C16.R5", f"seed request: the strip decision for `{norm(n.args[0])}` considers every entry of that name",
                   not newest_only, ctx.w(rq, n),
                   f"{newest_only} come(s) from a by-name lookup, which only yields the newest entry: a PROXY_ONLY entry "
                   f"shadowed by a later grant under the same name is sent upstream")
        # list.remove() drops the first occurrence only: the name may be listed more than once
        repeated = any(isinstance(a, ast.While) and any(
            isinstance(e, ast.Compare) and len(e.ops) == 1 and isinstance(e.ops[0], ast.In) and
            norm(e.left) == norm(n.args[0]) and ap(e.comparators[0]) == lst for e, p_ in atoms(a.test, True) if p_)
            for a in ancestors(n))
        ctx.ob("C16.R5", "seed request: every occurrence of a stripped name is removed", repeated, ctx.w(rq, n),
               f"`{norm(n)}` removes the first occurrence only (not inside `while {norm(n.args[0])} in {lst}`): a name listed "
               f"twice in the request is still sent upstream")
        twin = [r for r in records if norm(r.args[0]) == norm(n.args[0]) and
                _same_guard(_branch_facts(r, br, rq.node), _branch_facts(n, br, rq.node), lst)]
        ctx.ob("C16.R5", f"seed request: `{norm(n)}` is recorded for the response", len(twin) >= 1, ctx.w(rq, n),
               "a stripped name is not remembered: the viewer never receives its proxy URL")
    for r in records:
        twin = [n for n in removes if norm(r.args[0]) == norm(n.args[0]) and
                _same_guard(_branch_facts(r, br, rq.node), _branch_facts(n, br, rq.node), lst)]
        ctx.ob("C16.R5", f"seed request: recorded name `{norm(r.args[0])}` is also stripped", len(twin) >= 1, ctx.w(rq, r),
               "a recorded proxy-only name is still sent upstream")
    # request body rewritten from the stripped list
    wr = [st for st in stores(body) if st.path == "flow.request.content" and st.kind == "assign"]
    ok = any(isinstance(st.value, ast.Call) and (call_attr(st.value) or "").startswith("format") and st.value.args and
             ap(st.value.args[0]) == lst for st in wr)
    ctx.ob("C16.R5", "seed request: the upstream body is re-serialised from the stripped list", ok, ctx.w(rq, br))
    for st in wr:
        extra = {(t, p) for t, p in _branch_facts(st.node, br, rq.node)}
        benign = all(p and (t.startswith("flow.metadata[") or t in req_alias) for t, p in extra)
        ctx.ob("C16.R5", "seed request: the rewrite happens whenever something was stripped", benign, ctx.w(rq, st.node),
               f"rewrite is conditional on {sorted(extra)}")
    req_keys: Set[str] = set()
    _metadata_keys(walk(body), req_keys)
    init = [st for st in stores(body) if st.path == "flow.metadata" and st.kind == "setitem" and
            not any(isinstance(a, (ast.For, ast.While)) for a in ancestors(st.node) if any(x is br for x in ancestors(a)))]
    def fresh_list(v) -> bool:
        if isinstance(v, ast.List) and not v.elts:
            return True
        if isinstance(v, ast.Name):
            vals = [x.value for x in stores(body) if x.path == v.id and x.kind == "assign" and x.value is not None]
            return len(vals) == 1 and isinstance(vals[0], ast.List) and not vals[0].elts
        return False
    ctx.ob("C16.R5", "seed request: the record list is (re)initialised for every Seed request", len(init) >= 1 and
           all(fresh_list(s.value) for s in init) and
           all(not _branch_facts(s.node, br, rq.node) for s in init), ctx.w(rq, br),
           "the response branch reads the record unconditionally")
    n_loops = iteration_mutations(ctx, "C16.R5", repo, rq)
    # ------------ response
    rs = inline_self_calls(repo, repo.fn("MITMProxyEventManager._handle_response"))
    rb = _seed_branch(ctx, rs)
    mp = _parsed_var(ctx, rb, rs, "flow.response.content")
    rbody = ast.Module(body=rb.body, type_ignores=[])
    resp_alias = _meta_aliases(rbody)
    cfg = CFG(rs.node)
    bad = []
    sets = []
    for n in walk(rbody):
        if isinstance(n, ast.Call) and isinstance(n.func, ast.Attribute) and ap(n.func.value) == mp and \
                n.func.attr in ("pop", "popitem", "clear", "remove", "discard", "popall", "popone"):
            bad.append(n)
        elif isinstance(n, ast.Delete) and any(isinstance(t, ast.Subscript) and ap(t.value) == mp for t in n.targets):
            bad.append(n)
    for st in stores(rbody):
        if st.path == mp and st.kind in ("assign", "augassign") and not (isinstance(st.value, ast.Call) and
                                                                          (call_attr(st.value) or "").startswith("parse")):
            bad.append(st.node)
        if st.path == mp and st.kind == "setitem":
            sets.append(st)
    ctx.ob("C16.R5", "seed response: nothing is removed from the simulator's capability map", not bad, ctx.w(rs, rb),
           "; ".join(f"`{norm(b)}`" for b in bad) + ": a capability the simulator granted is withheld from the viewer")
    out = [st for st in stores(rbody) if st.path == "flow.response.content" and st.kind == "assign"]
    ok = len(out) >= 1 and all(isinstance(st.value, ast.Call) and (call_attr(st.value) or "").startswith("format") and
                               st.value.args and ap(st.value.args[0]) == mp and not _branch_facts(st.node, rb, rs.node)
                               for st in out)
    ctx.ob("C16.R5", "seed response: the viewer receives the rewritten map itself", ok, ctx.w(rs, rb),
           "the response body is not (unconditionally) the serialised, rewritten map")
    # update_caps(parsed) first
    upd = [c for c in find_calls(rbody, "update_caps") if c.args and ap(c.args[0]) == mp]
    ctx.ob("C16.R5", "seed response: the region learns the simulator's grants (update_caps(map))", len(upd) == 1, ctx.w(rs, rb))
    un = {x for c in upd for x in cfg.stmt_nodes_containing(c)}
    # nothing that can fail on request-side state runs before the region has learnt the grants
    for n in walk(rbody):
        if isinstance(n, ast.Subscript) and isinstance(n.ctx, ast.Load) and ap(n.value) == "flow.metadata" and \
                isinstance(n.slice, ast.Constant):
            mn = cfg.stmt_nodes_containing(n)
            before = bool(un) and any(u in cfg.reachable(mn, exc=False) for u in un)
            ctx.ob("C16.R5", f"seed response: `{norm(n)}` is read only after update_caps(map)", not before, ctx.w(rs, n),
                   "the key is absent when the request handler failed part-way; the KeyError is swallowed by the enclosing "
                   "handler and the simulator's grants are then never recorded for the region")
    resp_keys: Set[str] = set()
    _metadata_keys(walk(rbody), resp_keys)
    ctx.ob("C16.R5", "seed rewrite: request and response use the same metadata key for recorded names",
           bool(req_keys) and req_keys == resp_keys, ctx.w(rs, rb), f"request {sorted(req_keys)} response {sorted(resp_keys)}")
    readded = False
    for st in sets:
        key = st.target.slice
        v = st.value
        where = ctx.w(rs, st.node)
        sn = cfg.nodes_for(st.node) or cfg.stmt_nodes_containing(st.node)
        reach = cfg.reachable([cfg.entry], avoid=lambda x: x in un)
        ctx.ob("C16.R5", f"seed response: `{norm(st.node)}` happens after update_caps(map)",
               bool(un) and not any(x in reach for x in sn), where,
               "proxy URLs written into the map before update_caps are registered as the simulator's own grants")
        loops = [a for a in ancestors(st.node) if isinstance(a, ast.For) and any(x is rb for x in ancestors(a))]
        lv = loops[0].target.id if loops and isinstance(loops[0].target, ast.Name) else None
        if isinstance(v, ast.Call) and call_attr(v) == "register_wrapper_cap":
            same = isinstance(key, ast.Name) and v.args and ap(v.args[0]) == key.id
            present = any(isinstance(e, ast.Compare) and len(e.ops) == 1 and
                          ((isinstance(e.ops[0], ast.In) and pol) or (isinstance(e.ops[0], ast.NotIn) and not pol)) and
                          ap(e.left) == ap(key) and ap(e.comparators[0]) == mp for e, pol in facts(st.node, rs.node))
            ctx.ob("C16.R5", f"seed response: `{norm(st.node)}` wraps the same name it replaces", bool(same), where)
            ctx.ob("C16.R5", f"seed response: `{norm(st.node)}` only wraps a name the simulator granted", present, where,
                   f"not guarded by `{ap(key)} in {mp}`: a cap the simulator did not grant is invented (or KeyError)")
        elif loops and _is_record_list(loops[0].iter, resp_alias) and lv and isinstance(key, ast.Name) and key.id == lv:
            readded = True
            cond = _branch_facts(st.node, rb, rs.node)
            ctx.ob("C16.R5", "seed response: every recorded proxy-only name is re-added", not cond, where,
                   f"conditional on {sorted(cond)}")
            by_name = False
            proxy_entry = False
            for x in ast.walk(v):
                if isinstance(x, ast.Call) and isinstance(x.func, ast.Attribute) and x.args and ap(x.args[0]) == lv:
                    m_ = repo.lookup_method(model.region, x.func.attr)
                    if m_ is not None and model.in_region_class(m_) and _selects_proxy_only(model, m_):
                        by_name = proxy_entry = True
                    if call_attr(x) == "register_proxy_cap":
                        proxy_entry = True
            for x in ast.walk(v):
                if isinstance(x, ast.Subscript) and isinstance(x.value, ast.Attribute) and x.value.attr == "cap_urls" and \
                        ap(x.slice) == lv:
                    by_name = True
                if isinstance(x, ast.Call) and isinstance(x.func, ast.Attribute) and x.func.attr in ("get", "getone") and \
                        isinstance(x.func.value, ast.Attribute) and x.func.value.attr == "cap_urls" and x.args and ap(x.args[0]) == lv:
                    by_name = True
                if isinstance(x, ast.Call) and call_attr(x) == "register_proxy_cap" and x.args and ap(x.args[0]) == lv:
                    by_name = True
                if isinstance(x, ast.Subscript) and isinstance(x.slice, ast.Constant) and x.slice.value == 1 and \
                        isinstance(x.value, ast.Subscript) and model.is_caps_attr(x.value.value, rs) and ap(x.value.slice) == lv:
                    by_name = True
            ctx.ob("C16.R5", "seed response: a re-added name gets the URL registered under that name", by_name, where,
                   f"`{norm(v)}` is not the region's URL for `{lv}`")
            ctx.ob("C16.R5", "seed response: a re-added name gets the URL of its PROXY_ONLY entry", proxy_entry, where,
                   f"`{norm(v)}` is the newest URL granted under `{lv}`: if the simulator granted a cap of that name too "
                   f"(update_caps has just prepended it) the viewer is handed the simulator's URL, not the proxy's")
        else:
            ctx.ob("C16.R5", f"seed response: `{norm(st.node)}` is a wrapper or a recorded proxy-only cap", False, where,
                   "the simulator's capability map is overwritten by something else")
    ctx.ob("C16.R5", "seed response: recorded proxy-only names are presented to the viewer", readded, ctx.w(rs, rb),
           "no loop over the recorded names writes their URLs into the response")
    n_loops += iteration_mutations(ctx, "C16.R5", repo, rs)
    ctx.floor("C16.R5", "loops over plain containers in the HTTP handlers", n_loops, 3)


# --------------------------------------------------------------------------- R6

# attributes of a region object that every session connected to the same simulator shares
SHARED_REGION_ATTRS = {"circuit_addr", "handle", "name", "cache_id"}
SESSION_ATTRS = {"session", "_session"}
FRESH_CALLS = {"uuid.uuid4", "uuid4", "uuid.uuid1", "secrets.token_hex", "secrets.token_urlsafe", "secrets.token_bytes",
               "os.urandom"}


_SPLITTERS = ("split", "rsplit", "partition", "rpartition", "splitlines")


def _provenance(fl: RoleFlow, e, seen=None, partial=False) -> Set[Tuple[str, str]]:
    """Leaves an expression's value is computed from: ('shared'|'session'|'session-part'|'unknown', description).
    'session-part': only a fragment (one element of a split, a slice) of a per-session value is used."""
    seen = set() if seen is None else seen
    fn = fl.fn
    out: Set[Tuple[str, str]] = set()

    def rec(x, part=None):
        out.update(_provenance(fl, x, seen, partial if part is None else part))
    if e is None or isinstance(e, ast.Constant):
        return out
    if isinstance(e, ast.Name):
        if e.id in seen:
            return out
        seen.add(e.id)
        if e.id in fl.params:
            out.add(("shared", f"parameter {e.id}"))
            return out
        vals = []
        for st in stores(fn):
            if st.path == e.id and st.value is not None:
                tgt0 = getattr(st.node, "targets", [None])[0]
                frag = isinstance(tgt0, (ast.Tuple, ast.List)) and isinstance(st.value, ast.Call) and \
                    call_attr(st.value) in _SPLITTERS
                if frag:
                    rec(st.value, True)       # one element of an unpacked split
                else:
                    vals.append(st.value)
        loops = [n for n in walk(fn, into_defs=True) if isinstance(n, (ast.For, ast.comprehension)) and
                 e.id in {t.id for t in ast.walk(n.target) if isinstance(t, ast.Name)}]
        if not vals and not loops and out:
            return out
        if not vals and not loops:
            if e.id in fl.mod.imports or e.id in ("str", "bytes", "int", "list", "tuple", "repr", "hex", "len"):
                return out
            out.add(("unknown", e.id))
            return out
        for v in vals:
            rec(v)
        for l in loops:
            rec(l.iter)
        return out
    if isinstance(e, ast.Attribute):
        p = ap(e) or ""
        if fl.table_of(e) == "caps":
            out.add(("shared", "the caps table"))
            return out
        if p.startswith("self."):
            attr = p.split(".")[1].replace("()", "").replace("[]", "")
            if attr in SESSION_ATTRS:
                out.add(("session", f"self.{attr}"))
            elif attr in SHARED_REGION_ATTRS:
                out.add(("shared", f"self.{attr}"))
            else:
                out.add(("unknown", f"self.{attr}"))
            return out
        if isinstance(e.value, ast.Name) and e.value.id in fl.mod.imports:
            return out  # module constant / function
        rec(e.value)
        return out
    if isinstance(e, ast.Subscript):
        if fl.table_of(e.value) == "caps":
            k = e.slice
            if isinstance(k, ast.Constant) and k.value == "Seed":
                out.add(("session-part" if partial else "session", "the region's Seed capability URL"))
            else:
                out.add(("shared", f"the URL of cap {norm(k)} (asset caps are global)"))
                rec(k)
            return out
        frag = isinstance(e.slice, ast.Slice) or (isinstance(e.value, ast.Call) and call_attr(e.value) in _SPLITTERS)
        rec(e.value, True if frag else None)
        rec(e.slice)
        return out
    if isinstance(e, ast.Call):
        name = ap(e.func) or ""
        if name.startswith("hashlib.") or call_attr(e) in ("hexdigest", "digest", "sha256", "sha1", "md5", "blake2b"):
            partial = False      # a digest mixes all of its input: a slice of it is no fragment of the input
        if name in FRESH_CALLS:
            out.add(("session", f"{name}()"))
            return out
        if isinstance(e.func, ast.Attribute) and isinstance(e.func.value, ast.Name) and e.func.value.id in ("self", "cls") \
                and fl.f.cls is not None and len(seen) < 40:
            m = fl.m.repo.lookup_method(fl.f.cls, e.func.attr)
            if m is not None and m.node is not fn and fl.m.in_region_class(m):
                sub = RoleFlow(fl.m, m)
                rets = [r.value for r in returns_of(m.node) if r.value is not None]
                if rets:
                    for rv in rets:
                        for kind_, d_ in _provenance(sub, rv, set(), partial):
                            if not (kind_ == "shared" and d_.startswith("parameter ")):
                                out.add((kind_, d_))
                    for a in e.args:
                        rec(a)
                    for k in e.keywords:
                        rec(k.value)
                    return out
        if isinstance(e.func, ast.Attribute):
            base = e.func.value
            if not (isinstance(base, ast.Name) and base.id in fl.mod.imports) and \
                    not (isinstance(base, ast.Attribute) and isinstance(base.value, ast.Name) and base.value.id in fl.mod.imports):
                if isinstance(base, ast.Attribute) and (ap(base) or "").startswith("self.") and \
                        (ap(base) or "").split(".")[1] in SESSION_ATTRS:
                    out.add(("session", ap(base)))
                    return out
                rec(base)
        elif not isinstance(e.func, ast.Name):
            rec(e.func)
        if not e.args and not e.keywords and not isinstance(e.func, ast.Attribute):
            out.add(("unknown", f"{name}()"))
        if not e.args and not e.keywords and isinstance(e.func, ast.Attribute) and isinstance(e.func.value, ast.Name) and \
                e.func.value.id in fl.mod.imports:
            out.add(("unknown", f"{name}()"))
        for a in e.args:
            rec(a)
        for k in e.keywords:
            rec(k.value)
        return out
    if isinstance(e, (ast.JoinedStr, ast.BinOp, ast.BoolOp, ast.IfExp, ast.Tuple, ast.List, ast.Set, ast.Starred,
                      ast.FormattedValue, ast.Slice, ast.UnaryOp, ast.Compare, ast.Dict, ast.GeneratorExp, ast.ListComp)):
        for ch in ast.iter_child_nodes(e):
            if isinstance(ch, (ast.expr, ast.comprehension)):
                if isinstance(ch, ast.comprehension):
                    rec(ch.iter)
                else:
                    rec(ch)
        return out
    out.add(("unknown", norm(e)))
    return out


def r6(ctx, model: Model):
    repo = ctx.repo
    ctx.rule("C16.R6", "URLs the proxy mints for WRAPPER / PROXY_ONLY caps are not computed solely from inputs that "
                       "every session on the same simulator shares (cap name, circuit address, handle, the wrapped "
                       "global URL): they must depend on the Seed URL, the session or a fresh random value")
    n = 0
    if model.api_param_roles.get("register_cap", [])[:3] != [NAME, URL, TYPE]:
        ctx.note("C16.R6: register_cap's parameter roles are inconsistent (reported by C16.R1); minted URLs not analysed")
        return
    for m in sorted(model.family_methods(), key=lambda m: m.qual):
        regs = [c for c in find_calls(m.node, "register_cap") if isinstance(c.func, ast.Attribute)]
        if not regs:
            continue
        fl = RoleFlow(model, m)
        pn = model.api_param_names.get("register_cap", [])
        for c in regs:
            def arg(nm):
                if nm in pn and pn.index(nm) < len(c.args):
                    return c.args[pn.index(nm)]
                return next((k.value for k in c.keywords if k.arg == nm), None)
            roles = model.api_param_roles.get("register_cap", [])
            url_e = type_e = None
            for nm, r in zip(pn, roles):
                if r == URL:
                    url_e = arg(nm)
                elif r == TYPE:
                    type_e = arg(nm)
            kind = model.captype_member(type_e, m.module) if type_e is not None else None
            if kind not in ("WRAPPER", "PROXY_ONLY") or url_e is None:
                continue
            n += 1
            prov = _provenance(fl, url_e)
            whole = sorted(d for k, d in prov if k == "session")
            parts = sorted(d for k, d in prov if k == "session-part")
            sess = sorted(set(whole) | set(parts))
            unk = sorted(d for k, d in prov if k == "unknown")
            shared = sorted(d for k, d in prov if k == "shared")
            if not sess and unk:
                ctx.note(f"C16.R6: {m.qual}: {kind} URL depends on {unk} which the checker cannot classify")
            mq = f"ProxiedRegion.{m.name}"     # stable across pull-ups into a mixin / base class
            ctx.ob("C16.R6", f"{mq}: the {kind} URL is tied to the session (Seed URL / session / fresh random value)",
                   bool(sess) or bool(unk), ctx.w(m, c),
                   f"`{norm(url_e)}` is computed only from {shared}: two sessions on the same simulator get the same URL "
                   f"and requests are attributed to whichever session resolves first")
            ctx.ob("C16.R6", f"{mq}: the {kind} URL depends on a whole per-session value, not on a fragment of one",
                   bool(whole) or bool(unk) or not parts, ctx.w(m, c),
                   f"only a fragment (one element of a split / a slice) of {parts} is used: the fragment can be empty or shared "
                   f"(a Seed URL ending in '/' has an empty last segment), so every region of every session gets the same URL")
    ctx.floor("C16.R6", "proxy-minted cap URLs", n, 2)


# --------------------------------------------------------------------------- R7 / R8

class _Repl(ast.NodeTransformer):
    def __init__(self, pred):
        self.pred = pred

    def generic_visit(self, node):
        if self.pred(node):
            return ast.Name(id="OBJ", ctx=ast.Load())
        return super().generic_visit(node)

    def visit(self, node):
        if self.pred(node):
            return ast.Name(id="OBJ", ctx=ast.Load())
        return super().visit(node)


def _clone_ast(n):
    if isinstance(n, ast.AST):
        new = n.__class__()
        for f_, v in ast.iter_fields(n):
            setattr(new, f_, _clone_ast(v))
        return new
    if isinstance(n, list):
        return [_clone_ast(x) for x in n]
    return n


class _FoldGetattr(ast.NodeTransformer):
    def visit_Call(self, node):
        self.generic_visit(node)
        if isinstance(node.func, ast.Name) and node.func.id == "getattr" and len(node.args) == 2 and \
                isinstance(node.args[1], ast.Constant) and isinstance(node.args[1].value, str):
            return ast.Attribute(value=node.args[0], attr=node.args[1].value, ctx=ast.Load())
        return node


class _SubstNames(ast.NodeTransformer):
    def __init__(self, mapping):
        self.mapping = mapping

    def visit_Name(self, node):
        if node.id in self.mapping:
            return _clone_ast(self.mapping[node.id])
        return node


def _helper_of(repo, fi, call):
    """(helper FuncInfo, {param: argument expr}) for a call of a same-module top-level function or of a
    self./cls. method of the same class."""
    if not isinstance(call, ast.Call):
        return None
    if isinstance(call.func, ast.Attribute) and isinstance(call.func.value, ast.Name) and call.func.value.id in ("self", "cls") \
            and fi.cls is not None:
        h = repo.lookup_method(fi.cls, call.func.attr)
        if h is None or h.node is fi.node:
            return None
        static = any((ap(d) or "").split(".")[-1] == "staticmethod" for d in h.node.decorator_list)
        params = [a.arg for a in h.node.args.args]
        if not static:
            params = params[1:]
        if len(call.args) > len(params) or h.node.args.vararg or h.node.args.kwarg:
            return None
        mapping = dict(zip(params, call.args))
        for k in call.keywords:
            if k.arg in params:
                mapping[k.arg] = k.value
        return h, mapping
    if not isinstance(call.func, ast.Name):
        return None
    cands = [g for g in repo.funcs.get(call.func.id, []) if g.module is fi.module and g.cls is None and g.parent_fn is None]
    if len(cands) != 1:
        return None
    h = cands[0]
    params = [a.arg for a in h.node.args.args]
    if len(call.args) > len(params) or h.node.args.vararg or h.node.args.kwarg:
        return None
    mapping = dict(zip(params, call.args))
    for k in call.keywords:
        if k.arg in params:
            mapping[k.arg] = k.value
    return h, mapping


class _Beta(ast.NodeTransformer):
    """(lambda p: body)(arg) -> body[p := arg]"""

    def visit_Call(self, node):
        self.generic_visit(node)
        if isinstance(node.func, ast.Lambda) and not node.keywords and \
                len(node.args) == len(node.func.args.args) and not node.func.args.vararg:
            mp = {p.arg: a for p, a in zip(node.func.args.args, node.args)}
            return _SubstNames(mp).visit(_clone_ast(node.func.body))
        return node


def _through(mapping, e):
    return _FoldGetattr().visit(_Beta().visit(_SubstNames(mapping).visit(_clone_ast(e))))


def _selections(fn_node):
    """`X = v` inside `for v in ...` / `X = next((v for v in ... if ...), d)`: (assign, candidate var, conditions)."""
    out = []
    for n in walk(fn_node):
        if isinstance(n, ast.Assign) and len(n.targets) == 1 and isinstance(n.targets[0], ast.Name):
            if isinstance(n.value, ast.Name):
                loops = [a for a in ancestors(n) if isinstance(a, ast.For) and isinstance(a.target, ast.Name) and
                         a.target.id == n.value.id]
                if loops:
                    conds = [(e, pol) for e, pol in facts(n, fn_node) if any(x is loops[0] for x in ancestors(e))]
                    out.append((n, n.value.id, conds))
            elif isinstance(n.value, ast.Call) and ap(n.value.func) == "next" and n.value.args and \
                    isinstance(n.value.args[0], ast.GeneratorExp) and isinstance(n.value.args[0].elt, ast.Name):
                g = n.value.args[0]
                conds = [a for gen in g.generators for c in gen.ifs for a in atoms(c, True)]
                out.append((n, g.elt.id, conds))
    return out


def r7(ctx, model: Optional[Model] = None):   # usable as a dependency clause (one required parameter)
    repo = ctx.repo
    ctx.rule("C16.R7", "CapData crosses the process boundary as (session id, region address): deserialize re-attaches the "
                       "session / region selected by exactly the key serialize wrote and by nothing else")
    sf = repo.fn("CapData.serialize")
    df = repo.fn("CapData.deserialize")
    rets = [r for r in returns_of(sf.node) if isinstance(r.value, ast.Call)]
    ctx.require(len(rets) == 1, "CapData.serialize is no longer one constructor call")
    written: Dict[str, str] = {}
    for k in rets[0].value.keywords:
        v = k.value
        hp = _helper_of(repo, sf, v)
        if hp is not None:
            h, mapping = hp
            vals = [r.value for r in returns_of(h.node) if r.value is not None and
                    not (isinstance(r.value, ast.Constant) and r.value.value is None)]
            if len(vals) != 1:
                continue
            v = _through(mapping, vals[0])
        v = v.body if isinstance(v, ast.IfExp) else v
        objs = [c for c in ast.walk(v) if isinstance(c, ast.Call) and isinstance(c.func, ast.Attribute) and
                isinstance(c.func.value, ast.Name) and c.func.value.id == "self" and not c.args]
        if len({norm(o) for o in objs}) != 1:
            continue
        text = norm(objs[0])
        written[k.arg] = norm(_Repl(lambda n, t=text: isinstance(n, ast.Call) and norm(n) == t).visit(_clone_ast(v)))
    ctx.floor("C16.R7", "object-derived keys written by CapData.serialize", len(written), 2)
    dparams = [a.arg for a in df.node.args.args]
    ctx.require(len(dparams) >= 2, "CapData.deserialize signature changed")
    ser_p = dparams[1]
    # locals that merely name a field of the serialized tuple
    field_alias: Dict[str, str] = {}
    for st in stores(df.node):
        if st.kind == "assign" and isinstance(st.target, ast.Name) and st.value is not None and \
                (ap(st.value) or "").startswith(ser_p + "."):
            field_alias[st.path] = ap(st.value)
    selections = []   # (where node, target label, candidate var, [(cond expr, pol)])
    for n, v, conds in _selections(df.node):
        selections.append((n, n.targets[0].id, v, conds))
    for c in calls(df.node):
        hp = _helper_of(repo, df, c)
        if hp is None:
            continue
        h, mapping = hp
        st = enclosing_stmt(c)
        label = st.targets[0].id if isinstance(st, ast.Assign) and len(st.targets) == 1 and isinstance(st.targets[0], ast.Name) \
            else h.name
        for n, v, conds in _selections(h.node):
            mp = {k_: x for k_, x in mapping.items() if k_ != v}
            selections.append((c, label, v, [(_through(mp, e), pol) for e, pol in conds]))
    ctx.floor("C16.R7", "object selections in CapData.deserialize", len(selections), 2)
    for where, tgt, v, conds in selections:
        about = [(e, pol) for e, pol in conds if any(isinstance(x, ast.Name) and x.id == v for x in ast.walk(e))]
        key_ok, extra = False, []
        for e, pol in about:
            good = False
            if pol and isinstance(e, ast.Compare) and len(e.ops) == 1 and isinstance(e.ops[0], ast.Eq):
                for a, b in ((e.left, e.comparators[0]), (e.comparators[0], e.left)):
                    fld = ap(a) or ""
                    fld = field_alias.get(fld, fld)
                    if fld.startswith(ser_p + ".") and fld.split(".", 1)[1] in written:
                        mine = norm(_Repl(lambda x, vv=v: isinstance(x, ast.Name) and x.id == vv).visit(_clone_ast(b)))
                        if mine == written[fld.split(".", 1)[1]]:
                            good = True
            if good:
                key_ok = True
            else:
                extra.append(f"{'' if pol else 'not '}{norm(e)}")
        ctx.ob("C16.R7", f"CapData.deserialize: `{tgt}` is selected by the key serialize wrote", key_ok, ctx.w(df, where),
               "the object is not matched against the serialized session id / region address the way serialize computed it")
        ctx.ob("C16.R7", f"CapData.deserialize: `{tgt}` is selected by that key only", not extra, ctx.w(df, where),
               f"additional conditions {extra} on the candidate: a flow whose region/session fails them comes back "
               f"without its region/session although serialize recorded it (seed responses are then not rewritten)")


def _known_nonempty(fi, node, v) -> bool:
    """v is a non-empty literal / built from one, or a dominating condition says it is truthy."""
    if isinstance(v, ast.Constant):
        return isinstance(v.value, str) and bool(v.value)
    if isinstance(v, ast.JoinedStr):
        return any(isinstance(x, ast.Constant) and x.value for x in v.values)
    if isinstance(v, ast.BinOp) and isinstance(v.op, ast.Add):
        return _known_nonempty(fi, node, v.left) or _known_nonempty(fi, node, v.right)
    if isinstance(v, ast.Call) and call_attr(v) in ("urlunsplit", "urlunparse", "register_wrapper_cap", "register_proxy_cap"):
        return True
    text = norm(v)
    for e, pol in facts(node, fi.node):
        if pol and norm(e) == text:
            return True
        # `d.get(k)` truthy  =>  `d[k]` truthy
        if pol and isinstance(v, ast.Subscript) and isinstance(e, ast.Call) and isinstance(e.func, ast.Attribute) and \
                e.func.attr == "get" and e.args and norm(e.func.value) == norm(v.value) and norm(e.args[0]) == norm(v.slice) and \
                (len(e.args) == 1 or (isinstance(e.args[1], ast.Constant) and not e.args[1].value)):
            return True
        if pol and isinstance(e, ast.Call) and isinstance(e.func, ast.Attribute) and e.func.attr == "startswith" and \
                norm(e.func.value) == text and e.args and isinstance(e.args[0], ast.Constant) and e.args[0].value:
            return True
        if isinstance(e, ast.Compare) and len(e.ops) == 1 and norm(e.left) == text and \
                isinstance(e.comparators[0], ast.Constant) and e.comparators[0].value == "" and \
                ((isinstance(e.ops[0], ast.NotEq) and pol) or (isinstance(e.ops[0], ast.Eq) and not pol)):
            return True
    if isinstance(v, ast.Name):
        vals = [st.value for st in stores(fi.node) if st.path == v.id and st.kind == "assign" and st.value is not None]
        if vals and all(_known_nonempty(fi, st_node, x) for x, st_node in zip(vals, [node] * len(vals))
                        if not isinstance(x, ast.Name)) and not any(isinstance(x, ast.Name) for x in vals):
            return True
    return False


def r8(ctx, model: Model):
    repo = ctx.repo
    ctx.rule("C16.R8", "resolution is by url.startswith(cap_url): a URL is stored in a cap table (session.global_caps, "
                       "region.caps) only when it is known to be non-empty, else every request URL resolves to that cap")
    # the two tables are resolved by prefix
    sr = repo.fn("Session.resolve_cap")
    by_prefix = any(call_attr(c) == "startswith" for c in calls(sr.node)) and \
        any((ap(l.iter) or "").replace(".items()", "").endswith(".global_caps") for l in walk(sr.node) if isinstance(l, ast.For))
    n = 0
    if by_prefix:
        for fi in repo.all_funcs:
            if fi.parent_fn is not None:
                continue
            for st in stores(fi.node):
                if not st.path.endswith(".global_caps"):
                    continue
                if st.kind == "setitem" and st.value is not None:
                    n += 1
                    ctx.ob("C16.R8", f"{fi.qual}: `{norm(st.target)}` is only set to a non-empty URL",
                           _known_nonempty(fi, st.node, st.value), ctx.w(fi, st.node),
                           f"`{norm(st.value)}` may be an empty string: every URL of this and later sessions then "
                           f"resolves to this global cap")
                elif st.kind == "mutcall" and st.method in ("update", "setdefault"):
                    n += 1
                    ctx.ob("C16.R8", f"{fi.qual}: `{norm(st.node)}` only stores non-empty URLs", False, ctx.w(fi, st.node),
                           "bulk update of global caps without a per-URL emptiness check")
        ctx.floor("C16.R8", "stores into session.global_caps", n, 1)
    else:
        ctx.note("C16.R8: Session.resolve_cap no longer resolves global_caps by prefix; emptiness of global cap URLs not required")
    # region.caps: direct stores in the region class, and register_cap call sites
    rc = repo.fn("ProxiedRegion.register_cap")
    fl = RoleFlow(model, rc)
    pn = model.api_param_names.get("register_cap", [])
    proles = model.api_param_roles.get("register_cap", [])
    url_param = next((p_ for p_, r in zip(pn, proles) if r == URL), None)
    callee_guard = False
    for fi, node, kind, method in caps_mutations(model):
        q = top_fn(fi).qual
        v = None
        if kind == "mutcall" and method == "add" and len(node.args) == 2:
            v = node.args[1]
            site = node
        elif kind == "setitem" and isinstance(node, ast.Assign):
            v = node.value
            site = node
        if not (isinstance(v, ast.Tuple) and len(v.elts) == 2):
            continue
        url_e = v.elts[1]
        if top_fn(fi).name == "register_cap" and model.in_region_class(fi) and isinstance(url_e, ast.Name) and url_e.id == url_param:
            callee_guard = _known_nonempty(fi, site, url_e)
            continue
        n += 1
        ctx.ob("C16.R8", f"{q}: URL `{norm(url_e)}` stored in caps is known to be non-empty",
               _known_nonempty(fi, site, url_e), ctx.w(fi, site),
               "an empty cap URL is a prefix of every request URL")
    if url_param is not None:
        from .common import callers_of
        for g, c in callers_of(repo, "register_cap"):
            if not isinstance(c.func, ast.Attribute) or not model.module_aware(g.module):
                continue
            i = pn.index(url_param)
            a = c.args[i] if i < len(c.args) else next((k.value for k in c.keywords if k.arg == url_param), None)
            if a is None:
                continue
            n += 1
            ok = callee_guard or _known_nonempty(g, c, a)
            ctx.ob("C16.R8", f"{top_fn(g).qual}: URL `{norm(a)}` registered as a cap is known to be non-empty", ok, ctx.w(g, c),
                   "neither the call site nor register_cap checks it; an empty cap URL is a prefix of every request URL, so "
                   "unrelated requests resolve to this cap")
    ctx.floor("C16.R8", "cap URL stores", n, 4)


def r9(ctx, model: Optional[Model] = None):
    repo = ctx.repo
    ctx.rule("C16.R9", "session-level resolution asks every region of the session and every session of the manager: "
                       "the region.resolve_cap(url) / session.resolve_cap(url) call is not conditional on the candidate's state")
    from .common import class_methods_reachable
    n = 0
    for start, coll in (("Session.resolve_cap", "self.regions"), ("SessionManager.resolve_cap", "self.sessions")):
        for g in class_methods_reachable(repo, repo.fn(start, SESS), depth=2):
            for c in find_calls(g.node, "resolve_cap"):
                if not (isinstance(c.func, ast.Attribute) and isinstance(c.func.value, ast.Name)):
                    continue
                v = c.func.value.id
                src_iter, conds = None, []
                for a in ancestors(c):
                    if isinstance(a, (ast.For, ast.AsyncFor)) and isinstance(a.target, ast.Name) and a.target.id == v:
                        src_iter = a.iter
                        conds = [(e, pol) for e, pol in facts(c, g.node) if any(x is a for x in ancestors(e))]
                        break
                    if isinstance(a, (ast.GeneratorExp, ast.ListComp, ast.SetComp)):
                        gens = [gen for gen in a.generators if isinstance(gen.target, ast.Name) and gen.target.id == v]
                        if gens:
                            src_iter = gens[0].iter
                            conds = [x for cnd in gens[0].ifs for x in atoms(cnd, True)]
                            break
                if src_iter is None:
                    continue
                it = src_iter
                while isinstance(it, ast.Call) and isinstance(it.func, ast.Name) and it.func.id in COPY_CALLS | {"reversed"} and it.args:
                    it = it.args[0]
                if isinstance(it, ast.Name):
                    vals = [st.value for st in stores(g.node) if st.path == it.id and st.kind == "assign" and st.value is not None]
                    if len(vals) == 1:
                        it = vals[0]
                n += 1
                # the search itself is not skipped depending on remembered state (a negative cache keyed by less
                # than the URL and never invalidated by new grants hides caps granted later)
                outer_node = next((a for a in ancestors(c) if isinstance(a, (ast.For, ast.AsyncFor)) and
                                   isinstance(a.target, ast.Name) and a.target.id == v), None) or enclosing_stmt(c)
                remembered = []
                for e, pol in facts(outer_node, g.node):
                    for x in ast.walk(e):
                        p_ = ap(x) if isinstance(x, ast.Attribute) else None
                        if p_ and p_.startswith("self.") and p_.split(".")[1].split("(")[0].split("[")[0] not in \
                                ("sessions", "regions", "global_caps"):
                            remembered.append(f"{'' if pol else 'not '}{norm(e)}")
                            break
                ctx.ob("C16.R9", f"{g.qual}: the search through {coll} is not skipped depending on other remembered state",
                       not remembered, ctx.w(g, c),
                       f"skipped under {sorted(set(remembered))}: resolution must be a function of the URL and the caps "
                       f"currently granted; a remembered miss keeps hiding caps granted (or URLs consumed) afterwards")
                about = [f"{'' if pol else 'not '}{norm(e)}" for e, pol in conds
                         if any(isinstance(x, ast.Name) and x.id == v for x in ast.walk(e))]
                ctx.ob("C16.R9", f"{g.qual}: `{norm(c)}` is asked of every member of {coll}", ap(it) == coll and not about,
                       ctx.w(g, c),
                       (f"candidates are skipped under {about}" if about else f"iterates `{norm(src_iter)}` instead of {coll}") +
                       ": a URL granted to a skipped region/session no longer resolves to it (seed rewriting and one-shot "
                       "consumption are then skipped as well)")
    ctx.floor("C16.R9", "resolve_cap fan-out calls", n, 2)


class _StrEval(ConstEval):
    """ConstEval + string predicates on constants, set/frozenset/tuple/len/any/all, slices."""

    def _ev(self, n, local):
        from ..consteval import CallVal, Sym
        if isinstance(n, ast.Call):
            f = n.func
            args = [self.ev(a, local) for a in n.args]
            if any(isinstance(a, (Sym, CallVal)) for a in args):
                return Sym(src(n))
            nm = ap(f) or ""
            if nm in ("frozenset", "set", "tuple", "list", "len", "bool", "str") and len(args) <= 1 and not n.keywords:
                fn = {"frozenset": frozenset, "set": frozenset, "tuple": tuple, "list": list, "len": len, "bool": bool, "str": str}[nm]
                try:
                    return fn(*args)
                except Exception:
                    return Sym(src(n))
            if nm in ("any", "all") and len(n.args) == 1 and isinstance(n.args[0], (ast.GeneratorExp, ast.ListComp)) and \
                    len(n.args[0].generators) == 1 and isinstance(n.args[0].generators[0].target, ast.Name):
                g = n.args[0].generators[0]
                seq = self.ev(g.iter, local)
                if isinstance(seq, (Sym, CallVal)) or not isinstance(seq, (tuple, list, frozenset)):
                    return Sym(src(n))
                vals = []
                for item in (sorted(seq, key=repr) if isinstance(seq, frozenset) else seq):
                    env = dict(local)
                    env[g.target.id] = item
                    if all(self._truth(self.ev(c, env)) for c in g.ifs):
                        vals.append(self.ev(n.args[0].elt, env))
                if any(isinstance(v, (Sym, CallVal)) for v in vals):
                    return Sym(src(n))
                return any(vals) if nm == "any" else all(vals)
            if isinstance(f, ast.Attribute) and f.attr in ("startswith", "endswith", "lower", "upper", "removesuffix",
                                                           "removeprefix", "rsplit", "split", "strip"):
                base = self.ev(f.value, local)
                if isinstance(base, str):
                    try:
                        return getattr(base, f.attr)(*args)
                    except Exception:
                        return Sym(src(n))
        if isinstance(n, ast.Subscript) and isinstance(n.slice, ast.Slice):
            from ..consteval import CallVal, Sym
            base = self.ev(n.value, local)
            parts = [self.ev(x, local) if x is not None else None for x in (n.slice.lower, n.slice.upper, n.slice.step)]
            if isinstance(base, (str, tuple, list)) and not any(isinstance(p_, (Sym, CallVal)) for p_ in parts):
                return base[slice(*parts)]
            return Sym(src(n))
        if isinstance(n, ast.Name) and n.id in local:
            return local[n.id]
        if isinstance(n, ast.Name):
            v = self.repo.module_assign(self.mod, n.id)
            if v is not None and self._depth < 40:
                return self.ev(v, {})
        return super()._ev(n, local)

    @staticmethod
    def _truth(v):
        from ..consteval import CallVal, Sym
        if isinstance(v, (Sym, CallVal)):
            raise AnalysisError("undecidable condition in a constant predicate")
        return bool(v)


def r10(ctx, model: Optional[Model] = None):
    repo = ctx.repo
    ctx.rule("C16.R10", "every cap the seed response replaces by a proxy wrapper is one is_asset_server_cap_name() "
                        "classifies as an asset-server cap (its plain URL must not be attributed to a region/session)")
    from .c18 import _run, inline_self_calls
    from ..consteval import CallVal, Sym
    rs = inline_self_calls(repo, repo.fn("MITMProxyEventManager._handle_response"))
    pred = repo.fn("is_asset_server_cap_name", CAPS)
    params = [a.arg for a in pred.node.args.args]
    ctx.require(len(params) == 1, "is_asset_server_cap_name signature changed")
    names = set()
    ev0 = _StrEval(repo, rs.module)
    for c in find_calls(rs.node, "register_wrapper_cap"):
        if not (c.args and isinstance(c.args[0], ast.Name)):
            continue
        loops = [a for a in ancestors(c) if isinstance(a, ast.For) and isinstance(a.target, ast.Name) and a.target.id == c.args[0].id]
        if not loops:
            continue
        it = loops[0].iter
        if isinstance(it, ast.Name):
            vals = [st.value for st in stores(rs.node) if st.path == it.id and st.kind == "assign" and st.value is not None]
            it = vals[0] if len(vals) == 1 else it
        v = ev0.ev(it, {})
        if isinstance(v, (Sym, CallVal)) or not isinstance(v, (frozenset, tuple, list)):
            raise AnalysisError(f"C16.R10: the set of wrapped cap names `{norm(it)}` is not a constant collection")
        names |= {x for x in v if isinstance(x, str)}
    ctx.floor("C16.R10", "cap names wrapped in the seed response", len(names), 2)
    for nm in sorted(names):
        ev = _StrEval(repo, pred.module)
        try:
            out = _run(ev, pred.node.body, {params[0]: nm})
        except AnalysisError as e:
            raise AnalysisError(f"C16.R10: is_asset_server_cap_name({nm!r}) cannot be evaluated: {e}")
        val = out.value if out.kind == "return" else None
        if isinstance(val, (Sym, CallVal)):
            raise AnalysisError(f"C16.R10: is_asset_server_cap_name({nm!r}) is not decidable ({val!r})")
        ctx.ob("C16.R10", f"is_asset_server_cap_name({nm!r}) holds for the wrapped cap", bool(val), pred.where,
               "the cap gets a proxy wrapper, yet its plain (grid-global) URL is still attributed to one region/session and "
               "is not offered to the asset repo")


def r11(ctx, model: Optional[Model] = None):
    repo = ctx.repo
    ctx.rule("C16.R11", "addon hooks of the library that register caps return nothing: AddonManager stops delivering a "
                        "hook at the first truthy return, so the remaining addons would never register their caps")
    disp = repo.fn("AddonManager._call_all_addon_hooks")
    first_truthy = any(isinstance(n, ast.If) and isinstance(n.test, ast.Name) and
                       any(isinstance(x, ast.Return) and ap(x.value) == n.test.id for x in n.body)
                       for n in walk(disp.node) if any(isinstance(a, ast.For) for a in ancestors(n)))
    if not first_truthy:
        ctx.note("C16.R11: AddonManager._call_all_addon_hooks no longer stops at the first truthy hook result; not required")
        return
    n = 0
    for fi in repo.all_funcs:
        if fi.parent_fn is not None or fi.cls is None or not fi.name.startswith("handle_"):
            continue
        regs = [c for c in calls(fi.node) if call_attr(c) in ("register_proxy_cap", "register_cap", "register_wrapper_cap")]
        if not regs:
            # one level of self. helpers
            regs = [c for c in calls(fi.node) if isinstance(c.func, ast.Attribute) and isinstance(c.func.value, ast.Name) and
                    c.func.value.id == "self" and (repo.lookup_method(fi.cls, c.func.attr) is not None) and
                    any(call_attr(x) in ("register_proxy_cap", "register_cap", "register_wrapper_cap")
                        for x in calls(repo.lookup_method(fi.cls, c.func.attr).node))]
        if not regs:
            continue
        n += 1
        vals = [r.value for r in returns_of(fi.node) if r.value is not None and
                not (isinstance(r.value, ast.Constant) and not r.value.value)]
        ctx.ob("C16.R11", f"{fi.qual} returns nothing truthy", not vals, fi.where,
               f"returns `{norm(vals[0])}`: once one addon answers, no later addon sees this hook for the region and its "
               f"proxy-only cap is neither stripped from the Seed request nor presented to the viewer" if vals else "")
    ctx.floor("C16.R11", "cap-registering addon hooks", n, 1)


def _length_ordered(fn_node) -> bool:
    """Some choice in the function is made by URL length: max(..., key=len) / sorted(..., key=len...) / a comparison
    one side of which is a len(...)."""
    for n in walk(fn_node, into_defs=True):
        if isinstance(n, ast.Call) and ap(n.func) in ("max", "sorted", "min") and \
                any(k.arg == "key" and any(isinstance(x, ast.Name) and x.id == "len" for x in ast.walk(k.value)) for k in n.keywords):
            return True
        if isinstance(n, ast.Call) and isinstance(n.func, ast.Attribute) and n.func.attr == "sort" and \
                any(k.arg == "key" and any(isinstance(x, ast.Name) and x.id == "len" for x in ast.walk(k.value)) for k in n.keywords):
            return True
        if isinstance(n, ast.Compare) and any(isinstance(o, (ast.Gt, ast.GtE, ast.Lt, ast.LtE)) for o in n.ops) and \
                any(isinstance(x, ast.Call) and ap(x.func) == "len" for x in [n.left] + list(n.comparators)):
            return True
    return False


def r12(ctx, model: Optional[Model] = None):
    repo = ctx.repo
    model = model or Model(ctx)
    ctx.rule("C16.R12", "several entries can answer one lookup: of the granted URLs a request extends the LONGEST one wins "
                        "(within a region and across global caps, regions and sessions, losers are only peeked at); an "
                        "existing proxy-only cap is looked for among every entry of its name")
    from .c18 import inline_self_calls
    from .common import class_methods_reachable
    rebuild = model.rebuild_method()
    for q in ("ProxiedRegion.resolve_cap", "Session.resolve_cap", "SessionManager.resolve_cap"):
        fi = repo.fn(q)
        code = [inline_self_calls(repo, g, exclude=(rebuild.name,)) for g in class_methods_reachable(repo, fi, depth=2)
                if g.name != rebuild.name]
        ordered = any(_length_ordered(g.node) for g in code)
        ctx.ob("C16.R12", f"{q}: of several granted URLs the request extends, the longest one wins", ordered, fi.where,
               "the first startswith() hit in table order is returned; with prefix-related cap URLs (/cap/1234 and "
               "/cap/12345678) the request for the longer one resolves to - and consumes - the cap, region and session "
               "of the shorter one")
        if q != "ProxiedRegion.resolve_cap":
            peeks = []
            for g in code:
                for c in find_calls(g.node, "resolve_cap"):
                    if isinstance(c.func, ast.Attribute) and any(isinstance(a, (ast.For, ast.comprehension, ast.GeneratorExp, ast.ListComp))
                                                                  for a in ancestors(c)):
                        peeks.append(c)
            bad = [norm(c) for c in peeks if not any(k.arg == "consume" and isinstance(k.value, ast.Constant) and
                                                     k.value.value is False for k in c.keywords)]
            ctx.ob("C16.R12", f"{q}: candidates are only peeked at, the winner alone is consumed",
                   bool(peeks) and not bad, fi.where,
                   f"{bad or 'no candidate loop'}: asking every candidate with consumption on uses up one-shot caps of "
                   f"candidates that lose (or wins by table order before the comparison)")
    # registering a proxy-only cap twice yields the same URL: the existing entry is searched for among all entries
    rp = repo.fn("ProxiedRegion.register_proxy_cap")
    fl = RoleFlow(model, rp)
    found_all = False
    newest = []
    for n in walk(rp.node):
        if isinstance(n, ast.Compare) and len(n.ops) == 1:
            for x, y in ((n.left, n.comparators[0]), (n.comparators[0], n.left)):
                if model.captype_member(y, rp.module) == "PROXY_ONLY" and fl.role_of(x) == TYPE:
                    if "all" in fl.scope_for(x) and "first" not in fl.scope_for(x):
                        found_all = True
                    else:
                        newest.append(norm(n))
    for c in calls(rp.node):
        if isinstance(c.func, ast.Attribute) and isinstance(c.func.value, ast.Name) and c.func.value.id == "self":
            m_ = repo.lookup_method(model.region, c.func.attr)
            if m_ is not None and m_.node is not rp.node and _selects_proxy_only(model, m_):
                found_all = True
    ctx.ob("C16.R12", "register_proxy_cap looks for an existing PROXY_ONLY entry among every entry of the name",
           found_all and not newest, rp.where,
           f"{newest or 'no PROXY_ONLY test'}: only the newest entry of the name is inspected; once the simulator granted a "
           f"cap of that name, registering the proxy-only cap again mints a second URL")


def r13(ctx, model: Optional[Model] = None):
    repo = ctx.repo
    model = model or Model(ctx)
    ctx.rule("C16.R13", "granted cap URLs are indexed in the form the HTTP front end reports request URLs in (mitmproxy "
                        "drops a scheme's default port): the index key goes through a normalisation")
    rb = model.rebuild_method()
    fl = RoleFlow(model, rb)
    fills = [st for st in stores(rb.node) if st.path == "self._caps_url_lookup" and st.kind == "setitem"]
    ctx.require(bool(fills), "index rebuild no longer fills _caps_url_lookup")
    for st in fills:
        key = st.target.slice
        verbatim = isinstance(key, (ast.Name, ast.Subscript)) and fl.role_of(key) == URL
        ctx.ob("C16.R13", "the URL index key is normalised like request URLs (default port dropped)", not verbatim,
               ctx.w(rb, st.node),
               f"`{norm(key)}` is the granted string verbatim: a cap granted as http://host:80/... or https://host:443/... never "
               f"resolves, because the request URL arrives without the default port")


def run(ctx):
    model = Model(ctx)
    r1(ctx, model)
    r2(ctx, model)
    r3(ctx, model)
    r4(ctx, model)
    r5(ctx, model)
    r6(ctx, model)
    r7(ctx, model)
    r8(ctx, model)
    r9(ctx, model)
    r10(ctx, model)
    r11(ctx, model)
    r12(ctx, model)
    r13(ctx, model)
    ctx.note("C16: with prefix-related URLs C16.R12 only decides that the choice is made by URL length and that losers are "
             "not consumed; equal-length ties between tables keep table order")
    ctx.assume("multidict.MultiDict: add() appends, [] / get() return the first value, popall() removes all values "
               "of a key, items() iterates in insertion order")
    ctx.assume("`.caps` on a non-self receiver in modules that import hippolyzer.lib.proxy is a ProxiedRegion.caps table")
