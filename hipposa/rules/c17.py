"""C17 - event queue: filter loop, injected events, undef-on-empty + replay cache, region registration
(DESIGN.md section 4, C17.R1-R4).  Necessary structural conditions only; exactly-once delivery over
poll histories with lost responses is not decided.
"""
from __future__ import annotations

import ast
from typing import Dict, List, Optional, Tuple

from ..cfg import CFG
from ..core import (AnalysisError, FuncInfo, ancestors, ap, atoms, call_attr, calls, enclosing_stmt, facts,
                    find_calls, is_none_test, norm, parent, stores, walk)
from .common import (cfg_node_expr, cfg_node_fallible, inline_self_calls, must_pass, normal_path, origin,
                     single_def, where_of)
from .c14 import bind_call, body_must_pass, fast_callers_of, fast_writers_of, strip_copy

HEM = "hippolyzer/lib/proxy/http_event_manager.py"
REG = "hippolyzer/lib/proxy/region.py"
STATE = "hippolyzer/lib/client/state.py"

PRIMS = frozenset({"_handle_eq_event", "take_injected_events", "cache_last_poll_response",
                   "get_cached_poll_response", "register_region", "inject_event", "inject_message", "clear"})

REGION_ADDERS = {"BaseClientSession.register_region"}
REGION_REMOVERS = {"HippoClientSession.unregister_region"}


EQM = "EventQueueManager"
QUEUE_OWNERS = {f"{EQM}.__init__", f"{EQM}.inject_event", f"{EQM}.take_injected_events", f"{EQM}.clear"}
CACHE_OWNERS = {f"{EQM}.__init__", f"{EQM}.cache_last_poll_response", f"{EQM}.clear"}


def self_attr(path: Optional[str]) -> Optional[str]:
    """'self.x...' -> 'x' (first attribute of self), else None."""
    if path and path.startswith("self.") and len(path) > 5:
        return path.split(".")[1].replace("[]", "").replace("()", "")
    return None


def expand_path(tree, e) -> Optional[str]:
    """Access path of e with a leading single-definition local replaced by what it aliases."""
    p = ap(e)
    if not p:
        return None
    head = p.split(".")[0]
    if head != "self" and "(" not in head and "[" not in head:
        d = single_def(tree, head)
        if d is not None and ap(d):
            return ap(d) + p[len(head):]
    return p


def discover_queue_field(ctx) -> str:
    """The injection queue: the attribute inject_event appends its event to (else the one
    take_injected_events hands out)."""
    inj = Fn(ctx, f"{EQM}.inject_event")
    ev = inj.params[1] if len(inj.params) > 1 else None
    cands = [self_attr(ap(c.func.value)) for c in find_calls(inj.tree, "append", into_defs=False)
             if isinstance(c.func, ast.Attribute) and c.args and ap(c.args[0]) == ev]
    cands = [c for c in cands if c]
    if not cands:
        tk = Fn(ctx, f"{EQM}.take_injected_events")
        for r in [n for n in walk(tk.tree) if isinstance(n, ast.Return) and n.value is not None]:
            a_ = self_attr(ap(strip_copy(origin(tk.tree, r.value))[0]))
            if a_:
                cands.append(a_)
    if len(set(cands)) != 1:
        raise AnalysisError(f"cannot identify the injection queue attribute of {EQM} (candidates {sorted(set(cands))})")
    return cands[0]


def _key_elems(repo, mod, v):
    """Elements of a key: a tuple literal, or the constructor call of a NamedTuple-like repo class (in field order)."""
    if isinstance(v, ast.Tuple):
        return list(v.elts)
    if isinstance(v, ast.Call) and not any(k.arg is None for k in v.keywords):
        ci = repo.resolve_class(ap(v.func) or "", mod)
        if ci is None:
            return None
        fields = [st.target.id for st in ci.node.body if isinstance(st, ast.AnnAssign) and isinstance(st.target, ast.Name)]
        bound = {fields[i]: e for i, e in enumerate(v.args) if i < len(fields)}
        bound.update({k.arg: k.value for k in v.keywords})
        if fields and set(bound) == set(fields):
            return [bound[f] for f in fields]
    return None


def discover_cache(ctx):
    """Where cache_last_poll_response keeps (ack, payload): role -> component access path, plus the store
    statements and the self attributes involved."""
    repo = ctx.repo
    cf = Fn(ctx, f"{EQM}.cache_last_poll_response")
    pars = {"ack": cf.params[1] if len(cf.params) > 1 else None, "payload": cf.params[2] if len(cf.params) > 2 else None}
    comp: Dict[str, str] = {}
    sts: Dict[str, list] = {"ack": [], "payload": []}
    attrs = set()
    for s_ in stores(cf.tree, into_defs=False):
        if s_.kind != "assign" or not self_attr(s_.path):
            continue
        attrs.add(self_attr(s_.path))
        v = s_.value
        for role, par in pars.items():
            if par is not None and ap(v) == par:
                comp[role] = s_.path
                sts[role].append(s_)
        elts_ = _key_elems(repo, cf.fi.module, v)
        if elts_ is not None and pars["payload"] in [ap(e) for e in elts_]:
            elts_ = None        # a record that also carries the payload: handled field by field below
        if elts_ is not None and pars["ack"] in [ap(e) for e in elts_] \
                and all(isinstance(e, ast.Name) and e.id in cf.params[1:] for e in elts_):
            v = ast.Tuple(elts=elts_, ctx=ast.Load())
        if isinstance(v, ast.Tuple) and pars["ack"] in [ap(e) for e in v.elts] \
                and all(isinstance(e, ast.Name) and e.id in cf.params[1:] for e in v.elts):
            # the key is a tuple of parameters (ack plus what identifies the queue)
            comp["ack"] = s_.path
            comp["key_roles"] = ["ack" if ap(e) == pars["ack"] else f"#{cf.params.index(e.id)}" for e in v.elts]
            sts["ack"].append(s_)
        if isinstance(v, ast.Call):
            ci = repo.resolve_class(ap(v.func) or "", cf.fi.module)
            fields = [st.target.id for st in ci.node.body if isinstance(st, ast.AnnAssign) and isinstance(st.target, ast.Name)] \
                if ci is not None else []
            bound = {fields[i]: e for i, e in enumerate(v.args) if i < len(fields)}
            bound.update({k.arg: k.value for k in v.keywords if k.arg})
            for fld, e in bound.items():
                for role, par in pars.items():
                    if par is not None and ap(e) == par:
                        comp[role] = f"{s_.path}.{fld}"
                        sts[role].append(s_)
                if isinstance(e, ast.Name) and e.id in cf.params[1:] and e.id not in pars.values() \
                        and "payload" in [r_ for r_, p_ in pars.items() if any(ap(x_) == p_ for x_ in bound.values())]:
                    comp.setdefault("queue_fields", {})[e.id] = f"{s_.path}.{fld}"
    return cf, comp, sts, attrs


class Fn:
    def __init__(self, ctx, qual, module=None):
        self.fi: FuncInfo = ctx.repo.fn(qual, module)
        self.tree = inline_self_calls(ctx.repo, self.fi, depth=2, keep=PRIMS)
        self.cfg = CFG(self.tree)
        a = self.tree.args
        self.params = [p.arg for p in a.posonlyargs + a.args]

    def w(self, node):
        return where_of(self.fi, node)

    def nodes(self, sub):
        return self.cfg.stmt_nodes_containing(sub)

    def describe(self, path):
        return self.cfg.describe_path(path) if path else None


def guarded_catch_all_(node, stop) -> bool:
    """node lies in the body of a try with an `except Exception/BaseException/bare` handler that never raises."""
    from ..core import try_contexts
    for tc in try_contexts(node, stop):
        if tc.section != "body":
            continue
        for h in tc.node.handlers:
            names = {(ap(e) or "").split(".")[-1] for e in (h.type.elts if isinstance(h.type, ast.Tuple) else [h.type])} \
                if h.type is not None else {"BaseException"}
            if names & {"Exception", "BaseException"} and not any(isinstance(x, ast.Raise) for x in walk(h)):
                return True
    return False


def factset(node, tree, expand=None):
    return {(norm(e), pol) for e, pol in facts(node, tree)}


def rel_facts(node, ref, tree) -> List[Tuple[ast.AST, bool]]:
    """Facts holding at `node` that do not already hold at `ref` (conditions added after ref)."""
    base = factset(ref, tree)
    return [(e, pol) for e, pol in facts(node, tree) if (norm(e), pol) not in base]


def unwrap_truth(e):
    """bool(x) / len(x) -> x (same truthiness for lists)."""
    while isinstance(e, ast.Call) and isinstance(e.func, ast.Name) and e.func.id in ("bool", "len") and len(e.args) == 1:
        e = e.args[0]
    return e


def leaf_facts(tree, e, pol, depth=4):
    """Decompose a fact into leaves, expanding single-definition boolean flags.
    Yields (leaf expr, polarity, defining statement or None)."""
    out = []
    for a, p in atoms(e, pol):
        a = unwrap_truth(a)
        if isinstance(a, ast.Name) and depth > 0:
            d = single_def(tree, a.id)
            if d is not None and isinstance(unwrap_truth(d), (ast.BoolOp, ast.UnaryOp, ast.Compare)):
                for x in leaf_facts(tree, unwrap_truth(d), p, depth - 1):
                    out.append((x[0], x[1], x[2] if x[2] is not None else enclosing_stmt(d)))
                continue
        if isinstance(a, ast.BoolOp) or (isinstance(a, ast.UnaryOp) and isinstance(a.op, ast.Not)):
            sub = atoms(a, p)
            if len(sub) > 1 or sub[0][0] is not a:
                for s_e, s_p in sub:
                    out.extend(leaf_facts(tree, s_e, s_p, depth - 1))
                continue
        out.append((a, p, None))
    return out


def ack_of_request(tree, e) -> bool:
    """e derives from parse(<flow>.request.content)["ack"]."""
    e = origin(tree, e)
    if not (isinstance(e, ast.Subscript) and isinstance(e.slice, ast.Constant) and e.slice.value == "ack"):
        return False
    v = origin(tree, e.value)
    return isinstance(v, ast.Call) and len(v.args) >= 1 and (ap(v.args[0]) or "").endswith(".request.content")


# --------------------------------------------------------------------------- model of the response branch

class RespModel:
    """The EventQueueGet branch of _handle_response: filter construct, merge, replacement, cache, format."""

    def __init__(self, ctx):
        repo = ctx.repo
        self.fn = fn = Fn(ctx, "MITMProxyEventManager._handle_response")
        self.eq = repo.fn("MITMProxyEventManager._handle_eq_event")
        tree = fn.tree
        hcs = find_calls(tree, "_handle_eq_event", into_defs=False)
        self.isolated_by_wrapper = False
        ev_arg = None
        if not hcs:
            # the handler may be reached through a small wrapper that contains its failures
            # (`try: return self._handle_eq_event(..) except Exception: ...; return False`)
            from .common import class_methods_reachable
            cands = [(d, False) for d in walk(tree, into_defs=True) if isinstance(d, ast.FunctionDef) and d is not tree]
            cands += [(g.node, True) for g in class_methods_reachable(repo, fn.fi, depth=2) if g != fn.fi]
            for d, is_method in cands:
                evp = self._isolating_wrapper(d, is_method)
                if evp is None:
                    continue
                for c in calls(tree):
                    direct = isinstance(c.func, ast.Name) and c.func.id == d.name and not is_method
                    via_self = isinstance(c.func, ast.Attribute) and c.func.attr == d.name and is_method \
                        and isinstance(c.func.value, ast.Name) and c.func.value.id == fn.params[0]
                    if direct or via_self:
                        params = [a.arg for a in d.args.posonlyargs + d.args.args][1 if is_method else 0:]
                        bound = dict(zip(params, c.args))
                        bound.update({k.arg: k.value for k in c.keywords if k.arg})
                        hcs.append(c)
                        ev_arg = bound.get(evp)
                        self.isolated_by_wrapper = True
        ctx.require(len(hcs) == 1, f"_handle_response: expected one _handle_eq_event call site, found {len(hcs)}")
        self.hc = hc = hcs[0]
        if not self.isolated_by_wrapper:
            ev_arg = bind_call(self.eq, hc).get("event")
        self.kind = None
        self.loop = self.comp = None
        self.append = None
        self.new = None
        comp = next((a for a in ancestors(hc) if isinstance(a, (ast.ListComp, ast.GeneratorExp, ast.SetComp))), None)
        loop = next((a for a in ancestors(hc) if isinstance(a, (ast.For, ast.While))), None)
        if comp is not None:
            self.kind, self.comp = "comp", comp
            ctx.require(len(comp.generators) == 1, "_handle_response: filter comprehension has several generators")
            g = comp.generators[0]
            self.iter, self.var = g.iter, ap(g.target)
            self.anchor = enclosing_stmt(comp)
            st = self.anchor
            if isinstance(st, ast.Assign) and len(st.targets) == 1 and isinstance(st.targets[0], ast.Name) \
                    and strip_copy(st.value)[0] is comp:
                self.new = st.targets[0].id
        elif isinstance(loop, ast.For):
            self.kind, self.loop = "loop", loop
            self.iter, self.var = loop.iter, ap(loop.target)
            self.anchor = loop
            apps = [c for c in find_calls(loop, "append", into_defs=False)
                    if isinstance(c.func, ast.Attribute) and isinstance(c.func.value, ast.Name)]
            self.appends = apps
            if len({c.func.value.id for c in apps}) == 1:
                self.new = apps[0].func.value.id
        else:
            raise AnalysisError("_handle_response: _handle_eq_event is not called from a loop or comprehension "
                                "over the response's events")
        self.ev_arg = ev_arg
        # response dict and the old event list
        it = origin(tree, self.iter)
        self.old_name = self.iter.id if isinstance(self.iter, ast.Name) else None
        self.parsed = None
        if isinstance(it, ast.Subscript) and isinstance(it.slice, ast.Constant) and it.slice.value == "events" \
                and isinstance(it.value, ast.Name):
            self.parsed = it.value.id
        # merge, cache, format
        self.takes = find_calls(tree, "take_injected_events", into_defs=False)
        self.caches = find_calls(tree, "cache_last_poll_response", into_defs=False)
        self.formats = []
        for s in stores(tree, into_defs=False):
            v_ = origin(tree, s.value) if s.value is not None else None
            if s.kind == "assign" and s.path.endswith(".response.content") and isinstance(v_, ast.Call) \
                    and call_attr(v_) == "format_xml" and v_.args and ap(v_.args[0]) == self.parsed:
                self.formats.append(s)

    def _isolating_wrapper(self, d, is_method) -> Optional[str]:
        """d is `def w(.., ev, ..): try: return <..>._handle_eq_event(.., ev) except Exception: <no raise>; return <falsy>`:
        name of the parameter that carries the event, else None."""
        body = [st for st in d.body if not (isinstance(st, ast.Expr) and isinstance(st.value, ast.Constant))]
        if len(body) not in (1, 2) or not isinstance(body[0], ast.Try):
            return None
        t = body[0]
        inner = [c for st in t.body for c in ast.walk(st) if isinstance(c, ast.Call) and call_attr(c) == "_handle_eq_event"]
        if len(inner) != 1 or not t.handlers:
            return None
        catch_all = False
        for h in t.handlers:
            names = {(ap(e) or "").split(".")[-1] for e in (h.type.elts if isinstance(h.type, ast.Tuple) else [h.type])} \
                if h.type is not None else {"BaseException"}
            if any(isinstance(x, ast.Raise) for x in walk(h)):
                return None
            catch_all = catch_all or bool(names & {"Exception", "BaseException"})
        if not catch_all:
            return None
        for r in [x for x in walk(d) if isinstance(x, ast.Return)]:
            v = r.value
            if v is inner[0] or v is None or (isinstance(v, ast.Constant) and not v.value):
                continue
            if isinstance(v, ast.Name) and any(isinstance(st, ast.Assign) and st.value is inner[0] and ap(st.targets[0]) == v.id
                                               for st in ast.walk(t) if isinstance(st, ast.Assign)):
                continue
            return None
        evx = bind_call(self.eq, inner[0]).get("event")
        params = [a.arg for a in d.args.posonlyargs + d.args.args]
        return evx.id if isinstance(evx, ast.Name) and evx.id in params else None

    def anchor_nodes(self):
        return self.fn.cfg.nodes_for(self.anchor) if self.kind == "loop" else self.fn.nodes(self.anchor)

    @property
    def new_names(self):
        """The outgoing list under all its names: plain aliases `b = a` of the collected list count."""
        names = {self.new} if self.new else set()
        changed = True
        while changed and names:
            changed = False
            for s in stores(self.fn.tree, into_defs=False):
                if s.kind == "assign" and "." not in s.path and s.path not in names and isinstance(s.value, ast.Name) \
                        and s.value.id in names and single_def(self.fn.tree, s.path) is s.value:
                    names.add(s.path)
                    changed = True
        return names

    def new_mutations(self):
        """Every store on the outgoing list (alias bindings themselves excluded)."""
        out = []
        names = self.new_names
        for s in stores(self.fn.tree, into_defs=False):
            if s.path in names and not (s.kind == "assign" and isinstance(s.value, ast.Name) and s.value.id in names):
                out.append(s)
        return out


def verdict_fact(is_res, e, pol) -> Optional[str]:
    """What the fact (e, pol) says about a boolean verdict value: 'true' | 'nottrue' | None (nothing)."""
    if is_res(e):
        return "true" if pol else "nottrue"
    if isinstance(e, ast.Compare) and len(e.ops) == 1 and is_res(e.left) and isinstance(e.comparators[0], ast.Constant):
        c, op = e.comparators[0].value, e.ops[0]
        same = isinstance(op, (ast.Is, ast.Eq))
        if not same and not isinstance(op, (ast.IsNot, ast.NotEq)):
            return None
        if c is True:
            return "true" if same == pol else "nottrue"
        if c is False or c is None:
            return "nottrue" if same == pol else None
    return None


def swallow_fact(tree, hc, e, pol) -> bool:
    """Fact (e, pol) says: the handler's verdict for this event was not 'swallow'."""
    def is_res(x):
        if x is hc:
            return True
        if not isinstance(x, ast.Name):
            return False
        if single_def(tree, x.id) is hc:
            return True
        # `v = handler(..)` in a try, `v = False` in the handler of that try (a failed event is kept)
        defs = [s_ for s_ in stores(tree, into_defs=False) if s_.path == x.id]
        if not defs or any(s_.kind != "assign" for s_ in defs) or not any(s_.value is hc for s_ in defs):
            return False
        for s_ in defs:
            if s_.value is hc:
                continue
            in_handler = any(isinstance(a, ast.ExceptHandler) and any(y is hc for b_ in parent(a).body for y in ast.walk(b_))
                             for a in ancestors(s_.node))
            if not (isinstance(s_.value, ast.Constant) and not s_.value.value and in_handler):
                return False
        return True
    return verdict_fact(is_res, e, pol) == "nottrue"


# --------------------------------------------------------------------------- R1

def r1(ctx, m: RespModel):
    ctx.rule("C17.R1", "filter is order-preserving and total: every simulator event is handled once and either "
                       "swallowed by _handle_eq_event or appended, in order, to the list that is sent on")
    fn, tree = m.fn, m.fn.tree
    K = "MITMProxyEventManager._handle_response"
    ctx.ob("C17.R1", f"{K}: filter iterates the response's own event list", m.parsed is not None, fn.w(m.anchor),
           f"iterated sequence {norm(m.iter)} is not <parsed response>['events']")
    if m.parsed:
        srcs = [s.value for s in stores(tree, into_defs=False) if s.path == m.parsed and s.kind == "assign"
                and isinstance(s.value, ast.Call) and s.value.args and (ap(s.value.args[0]) or "").endswith(".response.content")]
        ctx.ob("C17.R1", f"{K}: {m.parsed} is parsed from the simulator's response body", len(srcs) >= 1, fn.w(m.anchor))
    def _plain(e):
        return ap(e) is not None and not any(isinstance(x, (ast.Call, ast.Slice)) for x in ast.walk(e))
    plain = _plain(m.iter) and _plain(origin(tree, m.iter))
    ctx.ob("C17.R1", f"{K}: events are visited in the simulator's order", bool(plain), fn.w(m.anchor),
           f"iteration source {norm(m.iter)} = {norm(origin(tree, m.iter))} is reordered / sliced")
    ctx.ob("C17.R1", f"{K}: _handle_eq_event receives the event being filtered", ap(m.ev_arg) == m.var and m.var is not None,
           fn.w(m.hc), f"event argument {norm(m.ev_arg) if m.ev_arg is not None else None}, loop variable {m.var}")
    ctx.ob("C17.R1", f"{K}: surviving events are collected in one list", m.new is not None, fn.w(m.anchor))
    if m.kind == "loop":
        wit = body_must_pass(fn, m.loop, fn.nodes(m.hc))
        ctx.ob("C17.R1", f"{K}: _handle_eq_event runs for every event", wit is None, fn.w(m.hc),
               "an event can pass through without being offered to the handlers", fn.describe(wit))
        tries = [a for a in ancestors(m.hc) if isinstance(a, ast.Try) and any(a is x for x in ast.walk(m.loop))
                 and any(y is m.hc for b_ in a.body for y in ast.walk(b_))]
        iso = None
        for t in tries:
            for h in t.handlers:
                names = {(ap(e) or "").split(".")[-1] for e in (h.type.elts if isinstance(h.type, ast.Tuple) else [h.type])} \
                    if h.type is not None else {"BaseException"}
                if names & {"Exception", "BaseException"} and not any(isinstance(x, ast.Raise) for x in walk(h)):
                    iso = h
        kept = False
        if iso is not None:
            # the handler keeps the event: it appends it itself, or sets the verdict the append is governed by to false
            gov = {e.id for c in m.appends for e, pol in facts(c, m.loop) if isinstance(e, ast.Name) and not pol}
            kept = any(call_attr(c) == "append" and c.args and ap(c.args[0]) == m.var for c in calls(iso)) or any(
                s_.kind == "assign" and s_.path in gov and isinstance(s_.value, ast.Constant) and not s_.value.value
                for s_ in stores(iso, into_defs=False))
        ctx.ob("C17.R1", f"{K}: a failure while handling one event stays with that event",
               m.isolated_by_wrapper or (iso is not None and kept),
               fn.w(m.hc), "_handle_eq_event is not called inside a per-event try that catches Exception and keeps the "
                           "event: one event the proxy cannot decode aborts the whole response (later announcements "
                           "unregistered, swallowed events delivered, injected events and the replay cache skipped)")
        good = [c for c in m.appends if c.args and ap(c.args[0]) == m.var]
        ctx.ob("C17.R1", f"{K}: exactly one append of the current event", len(good) == 1 and len(m.appends) == 1,
               fn.w(m.loop), f"{len(m.appends)} append call(s), {len(good)} of the loop variable")
        for c in good:
            fs = facts(c, m.loop)
            ok = len(fs) == 1 and swallow_fact(tree, m.hc, fs[0][0], fs[0][1])
            ctx.ob("C17.R1", f"{K}: an event is kept exactly when _handle_eq_event did not swallow it", ok, fn.w(c),
                   f"append is governed by {[(norm(e), p) for e, p in fs]}: events are lost (or swallowed ones kept)")
    else:
        g = m.comp.generators[0]
        ctx.ob("C17.R1", f"{K}: a failure while handling one event stays with that event", m.isolated_by_wrapper, fn.w(m.hc),
               "a comprehension cannot contain the per-event try (and the handler is not called through a wrapper that "
               "contains its failures): one undecodable event aborts the whole response")
        ctx.ob("C17.R1", f"{K}: comprehension yields the event itself", ap(m.comp.elt) == m.var and isinstance(m.comp, ast.ListComp),
               fn.w(m.comp), f"element expression {norm(m.comp.elt)}")
        fs = [f for i in g.ifs for f in atoms(i, True)]
        ok = len(fs) == 1 and swallow_fact(tree, m.hc, fs[0][0], fs[0][1])
        ctx.ob("C17.R1", f"{K}: an event is kept exactly when _handle_eq_event did not swallow it", ok, fn.w(m.comp),
               f"filter conditions {[(norm(e), p) for e, p in fs]}")
    # the list: created empty before the loop, no foreign mutation
    if m.new:
        merge_nodes = {id(x) for x in _merge_stmts(m)}
        for s in m.new_mutations():
            if s.kind == "assign" and isinstance(s.node, (ast.Assign, ast.AnnAssign)):
                if m.kind == "comp" and s.node is m.anchor:
                    continue
                if id(s.node) in merge_nodes:
                    continue
                empty = (isinstance(s.value, ast.List) and not s.value.elts) or \
                    (isinstance(s.value, ast.Call) and ap(s.value.func) == "list" and not s.value.args)
                sn = fn.nodes(s.node)
                dom = normal_path(fn.cfg, [fn.cfg.entry], lambda n: n in set(m.anchor_nodes()), lambda n: n in set(sn)) is None
                ctx.ob("C17.R1", f"{K}: {norm(s.node)} creates the outgoing list empty before the filter",
                       m.kind == "loop" and empty and dom, fn.w(s.node), "outgoing list re-bound or pre-filled")
            elif s.kind == "mutcall" and s.method == "append" and m.kind == "loop" and s.node in m.appends:
                continue
            elif id(s.node) in merge_nodes or (isinstance(s.node, ast.Call) and id(enclosing_stmt(s.node)) in merge_nodes):
                continue
            else:
                ctx.ob("C17.R1", f"{K}: no other mutation of the outgoing list: {norm(s.node)}", False, fn.w(s.node),
                       "the outgoing event list is changed outside the filter and the injection merge "
                       "(order or content of simulator events no longer preserved)")
        # the list is what gets sent
        sts = [s for s in stores(tree, into_defs=False) if s.kind == "setitem" and s.path == m.parsed
               and isinstance(s.target.slice, ast.Constant) and s.target.slice.value == "events" and ap(s.value) in m.new_names]
        sn = set(n for s in sts for n in fn.nodes(s.node))
        fmt = set(n for s in m.formats for n in fn.nodes(s.node))
        an = m.anchor_nodes()
        after = must_pass(fn.cfg, sn, starts=an, targets=fmt) if fmt else ["no format"]
        before = normal_path(fn.cfg, [fn.cfg.entry], lambda n: n in set(an), lambda n: n in sn)
        ctx.ob("C17.R1", f"{K}: the filtered list replaces {m.parsed}['events'] before the body is rewritten",
               bool(sts) and bool(fmt) and (after is None or before is None), fn.w(m.anchor),
               "the rewritten response does not carry the filtered list", fn.describe(after) if fmt else None)
    # verdict of _handle_eq_event: truthy only on the addon's say-so
    eq = Fn(ctx, "MITMProxyEventManager._handle_eq_event")
    hooks = [c for c in find_calls(eq.tree, "handle_eq_event", into_defs=False)]
    ctx.floor("C17.R1", "AddonManager.handle_eq_event call in _handle_eq_event", len(hooks), 1)

    def is_hook(x):
        x = origin(eq.tree, x)
        return any(x is h for h in hooks)
    nret = 0
    for r in [n for n in walk(eq.tree) if isinstance(n, ast.Return)]:
        v = r.value
        nret += 1
        if v is None or (isinstance(v, ast.Constant) and not v.value):
            continue
        if isinstance(v, ast.Constant):
            ok = any(verdict_fact(is_hook, e, pol) == "true" for e, pol in facts(r, eq.tree))
        else:
            ok = is_hook(v) or (isinstance(v, ast.Compare) and len(v.ops) == 1 and isinstance(v.ops[0], (ast.Is, ast.Eq))
                                and is_hook(v.left) and isinstance(v.comparators[0], ast.Constant)
                                and v.comparators[0].value is True)
        ctx.ob("C17.R1", f"MITMProxyEventManager._handle_eq_event: {norm(r)} only on the addons' verdict", ok, eq.w(r),
               "an event is reported swallowed although no addon asked for it: it never reaches the viewer")
    ctx.floor("C17.R1", "returns of _handle_eq_event", nret, 1)
    # the verdict is tested by identity (`is True`): the dispatch chain must hand back the hook's own value,
    # not a truth value manufactured from it
    by_identity = any(isinstance(e, ast.Compare) and len(e.ops) == 1 and isinstance(e.ops[0], (ast.Is, ast.IsNot))
                      and isinstance(e.comparators[0], ast.Constant) and e.comparators[0].value is True
                      and is_hook(e.left) for e in walk(eq.tree))
    if by_identity:
        start = ctx.repo.fn("AddonManager.handle_eq_event")
        chain, frontier = [start], [start]
        for _ in range(3):
            nxt = []
            for g in frontier:
                for c in calls(g.node):
                    if isinstance(c.func, ast.Attribute) and isinstance(c.func.value, ast.Name) and c.func.value.id in ("cls", "self") \
                            and g.cls is not None and c.func.attr.startswith("_") and "hook" in c.func.attr:
                        h = ctx.repo.lookup_method(g.cls, c.func.attr)
                        if h is not None and h not in chain:
                            chain.append(h)
                            nxt.append(h)
            frontier = nxt
        ctx.floor("C17.R1", "functions in the eq-event hook dispatch chain", len(chain), 2)
        for g in chain:
            bad = [r for r in walk(g.node) if isinstance(r, ast.Return) and r.value is not None and (
                (isinstance(r.value, ast.Constant) and r.value.value is True) or
                (isinstance(r.value, ast.Call) and isinstance(r.value.func, ast.Name) and r.value.func.id == "bool") or
                isinstance(r.value, (ast.Compare, ast.BoolOp, ast.UnaryOp)))]
            ctx.ob("C17.R1", f"{g.qual} hands back the hook's own return value", not bad, ctx.w(g, bad[0] if bad else g.node),
                   f"{norm(bad[0]) if bad else ''}: _handle_eq_event swallows an event only when the verdict `is True`; a truth "
                   f"value manufactured here turns any truthy hook result into a swallow (events vanish)")
    # the wrapper for non-templated events must accept any LLSD body: it runs unguarded inside the filter, so an
    # exception there makes the whole response pass through unprocessed
    fe = ctx.repo.fn("Message.from_eq_event")
    uses = [c for c in find_calls(eq.tree, "from_eq_event", into_defs=False)]
    ctx.floor("C17.R1", "from_eq_event call in _handle_eq_event", len(uses), 1)
    a_ = fe.node.args
    evp = [p.arg for p in a_.posonlyargs + a_.args][-1]
    for c in calls(fe.node):
        for k in c.keywords:
            if k.arg is not None:
                continue
            e, o = k.value, origin(fe.node, k.value)
            if evp not in {n.id for x in (e, o) for n in ast.walk(x) if isinstance(n, ast.Name)}:
                continue
            want = {norm(e), norm(o)}
            ok = any(pol and isinstance(t, ast.Call) and isinstance(t.func, ast.Name) and t.func.id == "isinstance"
                     and len(t.args) == 2 and norm(t.args[0]) in want for t, pol in facts(c, fe.node))
            callee = ctx.repo.resolve_class(ap(c.func) or "", fe.module)
            init = ctx.repo.lookup_method(callee, "__init__") if callee is not None else None
            if init is not None:
                bindable = [p.arg for p in init.node.args.args[1:]]
                ctx.ob("C17.R1", f"Message.from_eq_event: {callee.name}(**{norm(e)}) cannot bind {callee.name}'s own "
                                 f"positional parameters from wire keys", not bindable, ctx.w(init, init.node),
                       f"{callee.name}.__init__ takes {bindable} as positional-or-keyword while the call site already "
                       f"passes them positionally: an event body with such a key raises TypeError (multiple values) in "
                       f"the middle of the filter; make them positional-only")
            ctx.ob("C17.R1", f"Message.from_eq_event: **{norm(e)} only for a body known to be a mapping", ok, ctx.w(fe, c),
                   f"the event body comes off the wire and may be any LLSD value; `**` of a non-mapping raises TypeError "
                   f"in the middle of the filter, the response then reaches the viewer unprocessed (swallowed events "
                   f"delivered, injected events missing)")


def _merge_stmts(m: RespModel):
    """Statements that add the take_injected_events() result to the outgoing list."""
    tree = m.fn.tree
    out = []

    def is_take(x):
        x = origin(tree, x)
        return any(x is t for t in m.takes)
    for s in stores(tree, into_defs=False):
        if s.path not in m.new_names:
            continue
        if s.kind == "mutcall" and s.method == "extend" and s.node.args and is_take(s.node.args[0]):
            out.append(enclosing_stmt(s.node))
        elif s.kind == "augassign" and isinstance(s.node.op, ast.Add) and is_take(s.node.value):
            out.append(s.node)
        elif s.kind == "assign" and isinstance(s.value, ast.BinOp) and isinstance(s.value.op, ast.Add) \
                and ap(s.value.left) in m.new_names and is_take(s.value.right):
            out.append(s.node)
    return out


# --------------------------------------------------------------------------- R2

def r1_llsd_binding(ctx):
    """The EQ request/response handlers parse and format LLSD with hippolyzer's own llsd module (the same-named
    upstream package cannot format hippolyzer's UUID / vector types that injected events carry)."""
    repo = ctx.repo
    want = "hippolyzer.lib.base.llsd"
    from .common import class_methods_reachable
    n = 0
    seen = {}
    for q in ("MITMProxyEventManager._handle_request", "MITMProxyEventManager._handle_response"):
        for fi in class_methods_reachable(repo, repo.fn(q), depth=2):
            for c in calls(fi.node):
                if call_attr(c) in ("format_xml", "parse_xml") and isinstance(c.func, ast.Attribute):
                    head = (ap(c.func.value) or "").split(".")[0]
                    if head and head not in ("self", "cls"):
                        seen.setdefault((fi.module.rel, head), (fi, c))
    for (rel, head), (fi, c) in sorted(seen.items()):
        n += 1
        target = fi.module.imports.get(head)
        ctx.ob("C17.R1", f"{rel}: `{head}` used for parse_xml/format_xml by the EQ handlers is {want}", target == want,
               ctx.w(fi, c),
               f"`{head}` is bound to {target!r} in {rel}: responses carrying injected events with hippolyzer "
               f"value types cannot be formatted by another llsd implementation, the rewrite is aborted")
    ctx.floor("C17.R1", "llsd receivers in the EQ handlers", n, 1)
    # the event decoder unpacks only what arrived as <binary> (other simulators write plain integers / strings)
    ds = repo.fn("LLSDMessageSerializer.deserialize")
    # the unpacking may sit in deserialize itself or in a helper / converter of the serializer class
    ups = [(g, c) for g in (ds.cls.methods.values() if ds.cls is not None else [ds]) for c in calls(g.node)
           if call_attr(c) == "unpack" and c.args and (ap(c.func) or "").split(".")[-2:-1] == ["LLSDDataPacker"]]
    ctx.floor("C17.R1", "LLSDDataPacker.unpack calls in LLSDMessageSerializer", len(ups), 1)
    from ..core import conditions as _conditions
    for g, c in ups:
        v = ap(c.args[0])
        guarded = any(isinstance(x, ast.Call) and isinstance(x.func, ast.Name) and x.func.id == "isinstance" and x.args
                      and ap(x.args[0]) == v for cond in _conditions(c, g.node) for x in ast.walk(cond.test)) \
            or guarded_catch_all_(c, g.node)
        ctx.ob("C17.R1", "LLSDMessageSerializer.deserialize unpacks only values that arrived as binary", guarded, ctx.w(g, c),
               f"{norm(c)} runs for every packed-type variable whatever its LLSD form: an event that carries such a value as "
               f"a plain integer / string (OpenSimulator's TeleportFinish) raises, none of the event handling runs and the "
               f"announced region is never registered")
    # the rewrite relies on a failed parse raising (the handler's catch-all then passes the body through untouched)
    px = repo.fn("parse_xml", "hippolyzer/lib/base/llsd.py")
    swallow = [h for t in walk(px.node) if isinstance(t, ast.Try) for h in t.handlers
               if not any(isinstance(x, ast.Raise) for x in walk(h))]
    consts = [r for r in walk(px.node) if isinstance(r, ast.Return) and (r.value is None or isinstance(r.value, ast.Constant))]
    ctx.ob("C17.R1", "llsd.parse_xml fails closed: no parse error or odd body is turned into a value", not swallow and not consts,
           ctx.w(px, (swallow or consts or [px.node])[0]),
           "an EventQueueGet body the parser rejects now looks like undef: the response is rewritten to undef (and cached) "
           "instead of passing through untouched, the simulator's events in it are lost")


def r2(ctx, m: RespModel):
    repo = ctx.repo
    ctx.rule("C17.R2", "injected events exactly once: take_injected_events swaps the queue, has one call site on "
                       "the events-carrying path, and its result is appended after the simulator's events")
    fn, tree = m.fn, m.fn.tree
    K = "MITMProxyEventManager._handle_response"
    for q in sorted(QUEUE_OWNERS | CACHE_OWNERS):
        repo.fn(q)
    Q = discover_queue_field(ctx)
    _cf, _comp, _sts, cache_attrs = discover_cache(ctx)
    for field, owners, rid in [(Q, QUEUE_OWNERS, "C17.R2")] + [(a_, CACHE_OWNERS, "C17.R3") for a_ in sorted(cache_attrs)]:
        found = {}
        for f, st in fast_writers_of(repo, field):
            found.setdefault(f.qual, (f, st))
        ctx.floor(rid, f"writer functions of {field}", len(found), 2)
        for q, (f, st) in sorted(found.items()):
            ctx.ob(rid, f"{field} written by {q}", q in owners, ctx.w(f, st.node), f"not an owner ({sorted(owners)})")
    sites = fast_callers_of(repo, "take_injected_events")
    ctx.ob("C17.R2", "take_injected_events has a single call site", len(sites) == 1, REG,
           f"call sites: {[f.qual for f, _ in sites]}: each call drains the queue, a second consumer steals events")
    ctx.ob("C17.R2", f"{K}: one take_injected_events call, not in a loop", len(m.takes) == 1 and not any(
        isinstance(a, (ast.For, ast.While, ast.ListComp, ast.GeneratorExp)) for t in m.takes for a in ancestors(t)),
        fn.w(m.anchor), f"found {len(m.takes)}")
    merges = _merge_stmts(m)
    ctx.ob("C17.R2", f"{K}: taken events are appended to the outgoing list", len(merges) == 1, fn.w(m.anchor),
           f"found {len(merges)} statement(s) of the form <outgoing>.extend(take) / += take: the drained events are "
           f"dropped or put in front of the simulator's")
    for t in m.takes:
        tn = fn.nodes(t)
        mn = set(n for s in merges for n in fn.nodes(s))
        if merges:
            wit = None if all(x in mn for x in tn) else must_pass(fn.cfg, mn, starts=tn)
            ctx.ob("C17.R2", f"{K}: every drained batch reaches the outgoing list", wit is None, fn.w(t),
                   "events are taken from the queue but merged only on some paths", fn.describe(wit))
        if merges and not all(x in mn for x in tn):
            between = fn.cfg.reachable(tn, avoid=lambda n: n in mn, exc=False)
            def contained(n):   # inside a try whose catch-all handler swallows the failure: the path goes on
                e_ = cfg_node_expr(fn.cfg, n)
                return e_ is not None and guarded_catch_all_(e_, tree)
            bad = [n for n in between if n not in tn and cfg_node_fallible(fn.cfg, n) and not contained(n)]
            bad.sort(key=lambda n: getattr(n.ast, "lineno", 0))
            ctx.ob("C17.R2", f"{K}: nothing that can fail runs between draining the queue and the merge", not bad, fn.w(t),
                   "take_injected_events() is destructive; if "
                   + (norm(cfg_node_expr(fn.cfg, bad[0]))[:90] if bad else "...") +
                   " raises, the drained events are discarded with the exception (the response passes through "
                   "unmodified) and are never delivered")
        st = enclosing_stmt(t)
        extra = rel_facts(st, m.anchor, tree)
        missing = rel_facts(m.anchor, st, tree)
        ctx.ob("C17.R2", f"{K}: injection merge happens exactly when the response carries events",
               not extra and not missing, fn.w(t),
               f"extra conditions {[(norm(e), p) for e, p in extra]}, missing {[(norm(e), p) for e, p in missing]} "
               f"relative to the filter: injected events are delayed or delivered with a non-event response")
    for s in merges:
        sn = fn.nodes(s)
        tgt = set(n for c in getattr(m, "appends", []) for n in fn.nodes(c)) | set(m.anchor_nodes())
        wit = normal_path(fn.cfg, sn, lambda n: n in tgt)
        ctx.ob("C17.R2", f"{K}: injected events are merged after the simulator's events were filtered", wit is None,
               fn.w(s), "merge precedes (part of) the filter: injected events end up before simulator events",
               fn.describe(wit))
        first = normal_path(fn.cfg, [fn.cfg.entry], lambda n: n in set(sn), lambda n: n in set(m.anchor_nodes()))
        ctx.ob("C17.R2", f"{K}: the filter precedes the injection merge on every path", first is None, fn.w(s),
               "", fn.describe(first))

    # take_injected_events: swap
    tk = Fn(ctx, "EventQueueManager.take_injected_events")

    def elem_value(s_):
        """Value bound to one target of `a, b = x, y` (else the statement's value)."""
        t = parent(s_.target)
        if isinstance(s_.node, ast.Assign) and isinstance(t, (ast.Tuple, ast.List)) and isinstance(s_.node.value, (ast.Tuple, ast.List)) \
                and len(t.elts) == len(s_.node.value.elts) and t is s_.node.targets[0]:
            return s_.node.value.elts[[i for i, e in enumerate(t.elts) if e is s_.target][0]]
        return s_.value

    def tk_origin(e):
        e = origin(tk.tree, e)
        if isinstance(e, ast.Name):
            defs = [s_ for s_ in stores(tk.tree, into_defs=False) if s_.path == e.id and s_.kind == "assign"]
            if len(defs) == 1 and elem_value(defs[0]) is not None and elem_value(defs[0]) is not defs[0].value:
                return elem_value(defs[0]), defs[0].node
        return e, None
    rets = [r for r in walk(tk.tree) if isinstance(r, ast.Return)]
    ctx.ob("C17.R2", "take_injected_events has one return", len(rets) == 1 and rets[0].value is not None, tk.fi.where)
    if len(rets) == 1 and rets[0].value is not None:
        rv, swap_stmt = tk_origin(rets[0].value)
        base, copied = strip_copy(rv)
        from_q = self_attr(ap(base)) == Q
        ctx.ob("C17.R2", "take_injected_events returns the queued events", from_q, tk.w(rets[0]),
               f"returned value is {norm(rv)}")
        rebinds = [s for s in stores(tk.tree, into_defs=False) if self_attr(s.path) == Q and s.path.count(".") == 1 and s.kind == "assign"
                   and ((isinstance(elem_value(s), ast.List) and not elem_value(s).elts) or
                        (isinstance(elem_value(s), ast.Call) and ap(elem_value(s).func) == "list" and not elem_value(s).args))]
        clears = [s for s in stores(tk.tree, into_defs=False) if self_attr(s.path) == Q
                  and s.kind == "mutcall" and s.method == "clear"]
        resets = rebinds + (clears if copied else [])
        rn = set(n for s in resets for n in tk.nodes(s.node))
        wit = must_pass(tk.cfg, rn)
        ctx.ob("C17.R2", "take_injected_events empties the queue on every normal path", bool(resets) and wit is None,
               tk.fi.where, "the same injected events are delivered again with every later response"
               + ("" if copied or not clears else " / .clear() on the list that is being returned empties the result"),
               tk.describe(wit))
        # the value returned must be read before the reset
        rd = rets[0].value
        read_nodes = tk.nodes(single_def(tk.tree, rd.id)) if isinstance(rd, ast.Name) and single_def(tk.tree, rd.id) is not None \
            else tk.nodes(swap_stmt) if swap_stmt is not None else tk.nodes(rets[0])
        w2 = normal_path(tk.cfg, list(rn), lambda n: n in set(read_nodes))
        ctx.ob("C17.R2", "take_injected_events reads the queue before resetting it", w2 is None or not rn, tk.fi.where,
               "the queue is reset first: the returned list is always empty", tk.describe(w2))
    # inject_event queues unconditionally
    inj = Fn(ctx, "EventQueueManager.inject_event")
    ev = inj.params[1] if len(inj.params) > 1 else None
    apps = [c for c in find_calls(inj.tree, "append", into_defs=False) if isinstance(c.func, ast.Attribute)
            and self_attr(ap(c.func.value)) == Q and c.args and ap(c.args[0]) == ev]
    wit = must_pass(inj.cfg, [n for c in apps for n in inj.nodes(c)])
    ctx.ob("C17.R2", "inject_event queues its event on every normal path", bool(apps) and wit is None, inj.fi.where,
           "an injected event is silently not queued", inj.describe(wit))
    an = set(n for c in apps for n in inj.nodes(c))
    if an:
        before = inj.cfg.reachable([inj.cfg.entry], avoid=lambda x: x in an, exc=False)
        selfname = inj.params[0] if inj.params else "self"

        def verdict_on_event(x):
            """A step that only looks at the event itself (validation): if it fails, the injection is refused
            and the injector is told - nothing was promised yet."""
            e_ = cfg_node_expr(inj.cfg, x)
            names = {n.id for n in ast.walk(e_) if isinstance(n, ast.Name)} if e_ is not None else {selfname}
            return selfname not in names and ev in names
        bad = sorted((x for x in before if cfg_node_fallible(inj.cfg, x) and not verdict_on_event(x)
                      and normal_path(inj.cfg, [x], lambda y: y in an) is not None),
                     key=lambda x: getattr(x.ast, "lineno", 0))
        ctx.ob("C17.R2", "inject_event queues its event before anything that can fail", not bad, inj.fi.where,
               ("`" + norm(cfg_node_expr(inj.cfg, bad[0]))[:100] + "` runs before the event is queued: if the wake-up "
                "fails the injected event is lost although only its prompt delivery depended on it") if bad else "")
        # an event that cannot be written as LLSD would take the whole batch down when the response is serialised
        vals = [c for c in find_calls(inj.tree, "format_xml", into_defs=False) if c.args and ap(c.args[0]) == ev
                and not any(isinstance(a, ast.Try) for a in ancestors(c))]
        vn = set(n for c in vals for n in inj.nodes(c))
        dom = normal_path(inj.cfg, [inj.cfg.entry], lambda y: y in an, lambda y: y in vn) if vn else ["none"]
        ctx.ob("C17.R2", "inject_event refuses an event that cannot be serialised", bool(vn) and dom is None, inj.fi.where,
               "nothing checks that the event can be written as LLSD XML before it is queued: when the poll response is "
               "serialised the failure discards every injected event taken for that response")


# --------------------------------------------------------------------------- R3

def r3(ctx, m: RespModel):
    repo = ctx.repo
    ctx.rule("C17.R3", "undef-on-empty decided on the merged list; the cached payload is the object serialised, keyed "
                       "by the request's ack; the request side serves the cache exactly on equal ack")
    fn, tree = m.fn, m.fn.tree
    K = "MITMProxyEventManager._handle_response"
    merges = _merge_stmts(m)
    mut_nodes = set(n for s in merges for n in fn.nodes(s)) | \
        set(n for c in getattr(m, "appends", []) for n in fn.nodes(c)) | \
        (set(fn.nodes(m.anchor)) if m.kind == "comp" else set())
    repl = [s for s in stores(tree, into_defs=False) if s.path == m.parsed and s.kind == "assign"
            and isinstance(s.value, ast.Constant) and s.value.value is None]
    ctx.ob("C17.R3", f"{K}: an emptied response is replaced by undef", len(repl) >= 1, fn.w(m.anchor),
           f"no `{m.parsed} = None` replacement: an empty event list is sent (a protocol error)")
    for s in repl:
        extra, has_new, reads = [], False, []
        for e, pol in rel_facts(s.node, m.anchor, tree):
            for leaf, lp, defstmt in leaf_facts(tree, e, pol):
                if isinstance(leaf, ast.Name) and leaf.id in m.new_names and lp is False:
                    has_new = True
                    reads.append(defstmt if defstmt is not None else leaf)
                elif lp is True and (norm(origin(tree, leaf)) == norm(origin(tree, m.iter))
                                     or (isinstance(leaf, ast.Name) and leaf.id == m.old_name)):
                    continue
                else:
                    extra.append((norm(leaf), lp))
        ctx.ob("C17.R3", f"{K}: undef replaces the response only when the outgoing list is empty", has_new, fn.w(s.node),
               f"guard does not establish `not {m.new}`: a response that still carries events is discarded")
        ctx.ob("C17.R3", f"{K}: undef replacement has no further condition", not extra, fn.w(s.node),
               f"extra conditions {extra}: some emptied responses are sent with an empty event list")
        for r in reads:
            rn = fn.nodes(r)
            wit = normal_path(fn.cfg, rn, lambda n: n in mut_nodes)
            ctx.ob("C17.R3", f"{K}: emptiness of the outgoing list is decided after the injection merge", wit is None and bool(rn),
                   fn.w(r), f"`not {m.new}` is evaluated before events are still added to {m.new}: injected events "
                            f"already drained from the queue are thrown away with the response", fn.describe(wit))
    # cache call
    cfi = repo.fn("EventQueueManager.cache_last_poll_response")
    ctx.ob("C17.R3", f"{K}: the response is cached once", len(m.caches) == 1, fn.w(m.anchor), f"found {len(m.caches)}")
    ctx.ob("C17.R3", f"{K}: the rewritten body is serialised from {m.parsed}", len(m.formats) >= 1, fn.w(m.anchor))
    fmt_nodes = set(n for s in m.formats for n in fn.nodes(s.node))
    for c in m.caches:
        b = bind_call(cfi, c)
        names = list(b)
        ack_e, pay_e = (b.get(names[0]) if names else None), (b.get(names[1]) if len(names) > 1 else None)
        ctx.ob("C17.R3", f"{K}: cache key is the request's ack", ack_e is not None and ack_of_request(tree, ack_e), fn.w(c),
               f"key {norm(ack_e) if ack_e is not None else None} = {norm(origin(tree, ack_e)) if ack_e is not None else None} "
               f"is not parse(<request body>)['ack']")
        ctx.ob("C17.R3", f"{K}: cached payload is the object that is serialised", ap(pay_e) == m.parsed, fn.w(c),
               f"cached {norm(pay_e) if pay_e is not None else None}, serialised {m.parsed}")
        cn = fn.nodes(c)
        rebind = set(n for s in stores(tree, into_defs=False) if s.path == m.parsed and s.kind == "assign"
                     for n in fn.nodes(s.node))
        wit = normal_path(fn.cfg, cn, lambda n: n in rebind)
        ctx.ob("C17.R3", f"{K}: {m.parsed} is not re-bound between caching and serialising", wit is None, fn.w(c),
               "the replay cache holds a different response than the one the viewer was sent", fn.describe(wit))
        st = enclosing_stmt(c)
        extra, missing = rel_facts(st, m.anchor, tree), rel_facts(m.anchor, st, tree)

        def payload_set(e, pol):  # skipping the cache for an undef payload is equivalent (the request side ignores it)
            t = is_none_test(e)
            return (isinstance(e, ast.Name) and e.id == m.parsed and pol) or (t is not None and t[0] == m.parsed and t[1] != pol)
        benign = [x for x in extra if payload_set(*x)]
        extra = [x for x in extra if not payload_set(*x)]
        ctx.ob("C17.R3", f"{K}: every events-carrying response is cached", not extra and not missing, fn.w(c),
               f"extra conditions {[(norm(e), p) for e, p in extra]}, missing {[(norm(e), p) for e, p in missing]}")
        wit = None if benign else must_pass(fn.cfg, cn, starts=m.anchor_nodes())
        ctx.ob("C17.R3", f"{K}: caching happens on every path from the filter to the end of the handler", wit is None, fn.w(c),
               "", fn.describe(wit))
        ser = set(n for x in find_calls(tree, "format_xml", into_defs=False) if x.args and ap(x.args[0]) == m.parsed
                  for n in fn.nodes(x))
        w3 = normal_path(fn.cfg, [fn.cfg.entry], lambda n: n in set(cn), lambda n: n in ser) if ser else ["no format"]
        ctx.ob("C17.R3", f"{K}: the response is cached only after it was serialised", bool(ser) and w3 is None, fn.w(c),
               "cache_last_poll_response runs before format_xml(<payload>): a payload that cannot be written still lands "
               "in the replay cache (the next repeated poll raises and goes to the simulator)",
               fn.describe(w3) if ser else None)
        w4 = normal_path(fn.cfg, list(ser), lambda n: n in rebind)
        ctx.ob("C17.R3", f"{K}: {m.parsed} is not re-bound after it was serialised", w4 is None, fn.w(c), "", fn.describe(w4))
    # EventQueueManager.cache_last_poll_response / get_cached_poll_response (fields found structurally)
    cf, comp, csts, cache_attrs = discover_cache(ctx)
    for role, idx in (("ack", 1), ("payload", 2)):
        wit = must_pass(cf.cfg, [n for s_ in csts[role] for n in cf.nodes(s_.node)])
        ctx.ob("C17.R3", f"cache_last_poll_response stores the {role} from parameter {idx}", role in comp and wit is None,
               cf.fi.where, f"no store of parameter {idx} into an attribute of self on every normal path "
                            f"(found {comp.get(role)})", cf.describe(wit))
    gf = Fn(ctx, "EventQueueManager.get_cached_poll_response")
    gpar = gf.params[1] if len(gf.params) > 1 else None
    pay_rets = 0
    for r in [n for n in walk(gf.tree) if isinstance(n, ast.Return)]:
        v = origin(gf.tree, r.value) if r.value is not None else None
        if v is None or (isinstance(v, ast.Constant) and v.value is None):
            continue
        if expand_path(gf.tree, v) != comp.get("payload"):
            ctx.ob("C17.R3", f"get_cached_poll_response returns the cached payload or None: {norm(r)}", False, gf.w(r),
                   f"returns {expand_path(gf.tree, v)}, the payload is kept in {comp.get('payload')}")
            continue
        pay_rets += 1
        fs = facts(r, gf.tree)
        def key_side(x):
            """The lookup key: the ack parameter, or a tuple laid out like the stored key tuple."""
            roles = comp.get("key_roles")
            if roles is None:
                return expand_path(gf.tree, x) == gpar
            x = origin(gf.tree, x)
            xe = _key_elems(repo, gf.fi.module, x)
            x = ast.Tuple(elts=xe, ctx=ast.Load()) if xe is not None else x
            return isinstance(x, ast.Tuple) and len(x.elts) == len(roles) and all(
                isinstance(e_, ast.Name) and e_.id in gf.params[1:] for e_ in x.elts) and \
                [("ack" if ap(e_) == gpar else "q") for e_ in x.elts] == [("ack" if r_ == "ack" else "q") for r_ in roles]
        def fieldwise(e):
            """(stored.queue, stored.ack) == (queue, ack): the same key compared field by field."""
            l_, r_ = origin(gf.tree, e.left), origin(gf.tree, e.comparators[0])
            if not (isinstance(l_, ast.Tuple) and isinstance(r_, ast.Tuple) and len(l_.elts) == len(r_.elts)):
                return False
            qf = comp.get("queue_fields", {})
            want = {comp.get("ack")} | set(qf.values())
            got = set()
            for a_, b_ in zip(l_.elts, r_.elts):
                for st_, pr_ in ((a_, b_), (b_, a_)):
                    pth = expand_path(gf.tree, st_)
                    if pth in want and isinstance(pr_, ast.Name) and pr_.id in gf.params[1:]:
                        got.add(pth)
            return got == want and len(l_.elts) == len(want)
        eq = [1 for e, pol in fs if isinstance(e, ast.Compare) and len(e.ops) == 1 and (
            (isinstance(e.ops[0], ast.Eq) and pol) or (isinstance(e.ops[0], ast.NotEq) and not pol)) and (
            fieldwise(e) or
            (expand_path(gf.tree, e.left) == comp.get("ack") and key_side(e.comparators[0])) or
            (expand_path(gf.tree, e.comparators[0]) == comp.get("ack") and key_side(e.left)))]
        ctx.ob("C17.R3", "get_cached_poll_response serves the cache exactly when the request's ack equals the cached ack",
               len(eq) == 1 and len(fs) == 1, gf.w(r),
               f"guard {[(norm(e), p) for e, p in fs]}: a repeated poll with the same ack (including the first, "
               f"undef ack) must be answered from the cache")
    ctx.ob("C17.R3", "get_cached_poll_response can return the cached payload", pay_rets >= 1, gf.fi.where)
    # acks are only meaningful within one queue (every queue starts with an undef ack): the cache is keyed by the queue too
    roles = comp.get("key_roles") or []
    cfi_ = repo.fn(f"{EQM}.cache_last_poll_response")
    gfi_ = repo.fn(f"{EQM}.get_cached_poll_response")
    qpar_c = [cf.params[int(r_[1:])] for r_ in roles if r_ != "ack"] or list(comp.get("queue_fields", {}))
    supplied = bool(qpar_c)
    for c in m.caches:
        supplied = supplied and all(q in bind_call(cfi_, c) for q in qpar_c)
    rq_ = Fn(ctx, "MITMProxyEventManager._handle_request")
    gcalls = find_calls(rq_.tree, "get_cached_poll_response", into_defs=False)
    qpar_g = [p_ for p_ in gf.params[1:] if p_ != gpar]
    for c in gcalls:
        supplied = supplied and bool(qpar_g) and all(q in bind_call(gfi_, c) for q in qpar_g)
    same_q = supplied and {norm(bind_call(cfi_, c)[q]).split(".")[-1] for c in m.caches for q in qpar_c} == \
        {norm(bind_call(gfi_, c)[q]).split(".")[-1] for c in gcalls for q in qpar_g}
    ctx.ob("C17.R3", "the replay cache is keyed by the event queue as well as by the ack", bool(supplied and same_q), cfi_.where,
           "the last response is remembered under the request's ack alone although one manager serves every EventQueueGet "
           "URL of its region and every queue starts with an undef ack: the first poll of a new queue is answered with the "
           "old queue's last response (events delivered twice, the poll never reaches the simulator)")

    # teardown: EventQueueManager.clear resets queue and cache; ProxiedRegion.mark_dead always reaches it
    Q = discover_queue_field(ctx)
    ec = Fn(ctx, f"{EQM}.clear")
    for field in [Q] + sorted(cache_attrs):
        rs = [n for s_ in stores(ec.tree, into_defs=False) if self_attr(s_.path) == field and s_.path.count(".") == 1
              and (s_.kind == "assign" or (s_.kind == "mutcall" and s_.method == "clear")) for n in ec.nodes(s_.node)]
        wit = must_pass(ec.cfg, rs)
        ctx.ob("C17.R3", f"{EQM}.clear resets {field} on every normal path", bool(rs) and wit is None, ec.fi.where,
               "state of the torn-down event queue leaks into the region's next queue", ec.describe(wit))
    pr = repo.cls("ProxiedRegion", REG)
    init = repo.lookup_method(pr, "__init__")
    ctx.require(init is not None, "ProxiedRegion.__init__ vanished")
    eq_attrs = {self_attr(s_.path) for s_ in stores(init.node, into_defs=False) if s_.kind == "assign"
                and isinstance(s_.value, ast.Call) and (ap(s_.value.func) or "").split(".")[-1] == EQM}
    eq_attrs.discard(None)
    ctx.require(len(eq_attrs) == 1, f"ProxiedRegion.__init__ no longer creates exactly one {EQM}")
    eqa = next(iter(eq_attrs))
    md = Fn(ctx, "ProxiedRegion.mark_dead")
    cl = [c for c in find_calls(md.tree, "clear", into_defs=False) if isinstance(c.func, ast.Attribute)
          and ap(c.func.value) == f"{md.params[0]}.{eqa}"]
    wit = must_pass(md.cfg, [n for c in cl for n in md.nodes(c)])
    # clear() also drains the injection queue: only teardown may call it
    def may_clear(g, depth=2):
        if g.qual == "ProxiedRegion.mark_dead":
            return True
        cs = [h for h, _ in fast_callers_of(repo, g.name) if h != g] if depth else []
        return bool(cs) and all(may_clear(h, depth - 1) for h in cs)
    for g, c in fast_callers_of(repo, "clear"):
        pth = ap(c.func.value) if isinstance(c.func, ast.Attribute) else None
        if pth and pth.split(".")[-1] == eqa and g.module.rel.startswith("hippolyzer/lib/"):
            ctx.ob("C17.R3", f"{eqa}.clear() called by {g.qual}", may_clear(g), ctx.w(g, c),
                   f"{EQM}.clear() throws away the pending injected events together with the replay cache; outside region "
                   f"teardown (ProxiedRegion.mark_dead) that loses events the proxy promised to deliver")
    ctx.ob("C17.R3", f"ProxiedRegion.mark_dead clears {eqa} on every normal path", bool(cl) and wit is None, md.fi.where,
           "a teardown path leaves the replay cache / injection queue of the dead event queue in place: it is replayed "
           "into (or delivered with) the region's next event queue", md.describe(wit))

    # request side
    rq = Fn(ctx, "MITMProxyEventManager._handle_request")
    gcs = find_calls(rq.tree, "get_cached_poll_response", into_defs=False)
    ctx.ob("C17.R3", "_handle_request consults the replay cache", len(gcs) == 1, rq.fi.where, f"found {len(gcs)}")
    for g in gcs:
        gb = bind_call(repo.fn("EventQueueManager.get_cached_poll_response"), g)
        a = next(iter(gb.values()), None)
        ctx.ob("C17.R3", "_handle_request looks the cache up by the request's ack", a is not None and ack_of_request(rq.tree, a),
               rq.w(g), f"lookup key {norm(a) if a is not None else None}")
        st = enclosing_stmt(g)
        cached = st.targets[0].id if isinstance(st, ast.Assign) and len(st.targets) == 1 and isinstance(st.targets[0], ast.Name) else None
        served = []
        for s in stores(rq.tree, into_defs=False):
            if s.kind == "assign" and s.path.endswith(".response") and isinstance(s.value, ast.Call):
                fx = [c for c in calls(s.value) if call_attr(c) == "format_xml" and c.args and ap(c.args[0]) == cached]
                if fx:
                    served.append(s)
        ctx.ob("C17.R3", "_handle_request answers from the cache with the cached payload", len(served) == 1 and cached is not None,
               rq.w(g), f"found {len(served)} response(s) built from {cached}")
        for s in served:
            rel = rel_facts(s.node, st, rq.tree)
            ok = len(rel) == 1 and ((isinstance(rel[0][0], ast.Name) and rel[0][0].id == cached and rel[0][1]) or
                                    (is_none_test(rel[0][0]) is not None and is_none_test(rel[0][0])[0] == cached
                                     and is_none_test(rel[0][0])[1] != rel[0][1]))
            ctx.ob("C17.R3", "_handle_request serves every cached payload", ok, rq.w(s.node),
                   f"conditions {[(norm(e), p) for e, p in rel]}")
            code = s.value.args[0] if s.value.args else None
            ctx.ob("C17.R3", "_handle_request replays with status 200", isinstance(code, ast.Constant) and code.value == 200,
                   rq.w(s.node))


# --------------------------------------------------------------------------- R4

def r4(ctx):
    repo = ctx.repo
    ctx.rule("C17.R4", "region registration: register_region in _handle_eq_event is guarded by an extracted address; "
                       "BaseClientSession.register_region appends only after the search found no region with that address")
    eq = Fn(ctx, "MITMProxyEventManager._handle_eq_event")
    rr = repo.fn("BaseClientSession.register_region")
    cs = find_calls(eq.tree, "register_region", into_defs=False)
    ctx.floor("C17.R4", "register_region calls in _handle_eq_event", len(cs), 1)
    if len(cs) > 1:
        ctx.note(f"C17.R4: {len(cs)} register_region call sites in _handle_eq_event (registration is idempotent by "
                 f"circuit address, so this is not armed)")
    for c in cs:
        a = bind_call(rr, c).get("circuit_addr")
        ok = False
        pa = ap(a) if a is not None else None
        if pa:      # the address itself, or the announcement record it is a field of, is known to be set
            prefixes = {".".join(pa.split(".")[:i]) for i in range(1, len(pa.split(".")) + 1)}
            for e, pol in facts(c, eq.tree):
                t = is_none_test(e)
                if (t and t[0] in prefixes and t[1] != pol) or (ap(e) in prefixes and isinstance(e, (ast.Name, ast.Attribute)) and pol):
                    ok = True
        ctx.ob("C17.R4", f"_handle_eq_event: {norm(c.func)}(...) only when an address was extracted", ok, eq.w(c),
               f"circuit address argument {norm(a) if a is not None else None} not known to be set: register_region "
               f"raises for ordinary events and aborts the whole response rewrite")
        gifs = [x for x in ancestors(c) if isinstance(x, ast.If)]
        gnodes = eq.cfg.nodes_for(gifs[0]) if gifs else eq.nodes(c)
        wit = must_pass(eq.cfg, gnodes)
        ctx.ob("C17.R4", "_handle_eq_event: every event reaches the region registration, swallowed or not", wit is None,
               eq.w(c), "an event an addon swallows returns before the registration: when the addon re-injects it "
                        "(injected events are not handled again) the viewer learns of a region the proxy never registered",
               eq.describe(wit))
        ctx.ob("C17.R4", "_handle_eq_event: register_region not in a loop",
               not any(isinstance(x, (ast.For, ast.While)) for x in ancestors(c)), eq.w(c))
    # D121 (recorded): events the proxy injects are merged without being offered to the registration
    resp = Fn(ctx, "MITMProxyEventManager._handle_response")
    takes = find_calls(resp.tree, "take_injected_events", into_defs=False)
    reg_names = {"register_region", "_handle_eq_event"} | {
        g.name for g in repo.cls("MITMProxyEventManager", HEM).methods.values()
        if any(call_attr(x) == "register_region" for x in calls(g.node))}
    offered = False
    for t in takes:
        o = enclosing_stmt(t)
        names = set()
        if isinstance(o, ast.Assign) and isinstance(o.targets[0], ast.Name):
            names.add(o.targets[0].id)
        for lp in [x for x in walk(resp.tree) if isinstance(x, ast.For)]:
            src_ = origin(resp.tree, lp.iter)
            if src_ is t or (isinstance(lp.iter, ast.Name) and lp.iter.id in names) or any(y is t for y in ast.walk(lp.iter)):
                if any(call_attr(x) in reg_names and any(ap(a_) == ap(lp.target) for a_ in list(x.args) + [k.value for k in x.keywords])
                       for x in calls(lp)):
                    offered = True
    ctx.ob("C17.R4", "MITMProxyEventManager._handle_response: injected events reach the region registration", offered,
           resp.fi.where, "events taken from the injection queue are merged into the response without being offered to the "
                          "region registration: a region-announcing event the proxy itself injects reaches the viewer while "
                          "the proxy never registers the region")
    _r4_template_agreement(ctx, eq)
    # BaseClientSession.register_region (the search loop may live in a helper the function calls)
    f = Fn(ctx, "BaseClientSession.register_region")
    addr = f.params[1] if len(f.params) > 1 else None
    apps = [c for c in find_calls(f.tree, "append", into_defs=False) if isinstance(c.func, ast.Attribute)
            and (ap(c.func.value) or "").endswith(".regions")]
    ctx.floor("C17.R4", "regions.append in register_region", len(apps), 1)
    cands = [(f, addr, None)]
    selfname = f.params[0] if f.params else "self"
    for c in calls(f.tree):
        if isinstance(c.func, ast.Attribute) and isinstance(c.func.value, ast.Name) and c.func.value.id == selfname \
                and f.fi.cls is not None:
            h = repo.lookup_method(f.fi.cls, c.func.attr)
            if h is None or h == f.fi:
                continue
            for pname, e in bind_call(h, c).items():
                if ap(e) == addr and not pname.startswith("#"):
                    cands.append((Fn(ctx, h.qual, h.module.rel), pname, c))
    found = []
    for cf, a_name, via in cands:
        for lp in [n for n in walk(cf.tree) if isinstance(n, ast.For) and (ap(strip_copy(n.iter)[0]) or "").endswith(".regions")]:
            v = ap(lp.target)
            for cmp_ in [x for x in walk(lp) if isinstance(x, ast.Compare) and len(x.ops) == 1 and isinstance(x.ops[0], ast.Eq)]:
                if {ap(cmp_.left), ap(cmp_.comparators[0])} == {f"{v}.circuit_addr", a_name}:
                    found.append((cf, lp, cmp_, via))
    gfound = []
    for cf, a_name, via in cands:
        for g in [n for n in walk(cf.tree) if isinstance(n, (ast.GeneratorExp, ast.ListComp))]:
            if len(g.generators) != 1 or not (ap(strip_copy(g.generators[0].iter)[0]) or "").endswith(".regions"):
                continue
            gen = g.generators[0]
            v = ap(gen.target)
            for cmp_ in [x for i in gen.ifs for x in walk(i) if isinstance(x, ast.Compare) and len(x.ops) == 1
                         and isinstance(x.ops[0], ast.Eq)]:
                if {ap(cmp_.left), ap(cmp_.comparators[0])} == {f"{v}.circuit_addr", a_name}:
                    gfound.append((cf, g, gen, cmp_, via))
    ctx.ob("C17.R4", "register_region searches session.regions by circuit address", len(found) + len(gfound) >= 1, f.fi.where,
           "no loop over <session>.regions comparing <region>.circuit_addr with the announced address in "
           "register_region or a helper it passes the address to")
    for cf, lp, cmp_, via in found:
        heads = set(cf.cfg.nodes_for(lp))
        ifs = [a for a in ancestors(cmp_) if isinstance(a, ast.If)]
        test_if = ifs[0] if ifs else None
        flag = None
        if test_if is None:  # comparison hoisted into a local flag that is tested afterwards
            st_ = enclosing_stmt(cmp_)
            if isinstance(st_, ast.Assign) and len(st_.targets) == 1 and isinstance(st_.targets[0], ast.Name) \
                    and st_.value is cmp_ and single_def(cf.tree, st_.targets[0].id) is cmp_:
                flag = st_.targets[0].id
                test_if = next((x for x in walk(lp) if isinstance(x, ast.If) and any(
                    isinstance(e, ast.Name) and e.id == flag and p for e, p in atoms(x.test, True))), None)

        def is_match(e, cmp_=cmp_, flag=flag):
            return e is cmp_ or (flag is not None and isinstance(e, ast.Name) and e.id == flag)
        if test_if is not None:
            pre = facts(test_if, lp) + (facts(enclosing_stmt(cmp_), lp) if flag else [])
            conj = [e for e, p in atoms(test_if.test, True) if not is_match(e)]
            ctx.ob("C17.R4", "register_region: every region with the announced circuit address ends the search",
                   not pre and not conj, cf.w(cmp_),
                   f"the address match is subject to further conditions "
                   f"{[norm(e) for e, _ in pre] + [norm(e) for e in conj]}: a region that is skipped although its "
                   f"address matches gets a duplicate appended")
        matched = test_if is not None and any(p for e, p in atoms(test_if.test, True) if is_match(e))
        firsts = cf.cfg.nodes_for(test_if.body[0]) if matched else []
        for c in apps:
            an = set(f.nodes(c))
            if via is None:
                dom = normal_path(f.cfg, [f.cfg.entry], lambda n: n in an, lambda n: n in heads)
                back = normal_path(f.cfg, list(an), lambda n: n in heads)
                ok = matched and normal_path(f.cfg, firsts, lambda n: n in an, include_start=True) is None
                why = "the match branch can fall through to regions.append"
            else:
                vn = set(f.nodes(via))
                dom = normal_path(f.cfg, [f.cfg.entry], lambda n: n in an, lambda n: n in vn)
                back = normal_path(f.cfg, list(an), lambda n: n in vn)
                ok, why = _found_prevents_append(cf, lp, firsts, matched, f, via, c)
            ctx.ob("C17.R4", "register_region appends only after the search loop", dom is None and back is None, f.w(c),
                   "a region is appended before / while the existing regions are searched: a second announcement "
                   "creates a duplicate", f.describe(dom or back))
            ctx.ob("C17.R4", "register_region never appends once a region with the address was found", bool(ok), cf.w(cmp_), why)
    for cf, g, gen, cmp_, via in gfound:
        # next((r for r in regions if <addr match> or ...), None): the first matching region is the result
        call = parent(g)
        is_next = isinstance(call, ast.Call) and ap(call.func) == "next" and call.args and call.args[0] is g \
            and len(call.args) == 2 and isinstance(call.args[1], ast.Constant) and call.args[1].value is None \
            and ap(g.elt) == ap(gen.target)
        disj = [e for i in gen.ifs for e, _ in atoms(i, False)]
        plain = len(gen.ifs) == 1 and any(e is cmp_ for e in disj)
        ctx.ob("C17.R4", "register_region: every region with the announced circuit address ends the search",
               bool(is_next and plain), cf.w(cmp_),
               f"the search {norm(g)[:120]} does not yield every region whose address matches (extra conjunct on the "
               f"match, or not a first-match `next(..., None)`): a skipped match gets a duplicate appended")
        # bind the result
        var, bind_node_fn, bind_nodes = None, f, []
        if is_next:
            st = enclosing_stmt(call)
            if via is None:
                if isinstance(st, ast.Assign) and len(st.targets) == 1 and isinstance(st.targets[0], ast.Name) and st.value is call:
                    var, bind_nodes = st.targets[0].id, f.nodes(st)
            else:
                rets = [r for r in walk(cf.tree) if isinstance(r, ast.Return)]
                if len(rets) == 1 and rets[0].value is not None and origin(cf.tree, rets[0].value) is call:
                    vst = enclosing_stmt(via)
                    if isinstance(vst, ast.Assign) and len(vst.targets) == 1 and isinstance(vst.targets[0], ast.Name):
                        var, bind_nodes = vst.targets[0].id, f.nodes(vst)
        for c in apps:
            an = set(f.nodes(c))
            bn = set(bind_nodes)
            dom = normal_path(f.cfg, [f.cfg.entry], lambda n: n in an, lambda n: n in bn) if bn else ["unbound"]
            back = normal_path(f.cfg, list(an), lambda n: n in bn) if bn else None
            ctx.ob("C17.R4", "register_region appends only after the search loop", bool(bn) and dom is None and back is None,
                   f.w(c), "a region is appended before / while the existing regions are searched",
                   f.describe(dom) if bn and dom else None)
            guarded = False
            if var is not None:
                for e, pol in facts(c, f.tree):
                    t = is_none_test(e)
                    if (t and t[0] == var and t[1] == pol) or (isinstance(e, ast.Name) and e.id == var and not pol):
                        guarded = True
            ctx.ob("C17.R4", "register_region never appends once a region with the address was found", guarded, cf.w(cmp_),
                   f"regions.append is not guarded by `{var} is None`: a found region does not prevent the append")
    # who adds to session.regions
    adders = {}
    for g, st in fast_writers_of(repo, "regions"):
        if not g.module.rel.startswith("hippolyzer/lib/"):
            continue
        if (st.kind == "mutcall" and st.method in ("append", "insert", "extend", "appendleft")) or st.kind == "augassign":
            adders.setdefault(g.qual, (g, st))
    for q, (g, st) in sorted(adders.items()):
        ctx.ob("C17.R4", f"session.regions grown by {q}", q in REGION_ADDERS, ctx.w(g, st.node),
               "regions are added outside register_region (no duplicate search)")
    # who removes from / rebinds session.regions
    base = repo.cls("BaseClientSession", STATE)
    removers = {}
    for g, st in fast_writers_of(repo, "regions"):
        if not g.module.rel.startswith("hippolyzer/lib/"):
            continue
        on_session = (st.path == "self.regions" and g.cls is not None and any(k == base for k in repo.mro(g.cls))) \
            or st.path.endswith("session.regions") or st.path.endswith("session().regions")
        if not on_session:
            continue
        shrink = st.kind in ("delitem", "del", "setitem", "augsetitem") or \
            (st.kind == "mutcall" and st.method in ("pop", "remove", "clear")) or \
            (st.kind == "assign" and g.name != "__init__")
        if shrink:
            removers.setdefault(g.qual, (g, st))
    for q, (g, st) in sorted(removers.items()):
        ctx.ob("C17.R4", f"session.regions shrunk / rebound by {q}", q in REGION_REMOVERS, ctx.w(g, st.node),
               f"{norm(st.node)}: regions leave the session outside the explicit unregistration "
               f"({sorted(REGION_REMOVERS)}); a region that was just (re-)announced can be dropped again")
    hooked = fast_callers_of(repo, "handle_region_registered")
    for g, c in hooked:
        if g.qual == "Session.register_region":
            ctx.note("C17.R4: Session.register_region fires AddonManager.handle_region_registered on every call, also "
                     "when the region already existed (session.regions itself is unaffected)")


def _block_choice(msgvar: str, e) -> Optional[List[str]]:
    """Block names tried in order by `M[B]` / `M.get_block(B, <fallback>)`; None for other shapes."""
    if e is None or (isinstance(e, ast.Constant) and e.value is None):
        return []
    if isinstance(e, ast.Subscript) and ap(e.value) == msgvar and isinstance(e.slice, ast.Constant) \
            and isinstance(e.slice.value, str):
        return [e.slice.value]
    if isinstance(e, ast.Call) and call_attr(e) == "get_block" and isinstance(e.func, ast.Attribute) \
            and ap(e.func.value) == msgvar and e.args and isinstance(e.args[0], ast.Constant):
        rest = _block_choice(msgvar, e.args[1]) if len(e.args) > 1 else []
        return None if rest is None else [e.args[0].value] + rest
    return None


def _r4_template_agreement(ctx, eq: "Fn"):
    """Fields read from a templated region-announcing message exist in the block the code selects, for
    every message name of the branch (message_template.msg is the oracle)."""
    from ..tmplmodel import parse_template
    tmpl = parse_template(ctx.repo.root, ctx.repo.overlay)
    from .common import class_methods_reachable
    n = 0
    sites = [(g, x) for g in class_methods_reachable(ctx.repo, eq.fi, depth=2) for x in walk(g.node) if isinstance(x, ast.If)]
    for g, st in sites:
        names, msgvar = set(), None
        for e, pol in atoms(st.test, True):
            if not (pol and isinstance(e, ast.Compare) and len(e.ops) == 1 and (ap(e.left) or "").endswith(".name")):
                continue
            c0 = e.comparators[0]
            if isinstance(e.ops[0], ast.Eq) and isinstance(c0, ast.Constant) and isinstance(c0.value, str):
                names.add(c0.value)
            elif isinstance(e.ops[0], ast.In) and isinstance(c0, (ast.Tuple, ast.List, ast.Set)):
                names |= {x.value for x in c0.elts if isinstance(x, ast.Constant) and isinstance(x.value, str)}
            else:
                continue
            msgvar = ap(e.left)[:-len(".name")]
        names = {x for x in names if x in tmpl}
        if not names or msgvar is None:
            continue
        body = ast.Module(body=st.body, type_ignores=[])
        for s_ in stores(body, into_defs=False):
            if s_.kind != "assign" or "." in s_.path or not isinstance(s_.value, ast.Subscript):
                continue
            choice = _block_choice(msgvar, s_.value.value)
            if choice is None:
                continue
            keys = sorted({x.slice.value for x in walk(body) if isinstance(x, ast.Subscript) and ap(x.value) == s_.path
                           and isinstance(x.slice, ast.Constant) and isinstance(x.slice.value, str)})
            for name in sorted(names):
                tm = tmpl[name]
                chosen = next((b for b in choice if tm.block(b) is not None), None)
                missing = [k for k in keys if chosen is None or tm.block(chosen).var(k) is None]
                n += 1
                ctx.ob("C17.R4", f"{g.name}: {name}: fields {keys} exist in the block selected for {s_.path}",
                       chosen is not None and not missing, ctx.w(g, s_.node),
                       f"{norm(s_.value)} selects block {chosen!r} of {name} (blocks tried in order {choice}), which has no "
                       f"{missing}: the lookup raises, the region is never registered and the response rewrite is aborted")
    ctx.floor("C17.R4", "template-checked block reads in _handle_eq_event", n, 2)


def _found_prevents_append(hf: "Fn", lp, firsts, matched, f: "Fn", via, app_call):
    """Search loop in helper hf: the match branch returns the found region (alone or as a tuple component),
    the caller binds that component and appends only when it is None."""
    if not matched:
        return False, "the address comparison does not guard a branch of the search loop"
    v = ap(lp.target)
    good, idxs = set(), set()
    for r in [n for n in walk(hf.tree) if isinstance(n, ast.Return) and n.value is not None]:
        if isinstance(r.value, ast.Name) and r.value.id == v:
            good |= set(hf.nodes(r))
            idxs.add(None)
        elif isinstance(r.value, ast.Tuple):
            for i, e in enumerate(r.value.elts):
                if isinstance(e, ast.Name) and e.id == v:
                    good |= set(hf.nodes(r))
                    idxs.add(i)
    if len(idxs) != 1:
        return False, f"helper {hf.fi.qual} does not return the found region in one fixed position"
    idx = next(iter(idxs))
    heads = set(hf.cfg.nodes_for(lp))
    leak = normal_path(hf.cfg, firsts, lambda n: n in heads or n is hf.cfg.exit, lambda n: n in good, include_start=True)
    if leak is not None:
        return False, f"in {hf.fi.qual} a region with the announced address does not always end the search with a " \
                      f"return of that region: {hf.describe(leak)}"
    st = enclosing_stmt(via)
    var = None
    if isinstance(st, ast.Assign) and len(st.targets) == 1:
        t = st.targets[0]
        if idx is None and isinstance(t, ast.Name):
            var = t.id
        elif idx is not None and isinstance(t, (ast.Tuple, ast.List)) and idx < len(t.elts) and isinstance(t.elts[idx], ast.Name):
            var = t.elts[idx].id
    if var is None:
        return False, f"result of {hf.fi.qual} is not bound to a name the append could be guarded by"
    for e, pol in facts(app_call, f.tree):
        t = is_none_test(e)
        if (t and t[0] == var and t[1] == pol) or (isinstance(e, ast.Name) and e.id == var and not pol):
            return True, ""
    return False, f"regions.append is not guarded by `{var} is None`: a found region does not prevent the append"


def run(ctx):
    m = RespModel(ctx)
    r1(ctx, m)
    r1_llsd_binding(ctx)
    r2(ctx, m)
    r3(ctx, m)
    r4(ctx)
    ctx.assume("exactly-once delivery over poll histories with lost responses is not decided; mitmproxy's own "
               "handling of the rewritten flow is trusted")
