"""C18 - message log: filter grammar / evaluator agreement, boolean nodes, error discipline,
view ownership, export/import key agreement (DESIGN.md §4 C18)."""
from __future__ import annotations

import ast
from typing import Any, Dict, List, Optional, Tuple

from ..cfg import CFG
from ..consteval import CallVal, ConstEval, Sym
from ..core import (AnalysisError, ap, atoms, call_attr, calls, enclosing_stmt, facts, find_calls, handler_names,
                    norm, parent, ancestors, src, stores, try_contexts, walk, CATCH_ALL, FUNC_TYPES)
from ..miniinterp import run_block
from .common import returns_of, top_fn, writers_of, callers_of

FILT = "hippolyzer/lib/proxy/message_filter.py"
LOGR = "hippolyzer/lib/proxy/message_logger.py"
MSG = "hippolyzer/lib/base/message/message.py"


# --------------------------------------------------------------------------- grammar model

def grammar_rules(ctx) -> Dict[str, Tuple[Any, ast.AST]]:
    """PEG rule functions reachable from the start rule handed to ParserPython: name -> (fn, return expr)."""
    repo = ctx.repo
    mod = repo.module(FILT)
    cf = repo.fn("compile_filter", FILT)
    # the parser may be built in a same-module helper that compile_filter runs (parse_filter(), ...)
    from .common import module_funcs_reachable
    roots = []
    for g in module_funcs_reachable(repo, cf, depth=3):
        for c in find_calls(g.node, "ParserPython"):
            if not any(c is x for x in roots):
                roots.append(c)
                cf = g if len(roots) == 1 else cf
    ctx.require(len(roots) == 1 and roots[0].args and isinstance(roots[0].args[0], ast.Name),
                "compile_filter (and the helpers it calls) no longer build one ParserPython(<start rule>)")
    out: Dict[str, Tuple[Any, ast.AST]] = {}
    cur_mod: Dict[str, Any] = {}     # rule name -> module in which the reference to it was seen
    mod = cf.module
    work = [roots[0].args[0].id]
    while work:
        name = work.pop()
        if name in out:
            continue
        top = [f for f in repo.funcs.get(name, []) if f.cls is None and f.parent_fn is None]
        home = cur_mod.get(name, mod)
        cands = [f for f in top if f.module is home]
        if not cands:
            # a rule function imported from another repo module (explicit import or star import)
            tgt = home.imports.get(name)
            if tgt:
                m2 = repo.by_modname.get(tgt.rpartition(".")[0])
                cands = [f for f in top if m2 is not None and f.module is m2 and f.name == tgt.rpartition(".")[2]]
            else:
                stars = [repo.by_modname.get(st_) for st_ in home.star_imports]
                cands = [f for f in top if any(f.module is m2 for m2 in stars if m2 is not None)]
        if not cands:
            continue  # arpeggio combinator (Optional, ZeroOrMore, RegExMatch, EOF ...)
        rets = returns_of(cands[0].node)
        ctx.require(len(rets) == 1 and rets[0].value is not None, f"grammar rule {name} is not a single return expression")
        out[name] = (cands[0], rets[0].value)
        for n in ast.walk(rets[0].value):
            if isinstance(n, ast.Name):
                work.append(n.id)
                cur_mod.setdefault(n.id, cands[0].module)
    return out


_CHOICE_CACHE: Dict[int, ast.List] = {}


def choice_lists(expr: ast.AST, repo=None, mod=None) -> List[ast.List]:
    """arpeggio: a python list is an ordered choice (a tuple is a sequence).  `list(CONST)` / a name bound to a
    module-level list/tuple literal is resolved to the literal's elements (the synthesized list remembers the
    expression it stands for in `_origin`)."""
    out = []
    for n in ast.walk(expr):
        if isinstance(n, ast.List):
            out.append(n)
        elif repo is not None and isinstance(n, ast.Call) and isinstance(n.func, ast.Name) and n.func.id == "list" and \
                len(n.args) == 1 and isinstance(n.args[0], ast.Name):
            v = repo.module_assign(mod, n.args[0].id)
            if isinstance(v, (ast.Tuple, ast.List)):
                if id(n) not in _CHOICE_CACHE:
                    syn = ast.List(elts=list(v.elts), ctx=ast.Load())
                    ast.copy_location(syn, n)
                    syn._origin = n  # type: ignore[attr-defined]
                    _CHOICE_CACHE[id(n)] = syn
                out.append(_CHOICE_CACHE[id(n)])
    return out


def str_elts(lst: ast.List) -> List[Tuple[int, str]]:
    return [(i, e.value) for i, e in enumerate(lst.elts) if isinstance(e, ast.Constant) and isinstance(e.value, str)]


def operator_choice(ctx, rules, rule_name: str) -> Tuple[Any, ast.List]:
    ctx.require(rule_name in rules, f"grammar rule {rule_name} is no longer reachable from the start rule")
    f, expr = rules[rule_name]
    lists = [l for l in choice_lists(expr, ctx.repo, f.module) if str_elts(l)]
    ctx.require(len(lists) == 1, f"grammar rule {rule_name}: expected exactly one literal choice list, found {len(lists)}")
    return f, lists[0]


def r1(ctx, rules):
    ctx.rule("C18.R1", "PEG ordered choice: no earlier string alternative is a proper prefix of a later one "
                       "(the later alternative could never match)")
    n = 0
    for name, (f, expr) in sorted(rules.items()):
        for lst in choice_lists(expr, ctx.repo, f.module):
            lits = str_elts(lst)
            for j, lit in lits:
                shadow = [e for i, e in lits if i < j and lit.startswith(e) and e != lit]
                n += 1
                ctx.ob("C18.R1", f"{name}: alternative {lit!r} reachable", not shadow, ctx.w(f, lst),
                       f"earlier alternative {shadow[0]!r} is a prefix: ordered choice commits to it and "
                       f"{lit!r} never matches" if shadow else "")
    ctx.floor("C18.R1", "string alternatives in ordered choices", n, 12)


# --------------------------------------------------------------------------- R2 operator tables

# what each comparison token denotes (the filter language's definition)
OP_SEMANTICS = {
    "==": ("cmp", ast.Eq), "!=": ("cmp", ast.NotEq), "<": ("cmp", ast.Lt), "<=": ("cmp", ast.LtE),
    ">": ("cmp", ast.Gt), ">=": ("cmp", ast.GtE), "&": ("bin", ast.BitAnd),
    "^=": ("meth", "startswith"), "$=": ("meth", "endswith"), "~=": ("contains", None),
}
MIRROR = {ast.Lt: ast.Gt, ast.Gt: ast.Lt, ast.LtE: ast.GtE, ast.GtE: ast.LtE, ast.Eq: ast.Eq, ast.NotEq: ast.NotEq}
BOOL_TOKENS = {"&&": "AndFilterNode", "||": "OrFilterNode"}


def _eq_literal_facts(node, stop):
    """[(lhs source, literal, holds)] for dominating `X == "lit"` / `X != "lit"` facts."""
    out = []
    for e, pol in facts(node, stop):
        if isinstance(e, ast.Compare) and len(e.ops) == 1 and isinstance(e.ops[0], (ast.Eq, ast.NotEq)):
            l, r = e.left, e.comparators[0]
            if isinstance(l, ast.Constant):
                l, r = r, l
            if isinstance(r, ast.Constant) and isinstance(r.value, str):
                holds = pol if isinstance(e.ops[0], ast.Eq) else not pol
                out.append((norm(l), r.value, holds))
    return out


class OpBranch:
    """One operator's evaluation code: an if/elif branch of _val_matches or a row of a dispatch table."""

    def __init__(self, lit, fi, node, body, val, exp, host=None, site=None):
        self.lit = lit          # operator token
        self.fi = fi            # function whose module holds `node` (for file:line)
        self.node = node        # the If / the table row value
        self.body = body        # statements whose returns are the branch's result
        self.val = val          # name of the field value inside body
        self.exp = exp          # name of the expected value inside body
        self.host = host        # FuncInfo when the body is another function's body
        self.site = site        # call in _val_matches through which the row runs (None for if-branches)


# operator-module functions: name -> (kind, ast op); operator.f(a, b) applies the op to (a, b)
STD_OPERATOR = {"eq": ast.Eq, "ne": ast.NotEq, "lt": ast.Lt, "le": ast.LtE, "gt": ast.Gt, "ge": ast.GtE,
                "is_": ast.Is, "is_not": ast.IsNot}
STD_OPERATOR_BIN = {"and_": ast.BitAnd, "or_": ast.BitOr, "xor": ast.BitXor, "add": ast.Add, "sub": ast.Sub,
                    "mod": ast.Mod, "mul": ast.Mult}


def _table_dict(repo, fi, e) -> Optional[ast.Dict]:
    """Dict literal a table expression (NAME / self.NAME / cls.NAME / Class.NAME) is bound to."""
    v = None
    if isinstance(e, ast.Name):
        v = repo.module_assign(fi.module, e.id)
    elif isinstance(e, ast.Attribute) and isinstance(e.value, ast.Name):
        if e.value.id in ("self", "cls") and fi.cls is not None:
            v = repo.class_attr(fi.cls, e.attr)
        else:
            ci = repo.resolve_class(e.value.id, fi.module)
            if ci is not None:
                v = repo.class_attr(ci, e.attr)
    return v if isinstance(v, ast.Dict) else None


def _lookup_of(repo, fi, e) -> Optional[Tuple[ast.Dict, ast.AST]]:
    """e is `TABLE[key]` or `TABLE.get(key, ...)` on a dict-literal table -> (table, key expr)."""
    if isinstance(e, ast.Subscript) and not isinstance(e.slice, ast.Slice):
        d = _table_dict(repo, fi, e.value)
        if d is not None:
            return d, e.slice
    if isinstance(e, ast.Call) and isinstance(e.func, ast.Attribute) and e.func.attr == "get" and e.args:
        d = _table_dict(repo, fi, e.func.value)
        if d is not None:
            return d, e.args[0]
    return None


def resolve_dispatch(repo, fi, call: ast.Call) -> Optional[Tuple[ast.Dict, ast.AST]]:
    """A call whose callee comes out of a dict-literal dispatch table, directly (`T[k](...)`) or through a
    local (`fn = T.get(k) ...; fn(...)`) -> (table, key expr)."""
    f = call.func
    hit = _lookup_of(repo, fi, f)
    if hit:
        return hit
    if isinstance(f, ast.Name):
        found = []
        for st in stores(top_fn(fi).node if fi.parent_fn else fi.node):
            if st.path == f.id and st.kind == "assign" and st.value is not None:
                for n in ast.walk(st.value):
                    h = _lookup_of(repo, fi, n)
                    if h:
                        found.append(h)
        if len(found) == 1:
            return found[0]
    return None


def _row_code(repo, fi, v, args_names: List[Optional[str]], val_p, exp_p):
    """Code of one table row called as row(*args): (body stmts, val name, exp name, host FuncInfo|None)."""
    def pick(params):
        m = {}
        for pname, aname in zip(params, args_names):
            if aname == val_p:
                m["val"] = pname
            elif aname == exp_p:
                m["exp"] = pname
        if set(m) != {"val", "exp"}:
            raise AnalysisError("dispatch call does not pass (val, expected) positionally")
        return m["val"], m["exp"]
    if isinstance(v, ast.Lambda):
        val, exp = pick([a.arg for a in v.args.args])
        ret = ast.Return(value=v.body)
        ret._parent = v  # type: ignore[attr-defined]
        ast.copy_location(ret, v)
        return [ret], val, exp, None
    if isinstance(v, ast.Name):
        cands = [g for g in repo.funcs.get(v.id, []) if g.module is fi.module and g.cls is None and g.parent_fn is None]
        if len(cands) == 1:
            val, exp = pick([a.arg for a in cands[0].node.args.args])
            return cands[0].node.body, val, exp, cands[0]
    # operator.<fn> (module alias) or a name imported from operator
    target = None
    if isinstance(v, ast.Attribute) and isinstance(v.value, ast.Name) and fi.module.imports.get(v.value.id) == "operator":
        target = v.attr
    elif isinstance(v, ast.Name) and fi.module.imports.get(v.id, "").startswith("operator."):
        target = fi.module.imports[v.id].split(".", 1)[1]
    if target is not None:
        a0, a1 = ast.Name(id="a", ctx=ast.Load()), ast.Name(id="b", ctx=ast.Load())
        val, exp = pick(["a", "b"])
        if target in STD_OPERATOR:
            expr = ast.Compare(left=a0, ops=[STD_OPERATOR[target]()], comparators=[a1])
        elif target in STD_OPERATOR_BIN:
            expr = ast.BinOp(left=a0, op=STD_OPERATOR_BIN[target](), right=a1)
        elif target == "contains":
            expr = ast.Compare(left=a1, ops=[ast.In()], comparators=[a0])
        else:
            raise AnalysisError(f"dispatch row uses operator.{target}, which the checker has no model for")
        ret = ast.Return(value=expr)
        for n in ast.walk(ret):
            ast.copy_location(n, v)
            for ch in ast.iter_child_nodes(n):
                ch._parent = n  # type: ignore[attr-defined]
        ret._parent = v  # type: ignore[attr-defined]
        return [ret], val, exp, None
    raise AnalysisError(f"unsupported dispatch table row `{norm(v)}`")


def val_matches_branches(ctx):
    """operator literal -> [OpBranch]: if/elif branches testing `<operator param> == literal` and rows of
    dict-literal dispatch tables indexed by the operator parameter."""
    repo = ctx.repo
    f = repo.fn("AbstractMessageLogEntry._val_matches")
    params = [a.arg for a in f.node.args.args]
    ctx.require(len(params) >= 4, "_val_matches signature changed (self, operator, val, expected)")
    op_p, val_p, exp_p = params[1], params[2], params[3]
    branches: Dict[str, List[OpBranch]] = {}
    for n in walk(f.node):
        if isinstance(n, ast.If):
            for e, pol in atoms(n.test, True):
                if pol and isinstance(e, ast.Compare) and len(e.ops) == 1 and isinstance(e.ops[0], ast.Eq):
                    l, r = e.left, e.comparators[0]
                    if isinstance(l, ast.Constant):
                        l, r = r, l
                    if isinstance(l, ast.Name) and l.id == op_p and isinstance(r, ast.Constant) and isinstance(r.value, str):
                        branches.setdefault(r.value, []).append(OpBranch(r.value, f, n, n.body, val_p, exp_p))
        elif isinstance(n, ast.Call):
            hit = resolve_dispatch(repo, f, n)
            if hit is None:
                continue
            table, key = hit
            if not (isinstance(key, ast.Name) and key.id == op_p):
                continue
            args_names = [a.id if isinstance(a, ast.Name) else None for a in n.args]
            for k, v in zip(table.keys, table.values):
                if not (isinstance(k, ast.Constant) and isinstance(k.value, str)):
                    raise AnalysisError(f"operator dispatch table has a non-literal key `{norm(k) if k else '**'}`")
                body, val, exp, host = _row_code(repo, f, v, args_names, val_p, exp_p)
                branches.setdefault(k.value, []).append(OpBranch(k.value, host or f, v, body, val, exp, host, n))
    return f, (op_p, val_p, exp_p), branches


def _branch_matches_semantics(body: List[ast.stmt], lit: str, val_p: str, exp_p: str) -> Optional[bool]:
    """Do the non-constant return values of the branch apply the operation the token denotes to
    (val, expected)?  None when the token is not in the table."""
    if lit not in OP_SEMANTICS:
        return None
    kind, what = OP_SEMANTICS[lit]
    rets = [r.value for st in body for r in walk(st) if isinstance(r, ast.Return) and r.value is not None
            and not isinstance(r.value, ast.Constant)]
    if not rets:
        return False

    def is_(n, name):
        return isinstance(n, ast.Name) and n.id == name

    def good(e) -> bool:
        # allow bool(...) wrapping
        if isinstance(e, ast.Call) and ap(e.func) == "bool" and len(e.args) == 1:
            return good(e.args[0])
        if kind == "cmp":
            if isinstance(e, ast.UnaryOp) and isinstance(e.op, ast.Not) and what in (ast.Eq, ast.NotEq):
                # not (a == b)  <=>  a != b   (only for equality: orderings may be partial)
                inner = e.operand
                if isinstance(inner, ast.Compare) and len(inner.ops) == 1 and \
                        {ap(inner.left), ap(inner.comparators[0])} == {val_p, exp_p}:
                    return type(inner.ops[0]) is (ast.NotEq if what is ast.Eq else ast.Eq)
                return False
            if isinstance(e, ast.Compare) and len(e.ops) == 1:
                l, r, op = e.left, e.comparators[0], type(e.ops[0])
                if is_(l, val_p) and is_(r, exp_p):
                    return op is what
                if is_(l, exp_p) and is_(r, val_p):
                    return MIRROR.get(op) is what
            return False
        if kind == "bin":
            return isinstance(e, ast.BinOp) and isinstance(e.op, what) and \
                {ap(e.left), ap(e.right)} == {val_p, exp_p}
        if kind == "meth":
            return isinstance(e, ast.Call) and isinstance(e.func, ast.Attribute) and e.func.attr == what and \
                is_(e.func.value, val_p) and len(e.args) == 1 and is_(e.args[0], exp_p)
        if kind == "contains":
            return isinstance(e, ast.Compare) and len(e.ops) == 1 and isinstance(e.ops[0], ast.In) and \
                is_(e.left, exp_p) and is_(e.comparators[0], val_p)
        return False
    return all(good(e) for e in rets)


def _built_classes(repo, fi, lit: str) -> set:
    """Filter-node classes the visitor method instantiates for operator token `lit`:
    (a) `XFilterNode(...)` under a dominating `<tok> == lit`; (b) `cls = XFilterNode` under that fact, with
    `cls(...)` called; (c) `TABLE[<tok>](...)` / `cls = TABLE.get(<tok>)` rows keyed by lit."""
    built = set()
    called_names = {c.func.id for c in calls(fi.node) if isinstance(c.func, ast.Name)}
    for c in calls(fi.node):
        nm = call_attr(c)
        if nm and nm.endswith("FilterNode") and any(l == lit and h for _, l, h in _eq_literal_facts(c, fi.node)):
            built.add(nm)
        hit = resolve_dispatch(repo, fi, c)
        if hit is not None:
            for k, v in zip(hit[0].keys, hit[0].values):
                if isinstance(k, ast.Constant) and k.value == lit:
                    built.add(ap(v) or norm(v))
    for st in stores(fi.node):
        if st.kind == "assign" and isinstance(st.target, ast.Name) and st.path in called_names and \
                isinstance(st.value, ast.Name) and st.value.id.endswith("FilterNode") and \
                any(l == lit and h for _, l, h in _eq_literal_facts(st.node, fi.node)):
            built.add(st.value.id)
    # `for tok, cls in TABLE: if <x> == tok: ... cls(...)` over a constant table of (token, class) pairs / a dict's items()
    for l in walk(fi.node):
        if not (isinstance(l, ast.For) and isinstance(l.target, ast.Tuple) and len(l.target.elts) == 2 and
                all(isinstance(t, ast.Name) for t in l.target.elts)):
            continue
        kname, cname = l.target.elts[0].id, l.target.elts[1].id
        it = l.iter
        if isinstance(it, ast.Call) and isinstance(it.func, ast.Attribute) and it.func.attr == "items" and not it.args:
            it = it.func.value
        tab = _table_dict(repo, fi, it)
        rows = []
        if tab is not None:
            rows = list(zip(tab.keys, tab.values))
        else:
            v = it if isinstance(it, (ast.Tuple, ast.List)) else None
            if isinstance(it, ast.Name):
                v = repo.module_assign(fi.module, it.id) or (repo.class_attr(fi.cls, it.id) if fi.cls is not None else None)
            elif isinstance(it, ast.Attribute) and isinstance(it.value, ast.Name) and it.value.id in ("self", "cls") and fi.cls is not None:
                v = repo.class_attr(fi.cls, it.attr)
            if isinstance(v, (ast.Tuple, ast.List)):
                rows = [(e.elts[0], e.elts[1]) for e in v.elts if isinstance(e, (ast.Tuple, ast.List)) and len(e.elts) == 2]
        if not rows:
            continue
        selected = any(isinstance(c.func, ast.Name) and c.func.id == cname and
                       any(isinstance(e, ast.Compare) and len(e.ops) == 1 and isinstance(e.ops[0], ast.Eq) and pol and
                           kname in {ap(e.left), ap(e.comparators[0])} for e, pol in facts(c, fi.node))
                       for c in calls(l))
        if selected:
            for k, v in rows:
                if isinstance(k, ast.Constant) and k.value == lit:
                    built.add(ap(v) or norm(v))
    return built


def _repeats_flat(expr: ast.AST, rule_name: str, lst: ast.List) -> bool:
    """The operator choice sits in a ZeroOrMore/OneOrMore group that does not recurse into the rule itself:
    one parse node then carries a whole chain `x (op x)*` with several operator tokens."""
    for n in ast.walk(expr):
        if isinstance(n, ast.Call) and call_attr(n) in ("ZeroOrMore", "OneOrMore") and \
                any(x is lst or x is getattr(lst, "_origin", None) for a in n.args for x in ast.walk(a)):
            recursive = any(isinstance(x, ast.Name) and x.id == rule_name for a in n.args for x in ast.walk(a))
            return not recursive
    return False


def r2(ctx, rules):
    repo = ctx.repo
    ctx.rule("C18.R2", "operator tables agree: every comparison token of the grammar has a branch in _val_matches "
                       "applying the operation it denotes; boolean tokens dispatch to the matching node class")
    gf, lst = operator_choice(ctx, rules, "binary_expression")
    g_ops = [l for _, l in str_elts(lst)]
    ctx.floor("C18.R2", "comparison operators in the grammar", len(g_ops), 10)
    f, (op_p, val_p, exp_p), branches = val_matches_branches(ctx)
    ctx.floor("C18.R2", "operator branches in _val_matches", len(branches), 8)
    for lit in g_ops:
        ctx.ob("C18.R2", f"operator {lit!r} has a branch in _val_matches", lit in branches, ctx.w(gf, lst),
               "the grammar accepts this token but the evaluator raises 'Unexpected operator' for it")
    for lit, brs in sorted(branches.items()):
        if lit not in g_ops:
            ctx.note(f"C18.R2: _val_matches has a branch for {lit!r} which the grammar never produces (dead branch)")
        ctx.ob("C18.R2", f"operator {lit!r} has a single branch", len(brs) == 1, ctx.w(brs[0].fi, brs[0].node),
               "two branches / table rows handle the same token: one of them is dead")
        sem = _branch_matches_semantics(brs[0].body, lit, brs[0].val, brs[0].exp)
        if sem is None:
            ctx.note(f"C18.R2: operator {lit!r} is not in the checker's semantics table (branch not compared)")
        else:
            ctx.ob("C18.R2", f"operator {lit!r} branch applies its own operation to (val, expected)", sem,
                   ctx.w(brs[0].fi, brs[0].node), "the value returned for this token is not the comparison the token denotes")
    # an operator-less selector means truthiness of the value
    # boolean tokens -> node classes
    ef, elst = operator_choice(ctx, rules, "expression")
    e_ops = [l for _, l in str_elts(elst)]
    ve = repo.fn("MessageFilterVisitor.visit_expression")
    for lit in e_ops:
        want = BOOL_TOKENS.get(lit)
        if want is None:
            ctx.ob("C18.R2", f"boolean token {lit!r} is a known connective", False, ctx.w(ef, elst),
                   "the grammar accepts a connective the checker has no meaning for")
            continue
        built = _built_classes(repo, ve, lit)
        ctx.ob("C18.R2", f"boolean token {lit!r} builds {want}", built == {want}, ve.where,
               f"visit_expression builds {sorted(built) or 'nothing'} for this token")
    for lit, want in BOOL_TOKENS.items():
        ctx.ob("C18.R2", f"grammar has boolean token {lit!r}", lit in e_ops, ctx.w(ef, elst))
    # a flat chain `term (op term)*` carries several operator tokens in one node: the visitor must look at each
    if _repeats_flat(rules["expression"][1], "expression", elst):
        toks = set(e_ops)
        reads = []
        for n in walk(ve.node):
            if isinstance(n, ast.Compare) and any(isinstance(x, ast.Constant) and x.value in toks for x in ast.walk(n)):
                reads.append(n)
        for c in calls(ve.node):
            hit = resolve_dispatch(repo, ve, c)
            if hit is not None and any(isinstance(k, ast.Constant) and k.value in toks for k in hit[0].keys):
                reads.append(hit[1])
        per_occurrence = any(any(isinstance(a, (ast.For, ast.While, ast.comprehension, ast.GeneratorExp, ast.ListComp))
                                 for a in ancestors(r)) or
                             not all(isinstance(x.slice, ast.Constant) for x in ast.walk(r) if isinstance(x, ast.Subscript))
                             for r in reads)
        ctx.ob("C18.R2", "visit_expression decides the node class for every operator of a flat chain", per_occurrence,
               ve.where, "the grammar yields `term (op term)*` in one node, but the visitor reads the operator at a fixed "
                         "position only: the other operators of a mixed chain are ignored")
    uf, ulst = operator_choice(ctx, rules, "unary_expression")
    u_ops = [l for _, l in str_elts(ulst)]
    vu = repo.fn("MessageFilterVisitor.visit_unary_expression")
    ctx.ob("C18.R2", "unary prefix tokens are exactly '!'", u_ops == ["!"], ctx.w(uf, ulst), f"found {u_ops}")
    built = _built_classes(repo, vu, "!")
    ctx.ob("C18.R2", "unary token '!' builds UnaryNotFilterNode", built == {"UnaryNotFilterNode"}, vu.where,
           f"visit_unary_expression builds {sorted(built) or 'nothing'} for '!'")


# --------------------------------------------------------------------------- R3 truth tables

class _Rec:
    """Abstract instance of the MatchResult NamedTuple; truthiness as its __bool__ defines it."""

    def __init__(self, fields: Dict[str, Any], truth):
        self.fields = fields
        self.truth = truth

    def __bool__(self):
        if not isinstance(self.truth, bool):
            raise AnalysisError(f"MatchResult.__bool__ would return a non-bool ({self.truth!r})")
        return self.truth

    def __repr__(self):
        return "MatchResult(" + ", ".join(f"{k}={v!r}" for k, v in self.fields.items()) + ")"



class _Signal(Exception):
    def __init__(self, kind):
        self.kind = kind


def _run(ev, stmts, env, depth=0):
    """run_block + finite `for` loops over literal tuples/lists (unrolled), break/continue.
    Returns miniinterp.Outcome (kinds: return / raise / fallthrough / break / continue)."""
    from ..miniinterp import Outcome
    for st in stmts:
        if isinstance(st, ast.If):
            t = ev.ev(st.test, env)
            if isinstance(t, (Sym, CallVal)):
                raise AnalysisError(f"interpreter: undecidable test `{src(st.test)}` (line {st.lineno})")
            out = _run(ev, st.body if t else st.orelse, env, depth)
            if out.kind != "fallthrough":
                return out
        elif isinstance(st, ast.For) and isinstance(st.target, ast.Name):
            seq = ev.ev(st.iter, env)
            if not isinstance(seq, (tuple, list)):
                raise AnalysisError(f"interpreter: loop over a non-literal sequence `{src(st.iter)}`")
            broke = False
            for item in seq:
                env[st.target.id] = item
                out = _run(ev, st.body, env, depth)
                if out.kind in ("return", "raise"):
                    return out
                if out.kind == "break":
                    broke = True
                    break
            if not broke and st.orelse:
                out = _run(ev, st.orelse, env, depth)
                if out.kind != "fallthrough":
                    return out
        elif isinstance(st, ast.Expr) and isinstance(st.value, ast.Call) and isinstance(st.value.func, ast.Attribute) and \
                isinstance(st.value.func.value, ast.Name) and isinstance(env.get(st.value.func.value.id), list) and \
                st.value.func.attr in ("append", "extend", "insert") and not st.value.keywords:
            tgt = env[st.value.func.value.id]
            vals = [ev.ev(a, env) for a in st.value.args]
            if any(isinstance(v, (Sym, CallVal)) for v in vals):
                raise AnalysisError(f"interpreter: undecidable list operation `{src(st)}`")
            getattr(tgt, st.value.func.attr)(*vals)
        elif isinstance(st, ast.Break):
            return Outcome("break")
        elif isinstance(st, ast.Continue):
            return Outcome("continue")
        else:
            out = run_block(ev, [st], env)
            if out.kind != "fallthrough":
                return out
    return Outcome("fallthrough")


_REC_CLASS = object()     # the MatchResult class itself, as a value (`cls` in its classmethods)


class _FilterEval(ConstEval):
    """ConstEval + (a) construction / attribute access / truthiness of MatchResult,
    (b) `<child>.match(...)` answered from an enumerated table, (c) bool()/len()/list()."""

    def __init__(self, repo, mod, rec_cls, children: Dict[str, _Rec]):
        super().__init__(repo, mod)
        self.rec_cls = rec_cls
        self.rec_fields = [st.target.id for st in rec_cls.node.body
                           if isinstance(st, ast.AnnAssign) and isinstance(st.target, ast.Name)]
        if len(self.rec_fields) < 2 or "result" not in self.rec_fields:
            raise AnalysisError("MatchResult no longer has (result, fields)")
        self.bool_fn = repo.lookup_method(rec_cls, "__bool__")
        self.children = children
        self.called: List[str] = []
        self.attr_hook = self._hook
        self.self_cls = None      # class whose method is being evaluated (for self.<helper>() inlining)
        self._inline_depth = 0

    def _inline(self, fn_info, call: ast.Call, local, skip_self: bool, first=None):
        """Evaluate a call of a repo function by running its body on the evaluated arguments."""
        if self._inline_depth > 6:
            raise AnalysisError(f"interpreter: inlining too deep at `{src(call)}`")
        a = fn_info.node.args
        params = [x.arg for x in a.args]
        if skip_self:
            params = params[1:]
        if a.vararg or a.kwarg or a.kwonlyargs:
            raise AnalysisError(f"interpreter: unsupported signature of {fn_info.qual}")
        env = {"self": Sym("self")} if skip_self else {}
        if skip_self and first is not None and a.args:
            env[a.args[0].arg] = first
        defaults = dict(zip(reversed(params), reversed(a.defaults)))
        for p_, d_ in defaults.items():
            env[p_] = self.ev(d_, {})
        if len(call.args) > len(params):
            raise AnalysisError(f"interpreter: too many arguments in `{src(call)}`")
        for p_, x in zip(params, call.args):
            env[p_] = self.ev(x, local)
        for k in call.keywords:
            if k.arg not in params:
                raise AnalysisError(f"interpreter: unknown keyword in `{src(call)}`")
            env[k.arg] = self.ev(k.value, local)
        if any(p_ not in env for p_ in params):
            raise AnalysisError(f"interpreter: missing argument in `{src(call)}`")
        self._inline_depth += 1
        try:
            out = _run(self, fn_info.node.body, env)
        finally:
            self._inline_depth -= 1
        if out.kind == "raise":
            raise _Signal("raise")
        return out.value if out.kind == "return" else None

    def _hook(self, base, attr):
        if isinstance(base, _Rec) and attr in base.fields:
            return base.fields[attr]
        return None

    def make(self, vals: Dict[str, Any]) -> _Rec:
        rec = _Rec(vals, True)
        if self.bool_fn is not None:
            rec.truth = True  # placeholder while evaluating
            out = _run(self, [s for s in self.bool_fn.node.body], {"self": rec})
            if out.kind != "return":
                raise AnalysisError("MatchResult.__bool__ does not return")
            rec.truth = out.value
        return rec

    def _ev(self, n, local):
        if isinstance(n, ast.Call):
            f = n.func
            if isinstance(f, ast.Attribute) and f.attr == "match":
                recv = ap(f.value)
                if recv not in self.children:
                    v = self.ev(f.value, local)
                    recv = v.text if isinstance(v, Sym) else None
                if recv in self.children:
                    self.called.append(recv)
                    return self.children[recv]
            # MatchResult.<classmethod>(...) / cls(...) inside such a classmethod
            if isinstance(f, ast.Attribute) and isinstance(f.value, ast.Name) and \
                    (f.value.id == self.rec_cls.name or local.get(f.value.id) is _REC_CLASS):
                m = self.repo.lookup_method(self.rec_cls, f.attr)
                if m is not None:
                    static = any((ap(d) or "").split(".")[-1] == "staticmethod" for d in m.node.decorator_list)
                    return self._inline(m, n, local, skip_self=not static, first=_REC_CLASS)
            name = (ap(f) or "").split(".")[-1]
            if isinstance(f, ast.Name) and local.get(f.id) is _REC_CLASS:
                name = self.rec_cls.name
            if name == self.rec_cls.name:
                vals = {}
                for k, a in zip(self.rec_fields, n.args):
                    vals[k] = self.ev(a, local)
                for k in n.keywords:
                    vals[k.arg] = self.ev(k.value, local)
                if set(vals) != set(self.rec_fields):
                    raise AnalysisError(f"unsupported MatchResult construction `{src(n)}`")
                return self.make(vals)
            if name in ("bool", "len", "list", "tuple") and len(n.args) == 1 and not n.keywords and ap(f) == name:
                v = self.ev(n.args[0], local)
                if isinstance(v, (Sym, CallVal)):
                    return Sym(src(n))
                return {"bool": bool, "len": len, "list": list, "tuple": tuple}[name](v)
            if isinstance(f, ast.Attribute) and isinstance(f.value, ast.Name) and f.value.id == "self" and \
                    self.self_cls is not None:
                m = self.repo.lookup_method(self.self_cls, f.attr)
                if m is not None:
                    static = any((ap(d) or "").split(".")[-1] == "staticmethod" for d in m.node.decorator_list)
                    return self._inline(m, n, local, skip_self=not static)
            if isinstance(f, ast.Name) and f.id not in local:
                cands = [g for g in self.repo.funcs.get(f.id, []) if g.module is self.mod and g.cls is None and g.parent_fn is None]
                if len(cands) == 1:
                    return self._inline(cands[0], n, local, skip_self=False)
        if isinstance(n, ast.Attribute) and isinstance(n.value, ast.Name) and n.value.id == "self" and \
                self.self_cls is not None and f"self.{n.attr}" not in self.children:
            m = self.repo.lookup_method(self.self_cls, n.attr)
            if m is not None and any((ap(d) or "").split(".")[-1] in ("property", "cached_property") for d in m.node.decorator_list):
                fake = ast.Call(func=n, args=[], keywords=[])
                ast.copy_location(fake, n)
                return self._inline(m, fake, local, skip_self=True)
        if isinstance(n, (ast.ListComp, ast.GeneratorExp)) and len(n.generators) == 1 and \
                isinstance(n.generators[0].target, ast.Name):
            g = n.generators[0]
            seq = self.ev(g.iter, local)
            if isinstance(seq, (tuple, list)):
                out = []
                for item in seq:
                    env2 = dict(local)
                    env2[g.target.id] = item
                    keep = True
                    for c in g.ifs:
                        t = self.ev(c, env2)
                        if isinstance(t, (Sym, CallVal)):
                            return Sym(src(n))
                        keep = keep and bool(t)
                    if keep:
                        out.append(self.ev(n.elt, env2))
                return out
        if isinstance(n, ast.Name) and n.id in local:
            return local[n.id]
        return super()._ev(n, local)


def child_paths(repo, ci) -> List[str]:
    """Child-node attributes of a filter node class: what its constructor(s) store on self from parameters."""
    out = []
    for c in repo.mro(ci):
        init = c.methods.get("__init__")
        if init is None:
            continue
        params = {a.arg for a in init.node.args.args}
        for st in stores(init.node):
            if st.kind == "assign" and st.path.startswith("self.") and st.path.count(".") == 1 and \
                    isinstance(st.value, ast.Name) and st.value.id in params and st.path not in out:
                out.append(st.path)
    return out


def r3(ctx):
    repo = ctx.repo
    ctx.rule("C18.R3", "boolean filter nodes are the boolean functions: match() evaluated exhaustively over child "
                       "results (false / true without fields / true with fields) x short_circuit equals not / or / and")
    rec_cls = repo.cls("MatchResult", FILT)
    mod = repo.module(FILT)
    table = [("UnaryNotFilterNode", 1, lambda a: not a[0]),
             ("OrFilterNode", 2, lambda a: a[0] or a[1]),
             ("AndFilterNode", 2, lambda a: a[0] and a[1])]
    total = 0
    for cname, arity, oracle in table:
        ci = repo.cls(cname, FILT)
        m = repo.lookup_method(ci, "match")
        ctx.require(m is not None and m.cls is not None and m.cls.name == cname,
                    f"{cname} no longer defines match()")
        params = [a.arg for a in m.node.args.args]
        ctx.require(len(params) == 3, f"{cname}.match signature changed (self, msg, short_circuit)")
        sc_name = params[2]
        kids = child_paths(repo, ci)
        ctx.require(len(kids) == arity, f"{cname} stores {len(kids)} child nodes ({kids}), expected {arity}")
        probe = _FilterEval(repo, mod, rec_cls, {})
        domain = [("F", lambda tag: probe.make({"result": False, "fields": []}), False),
                  ("T/nofields", lambda tag: probe.make({"result": True, "fields": []}), True),
                  ("T/fields", lambda tag: probe.make({"result": True, "fields": [("Msg", "Block", 0, tag)]}), True)]
        combos = [[]]
        for _ in range(arity):
            combos = [c + [d] for c in combos for d in domain]
        for combo in combos:
            for sc in (True, False):
                children = {k: d[1](k) for k, d in zip(kids, combo)}
                truth = [d[2] for d in combo]
                want = bool(oracle(truth))
                ev = _FilterEval(repo, mod, rec_cls, children)
                ev.self_cls = ci
                env = {sc_name: sc, params[1]: Sym("ENTRY"), "self": Sym("self")}
                label = ",".join(f"{k.split('.', 1)[1]}={d[0]}" for k, d in zip(kids, combo))
                key = f"{cname}.match[{label},{sc_name}={sc}] == {want}"
                try:
                    out = _run(ev, m.node.body, env)
                except _Signal:
                    from ..miniinterp import Outcome
                    out = Outcome("raise")
                except AnalysisError as e:
                    raise AnalysisError(f"C18.R3 {cname}.match: {e}")
                total += 1
                if out.kind != "return" or not isinstance(out.value, _Rec):
                    ctx.ob("C18.R3", key, False, m.where, f"match() does not return a MatchResult here ({out.kind}: {out.value!r})")
                    continue
                got = out.value.fields.get("result")
                try:
                    truthy = bool(out.value)
                except AnalysisError as e:
                    ctx.ob("C18.R3", key, False, m.where, str(e))
                    continue
                ctx.ob("C18.R3", key, isinstance(got, bool) and got == want and truthy == want, m.where,
                       f"returns {out.value!r} (truthiness {truthy}) for operands {truth}")
    ctx.floor("C18.R3", "truth-table cases", total, 6 + 18 + 18)


# --------------------------------------------------------------------------- R4 error discipline

SAFE_BUILTINS = {"bool", "str", "repr", "isinstance", "type", "callable", "id"}


def _needed_exceptions(op) -> set:
    """Exception classes the operation can raise over the value types a field can hold
    (int, float, bytes, str, None, tuple, TupleCoord) and any literal on the other side:
      val.method(x)      AttributeError (no such method), TypeError (wrong argument type)
      x in val           TypeError (int/float/None is no container; str in bytes), and ValueError:
                         `300 in b"..."` - an int needle outside range(256) in a bytes container
      val in x           TypeError
      < <= > >=          TypeError
      & | ^ + - * ...    TypeError
      val[x]             TypeError, IndexError, KeyError
    """
    if isinstance(op, ast.Call) and isinstance(op.func, ast.Attribute):
        return {"AttributeError", "TypeError"}
    if isinstance(op, (ast.Attribute,)):
        return {"AttributeError"}
    if isinstance(op, ast.Compare) and any(isinstance(o, (ast.In, ast.NotIn)) for o in op.ops):
        return {"TypeError", "ValueError"}
    if isinstance(op, ast.Subscript):
        return {"TypeError", "IndexError", "KeyError"}
    return {"TypeError"}


def _handler_returns_false(fn_node, cfg: CFG, h: ast.ExceptHandler) -> bool:
    if any(isinstance(n, ast.Raise) for n in walk(h)):
        return False
    hn = cfg.nodes_for(h)
    if not hn:
        raise AnalysisError("handler missing from CFG")
    reach = cfg.reachable(hn, exc=False)
    for n in reach:
        if n.kind == "stmt" and isinstance(n.ast, ast.Return):
            v = n.ast.value
            if v is None:
                continue
            if not (isinstance(v, ast.Constant) and not v.value):
                return False
    return True


def _guard_of(op, fn_node, cfg, needed: set) -> Optional[str]:
    """None when every needed exception type raised at `op` is turned into a falsy return; else a reason."""
    for exc in sorted(needed):
        handled = None
        for tc in try_contexts(op, fn_node):
            if tc.section != "body":
                continue
            for h in tc.node.handlers:
                names = handler_names(h)
                if "*" in names or exc in names or any(nm in CATCH_ALL for nm in names):
                    handled = h
                    break
            if handled is not None:
                break
        if handled is None:
            return f"{exc} raised here (by the operation or by a value class's operator method) propagates out of the filter evaluation"
        if not _handler_returns_false(fn_node, cfg, handled):
            return f"the handler catching {exc} does not simply return False"
    return None


def type_dependent_ops(fn_node, val_p: str) -> List[Tuple[ast.AST, str]]:
    """Operations whose applicability depends on the run-time type of the field value."""
    out = []

    def is_val(n):
        return isinstance(n, ast.Name) and n.id == val_p
    for n in walk(fn_node):
        if isinstance(n, ast.Call):
            if isinstance(n.func, ast.Attribute) and is_val(n.func.value):
                out.append((n, f"{val_p}.{n.func.attr}()"))
            elif isinstance(n.func, ast.Name) and n.func.id not in SAFE_BUILTINS and any(is_val(a) for a in n.args):
                out.append((n, f"{n.func.id}({val_p})"))
        elif isinstance(n, ast.Compare):
            operands = [n.left] + list(n.comparators)
            for i, op in enumerate(n.ops):
                if isinstance(op, (ast.Lt, ast.LtE, ast.Gt, ast.GtE, ast.In, ast.NotIn)) and \
                        (is_val(operands[i]) or is_val(operands[i + 1])):
                    out.append((n, norm(n)))
                    break
        elif isinstance(n, ast.BinOp) and (is_val(n.left) or is_val(n.right)):
            out.append((n, norm(n)))
        elif isinstance(n, ast.Subscript) and is_val(n.value) and isinstance(n.ctx, ast.Load):
            out.append((n, norm(n)))
    return out


OP_DUNDERS = {ast.Lt: ("__lt__", "__gt__"), ast.Gt: ("__gt__", "__lt__"), ast.LtE: ("__le__", "__ge__"),
              ast.GtE: ("__ge__", "__le__"), ast.Eq: ("__eq__",), ast.NotEq: ("__ne__", "__eq__"),
              ast.In: ("__contains__", "__iter__"), ast.NotIn: ("__contains__", "__iter__"),
              ast.BitAnd: ("__and__", "__rand__"), ast.BitOr: ("__or__", "__ror__")}


def _explicit_raises(fn_node) -> set:
    """Exception classes a function body raises by itself: `raise X(...)`, assert, zip(..., strict=True)."""
    out = set()
    for n in walk(fn_node):
        if isinstance(n, ast.Raise) and n.exc is not None:
            e = n.exc.func if isinstance(n.exc, ast.Call) else n.exc
            nm = (ap(e) or "Exception").split(".")[-1]
            if nm != "NotImplementedError":        # abstract stubs, overridden in every concrete value class
                out.add(nm)
        elif isinstance(n, ast.Assert):
            out.add("AssertionError")
        elif isinstance(n, ast.Call) and ap(n.func) == "zip" and \
                any(k.arg == "strict" and not (isinstance(k.value, ast.Constant) and not k.value.value) for k in n.keywords):
            out.add("ValueError")
    return out


def _type_elts(repo, f, e, depth=0) -> List[ast.AST]:
    """Elements of an isinstance() class tuple, following class / module constants and tuple concatenation."""
    if depth > 5:
        return []
    if isinstance(e, ast.Tuple):
        return [x for el in e.elts for x in _type_elts(repo, f, el, depth + 1)]
    if isinstance(e, ast.BinOp) and isinstance(e.op, ast.Add):
        return _type_elts(repo, f, e.left, depth + 1) + _type_elts(repo, f, e.right, depth + 1)
    v = None
    if isinstance(e, ast.Attribute) and isinstance(e.value, ast.Name) and e.value.id in ("self", "cls") and f.cls is not None:
        v = repo.class_attr(f.cls, e.attr)
    elif isinstance(e, ast.Name):
        v = (repo.class_attr(f.cls, e.id) if f.cls is not None else None) or repo.module_assign(f.module, e.id)
    if isinstance(v, (ast.Tuple, ast.BinOp, ast.Name, ast.Attribute)) and v is not e:
        return _type_elts(repo, f, v, depth + 1)
    return [e]


def value_class_raises(repo, f, val_p) -> Dict[str, Dict[str, set]]:
    """dunder name -> {class: exception names}: what the rich-comparison / operator methods of the repo classes
    that _val_matches admits as field values (its isinstance whitelist) raise explicitly."""
    admitted = []
    for c in calls(f.node):
        if ap(c.func) == "isinstance" and len(c.args) == 2 and isinstance(c.args[0], ast.Name) and c.args[0].id == val_p:
            for e in _type_elts(repo, f, c.args[1]):
                ci = repo.resolve_class(ap(e) or "", f.module) if ap(e) else None
                if ci is not None:
                    for sub in repo.subclasses(ci):
                        if sub not in admitted:
                            admitted.append(sub)
    out: Dict[str, Dict[str, set]] = {}
    for ci in admitted:
        for dn in {d for ds in OP_DUNDERS.values() for d in ds}:
            m = repo.lookup_method(ci, dn)
            if m is None:
                continue
            r = set()
            for g, _ in effective_code(repo, ci, dn, depth=2):     # the dunder and the self. helpers it runs
                r |= _explicit_raises(g.node)
            if r:
                out.setdefault(dn, {})[ci.name] = r
    return out


def _op_extra_raises(op, table) -> Tuple[set, List[str]]:
    kinds = []
    if isinstance(op, ast.Compare):
        kinds = [type(o) for o in op.ops]
    elif isinstance(op, ast.BinOp):
        kinds = [type(op.op)]
    extra, why = set(), []
    for k in kinds:
        for dn in OP_DUNDERS.get(k, ()):
            for cname, excs in table.get(dn, {}).items():
                extra |= excs
                why.append(f"{cname}.{dn} raises {sorted(excs)}")
    return extra, why


def r4(ctx):
    repo = ctx.repo
    ctx.rule("C18.R4", "a comparison that cannot be applied to a field's type is False, not an error: every "
                       "type-dependent operation on the field value in _val_matches is isinstance-guarded or inside a "
                       "try whose TypeError/AttributeError handler returns False (or every call site is)")
    f, (op_p, val_p, exp_p), branches = val_matches_branches(ctx)
    cfg = CFG(f.node)
    ops = type_dependent_ops(f.node, val_p)
    n_row_ops = sum(len(type_dependent_ops(br.host.node if br.host is not None else ast.Module(body=br.body, type_ignores=[]), br.val))
                    for brs in branches.values() for br in brs if br.site is not None)
    ctx.floor("C18.R4", "type-dependent operations on the field value", len(ops) + n_row_ops, 6)
    # call sites (fallback guard)
    sites = [(g, c) for g, c in callers_of(repo, "_val_matches")]
    ctx.floor("C18.R4", "_val_matches call sites", len(sites), 3)

    def sites_guarded(needed) -> bool:
        for g, c in sites:
            gnode = g.node
            if _guard_of(c, gnode, CFG(gnode), needed) is not None:
                return False
        return True
    vc_raises = value_class_raises(repo, f, val_p)
    # equality is only type-dependent when an admitted value class makes it so
    listed = {id(o) for o, _ in ops}
    for n in walk(f.node):
        if isinstance(n, ast.Compare) and id(n) not in listed and _op_extra_raises(n, vc_raises)[0] and \
                any(isinstance(x, ast.Name) and x.id == val_p for x in [n.left] + list(n.comparators)):
            ops.append((n, norm(n)))
    for op, label in ops:
        needed = _needed_exceptions(op) | _op_extra_raises(op, vc_raises)[0]
        isinst = any(pol and isinstance(e, ast.Call) and ap(e.func) == "isinstance" and e.args and
                     isinstance(e.args[0], ast.Name) and e.args[0].id == val_p for e, pol in facts(op, f.node))
        if _op_extra_raises(op, vc_raises)[0]:
            isinst = False
        why = None if isinst else _guard_of(op, f.node, cfg, needed)
        ok = why is None
        if not ok and sites_guarded(needed):
            ok = True
        toks = sorted({l for _, l, h in _eq_literal_facts(op, f.node) if h})
        ctx.ob("C18.R4", f"_val_matches[{'/'.join(toks) or '-'}]: {label} cannot raise out of the filter", ok,
               ctx.w(f, op), why or "")
    # operations living in dispatch-table rows: an exception surfaces at the dispatching call
    for lit, brs in sorted(branches.items()):
        for br in brs:
            if br.site is None:
                continue
            scope = br.host.node if br.host is not None else ast.Module(body=br.body, type_ignores=[])
            hcfg = CFG(br.host.node) if br.host is not None else None
            row_ops = type_dependent_ops(scope, br.val)
            for n in walk(scope):
                if isinstance(n, ast.Compare) and not any(n is o for o, _ in row_ops) and _op_extra_raises(n, vc_raises)[0] and \
                        any(isinstance(x, ast.Name) and x.id == br.val for x in [n.left] + list(n.comparators)):
                    row_ops.append((n, norm(n)))
            for op, label in row_ops:
                needed = _needed_exceptions(op) | _op_extra_raises(op, vc_raises)[0]
                why = None
                for exc in sorted(needed):
                    w1 = "unguarded"
                    if br.host is not None:
                        isinst = any(pol and isinstance(e, ast.Call) and ap(e.func) == "isinstance" and e.args and
                                     isinstance(e.args[0], ast.Name) and e.args[0].id == br.val
                                     for e, pol in facts(op, br.host.node))
                        w1 = None if isinst else _guard_of(op, br.host.node, hcfg, {exc})
                    if w1 is not None:
                        w1 = _guard_of(br.site, f.node, cfg, {exc})
                    if w1 is not None:
                        why = w1
                ok = why is None or sites_guarded(needed)
                ctx.ob("C18.R4", f"_val_matches[{lit}]: {label} cannot raise out of the filter", ok, ctx.w(br.fi, br.node),
                       why or "")
    r4_result_is_bool(ctx)
    r4_decode_guard(ctx)
    r4_body_parse_guard(ctx)


BOOL_CALLS = {"bool", "isinstance", "callable", "hasattr", "any", "all", "issubclass"}
BOOL_METHODS = {"startswith", "endswith", "fnmatchcase", "fnmatch", "isdigit", "isalpha"}


def _boolish(repo, f, e, depth=0, site=None) -> Tuple[str, List[Tuple[Any, ast.AST]]]:
    """('bool' | 'none' | 'bool-or-none' | 'other', culprits): the syntactic type of an expression that
    ends up as MatchResult.result.  culprits = (function, expression) pairs that are not boolean."""
    if depth > 6:
        return "other", [(f, e)]
    if isinstance(e, ast.Constant):
        if isinstance(e.value, bool):
            return "bool", []
        if e.value is None:
            return "none", []
        return "other", [(f, e)]
    if isinstance(e, ast.UnaryOp) and isinstance(e.op, ast.Not):
        return "bool", []
    if isinstance(e, ast.Compare):
        return "bool", []
    if isinstance(e, ast.Call):
        nm = ap(e.func) or ""
        if nm in BOOL_CALLS or (isinstance(e.func, ast.Attribute) and e.func.attr in BOOL_METHODS):
            return "bool", []
        if isinstance(e.func, ast.Attribute) and isinstance(e.func.value, ast.Name) and e.func.value.id in ("self", "cls") \
                and f.cls is not None:
            impls = []
            for ci in [f.cls] + repo.subclasses(f.cls, strict=True):
                m = repo.lookup_method(ci, e.func.attr)
                if m is not None and m not in impls:
                    impls.append(m)
            if impls:
                kinds, culprits = set(), []
                for m in impls:
                    rets = returns_of(m.node)
                    if not rets:
                        kinds.add("none")
                    for r in rets:
                        if r.value is None:
                            kinds.add("none")
                            continue
                        k, c = _boolish(repo, m, r.value, depth + 1)
                        kinds.add(k)
                        culprits.extend(c)
                    # implicit fall-off-the-end
                    from ..core import always_exits
                    if not always_exits(m.node.body):
                        kinds.add("none")
                if culprits or "other" in kinds:
                    return "other", culprits or [(f, e)]
                if kinds <= {"bool"}:
                    return "bool", []
                if kinds <= {"none"}:
                    return "none", []
                return "bool-or-none", []
        hit = resolve_dispatch(repo, f, e)
        if hit is not None:
            kinds, culprits = set(), []
            for k, v in zip(hit[0].keys, hit[0].values):
                if isinstance(v, ast.Lambda):
                    kk, cc = _boolish(repo, f, v.body, depth + 1)
                    # lambda parameters are opaque: only the shape of the body counts
                    if kk == "other" and isinstance(v.body, (ast.Name,)):
                        cc = [(f, v)]
                    kinds.add(kk)
                    culprits.extend(cc)
                    continue
                target = None
                if isinstance(v, ast.Attribute) and isinstance(v.value, ast.Name) and f.module.imports.get(v.value.id) == "operator":
                    target = v.attr
                elif isinstance(v, ast.Name) and f.module.imports.get(v.id, "").startswith("operator."):
                    target = f.module.imports[v.id].split(".", 1)[1]
                if target is not None:
                    if target in STD_OPERATOR or target in ("contains", "not_", "truth"):
                        kinds.add("bool")
                    else:
                        kinds.add("other")
                        culprits.append((f, v))
                    continue
                g = None
                if isinstance(v, ast.Name):
                    cands = [x for x in repo.funcs.get(v.id, []) if x.module is f.module and x.cls is None and x.parent_fn is None]
                    g = cands[0] if len(cands) == 1 else None
                if g is None:
                    kinds.add("other")
                    culprits.append((f, v))
                    continue
                for r in returns_of(g.node):
                    if r.value is None:
                        kinds.add("none")
                        continue
                    kk, cc = _boolish(repo, g, r.value, depth + 1)
                    kinds.add(kk)
                    culprits.extend(cc)
            if culprits or "other" in kinds:
                return "other", culprits or [(f, e)]
            if kinds <= {"bool"}:
                return "bool", []
            return "bool-or-none", []
        return "other", [(f, e)]
    if isinstance(e, ast.BoolOp):
        parts = [_boolish(repo, f, v, depth + 1, site) for v in e.values]
        culprits = [c for _, cs in parts for c in cs]
        if culprits:
            return "other", culprits
        kinds = [k for k, _ in parts]
        if isinstance(e.op, ast.Or):
            # a falsy None never survives `or` except in the last position
            return ("bool" if kinds[-1] == "bool" else kinds[-1]), []
        if all(k == "bool" for k in kinds):
            return "bool", []
        return "bool-or-none", []
    if isinstance(e, ast.IfExp):
        parts = [_boolish(repo, f, v, depth + 1, site) for v in (e.body, e.orelse)]
        culprits = [c for _, cs in parts for c in cs]
        if culprits:
            return "other", culprits
        kinds = {k for k, _ in parts}
        return ("bool" if kinds == {"bool"} else "bool-or-none"), []
    if isinstance(e, ast.Name):
        vals = [s.value for s in stores(f.node, into_defs=False) if s.path == e.id and s.kind == "assign"]
        if not vals or any(v is None for v in vals):
            return "other", [(f, e)]
        parts = [_boolish(repo, f, v, depth + 1, site) for v in vals]
        culprits = [c for _, cs in parts for c in cs]
        if culprits:
            return "other", culprits
        kinds = {k for k, _ in parts}
        if kinds == {"bool"}:
            return "bool", []
        # `X is not None` dominating the use site removes None
        if site is not None and any(isinstance(t, ast.Compare) and len(t.ops) == 1 and ap(t.left) == e.id and
                                    isinstance(t.comparators[0], ast.Constant) and t.comparators[0].value is None and
                                    ((isinstance(t.ops[0], ast.IsNot) and pol) or (isinstance(t.ops[0], ast.Is) and not pol))
                                    for t, pol in facts(site, f.node)):
            return ("bool" if "bool" in kinds or "bool-or-none" in kinds else "none"), []
        return "bool-or-none", []
    return "other", [(f, e)]


def r4_result_is_bool(ctx):
    """MatchResult.__bool__ returns self.result: python raises TypeError unless that is a real bool."""
    repo = ctx.repo
    rec = repo.cls("MatchResult", FILT)
    bf = repo.lookup_method(rec, "__bool__")
    if bf is None:
        ctx.note("C18.R4: MatchResult has no __bool__ (always truthy as a tuple) - boolean nodes are checked by C18.R3")
        return
    rets = returns_of(bf.node)
    if not (len(rets) == 1 and ap(rets[0].value) == "self.result"):
        # e.g. `return bool(self.result)`: any value is acceptable
        if len(rets) == 1 and isinstance(rets[0].value, ast.Call) and ap(rets[0].value.func) == "bool":
            ctx.ob("C18.R4", "MatchResult.__bool__ coerces result to bool", True, bf.where)
            return
        raise AnalysisError("MatchResult.__bool__ has an unsupported shape")
    fields = [st.target.id for st in rec.node.body if isinstance(st, ast.AnnAssign) and isinstance(st.target, ast.Name)]
    idx = fields.index("result")
    sites = []
    for rel in (FILT, LOGR):
        mod = repo.module(rel)
        for g in repo.all_funcs:
            if g.module is not mod or g.parent_fn is not None:
                continue
            for c in find_calls(g.node, "MatchResult"):
                arg = c.args[idx] if len(c.args) > idx else next((k.value for k in c.keywords if k.arg == "result"), None)
                if arg is None:
                    raise AnalysisError(f"MatchResult construction without a result: {norm(c)}")
                sites.append((g, c, arg))
    ctx.floor("C18.R4", "MatchResult construction sites", len(sites), 6)
    bad: Dict[str, Tuple[Any, ast.AST, List[str]]] = {}
    for g, c, arg in sites:
        kind, culprits = _boolish(repo, g, arg, 0, c)
        if kind == "bool":
            ctx.ob("C18.R4", f"{g.qual}: result of `{norm(c)}` is a bool", True, ctx.w(g, c))
            continue
        if not culprits:
            culprits = [(g, arg)]
        for cf, ce in culprits:
            key = f"MatchResult.result must be a bool: {cf.qual} yields `{norm(ce)}`"
            bad.setdefault(key, (cf, ce, []))[2].append(g.qual)
    for key, (cf, ce, users) in sorted(bad.items()):
        ctx.ob("C18.R4", key, False, ctx.w(cf, ce),
               f"reaches MatchResult.result in {sorted(set(users))}; MatchResult.__bool__ returns it unchanged and "
               f"python raises TypeError('__bool__ should return bool') when the filter result is tested")



# --------------------------------------------------------------------------- helper inlining

def _clone(n):
    if isinstance(n, ast.AST):
        new = n.__class__()
        for f_, v in ast.iter_fields(n):
            setattr(new, f_, _clone(v))
        for a in ("lineno", "col_offset", "end_lineno", "end_col_offset"):
            if hasattr(n, a):
                setattr(new, a, getattr(n, a))
        return new
    if isinstance(n, list):
        return [_clone(x) for x in n]
    return n


class _Subst(ast.NodeTransformer):
    def __init__(self, mapping, renames):
        self.mapping, self.renames = mapping, renames

    def visit_Name(self, node):
        if node.id in self.mapping and isinstance(node.ctx, ast.Load):
            new = _clone(self.mapping[node.id])
            return ast.copy_location(new, node)
        if node.id in self.renames:
            node.id = self.renames[node.id]
        return node


def _helper_body(m) -> List[ast.stmt]:
    body = list(m.node.body)
    if body and isinstance(body[0], ast.Expr) and isinstance(body[0].value, ast.Constant) and isinstance(body[0].value.value, str):
        body = body[1:]
    return body


def _inlinable(repo, fi, call, exclude=()) -> Optional[Tuple[Any, Dict[str, ast.AST]]]:
    f = call.func
    if isinstance(f, ast.Attribute) and f.attr in exclude:
        return None
    if not (isinstance(f, ast.Attribute) and isinstance(f.value, ast.Name) and f.value.id == "self" and fi.cls is not None):
        return None
    m = repo.lookup_method(fi.cls, f.attr)
    if m is None or m.module is not fi.module or m.node is fi.node or not isinstance(m.node, ast.FunctionDef):
        return None
    decos = [(ap(d) or "").split(".")[-1] for d in m.node.decorator_list]
    if any(d not in ("staticmethod", "classmethod") for d in decos):
        return None
    a = m.node.args
    if a.vararg or a.kwarg or a.kwonlyargs or any(isinstance(x, (ast.Yield, ast.YieldFrom, ast.Await)) for x in walk(m.node)):
        return None
    params = [x.arg for x in a.args] if "staticmethod" in decos else [x.arg for x in a.args][1:]
    mapping: Dict[str, ast.AST] = {}
    defaults = dict(zip(reversed(params), reversed(a.defaults)))
    mapping.update(defaults)
    if len(call.args) > len(params):
        return None
    for p_, x in zip(params, call.args):
        mapping[p_] = x
    for k in call.keywords:
        if k.arg not in params:
            return None
        mapping[k.arg] = k.value
    if any(p_ not in mapping for p_ in params):
        return None
    for x in mapping.values():
        if not (isinstance(x, (ast.Name, ast.Constant)) or ap(x)):
            return None
    # the helper must not rebind its parameters
    for st in stores(m.node):
        if st.path in params and st.kind in ("assign", "augassign", "del"):
            return None
    return m, mapping


def inline_self_calls(repo, fi, depth=3, exclude=()):
    """FuncInfo whose body has calls of same-class helper methods replaced by the helpers' bodies
    (statement calls of helpers without a value-return; expression calls of single-`return <expr>` helpers)."""
    from ..core import FuncInfo, set_parents
    node = _clone(fi.node)
    for _ in range(depth):
        set_parents(node)
        changed = False
        caller_names = {n.id for n in ast.walk(node) if isinstance(n, ast.Name)} | {a.arg for a in node.args.args}
        # expression-level
        for c in [n for n in ast.walk(node) if isinstance(n, ast.Call)]:
            hit = _inlinable(repo, fi, c, exclude)
            if hit is None:
                continue
            m, mapping = hit
            body = _helper_body(m)
            if len(body) == 1 and isinstance(body[0], ast.Return) and body[0].value is not None:
                expr = _Subst(mapping, {}).visit(_clone(body[0].value))
                par = getattr(c, "_parent", None)
                for f_, v in ast.iter_fields(par):
                    if v is c:
                        setattr(par, f_, expr)
                        changed = True
                    elif isinstance(v, list):
                        for i, x in enumerate(v):
                            if x is c:
                                v[i] = expr
                                changed = True
        if changed:
            continue
        # statement-level
        for st in [n for n in ast.walk(node) if isinstance(n, ast.Expr) and isinstance(n.value, ast.Call)]:
            hit = _inlinable(repo, fi, st.value, exclude)
            if hit is None:
                continue
            m, mapping = hit
            body = _helper_body(m)
            rets = [r for r in walk(m.node) if isinstance(r, ast.Return)]
            if any(r.value is not None and not (isinstance(r.value, ast.Constant) and r.value.value is None) for r in rets):
                continue
            if rets and not (len(rets) == 1 and body and rets[0] is body[-1]):
                continue
            if rets:
                body = body[:-1]
            locals_ = {s_.path for s_ in stores(m.node) if isinstance(s_.target, ast.Name)}
            renames = {n_: f"{n_}__{m.name}" for n_ in locals_ if n_ in caller_names}
            new_body = [_Subst(mapping, renames).visit(_clone(x)) for x in body] or [ast.copy_location(ast.Pass(), st)]
            par = getattr(st, "_parent", None)
            for f_, v in ast.iter_fields(par):
                if isinstance(v, list) and any(x is st for x in v):
                    i = next(i for i, x in enumerate(v) if x is st)
                    v[i:i + 1] = new_body
                    changed = True
            if changed:
                break
        if not changed:
            break
    ast.fix_missing_locations(node)
    set_parents(node)
    return FuncInfo(fi.name, fi.qual, fi.module, node, fi.cls, fi.parent_fn)


def _owned(repo, g, owners: set, seen=()) -> bool:
    """g is an owner, or a same-class helper reached only through `self.<g>()` calls from owners/owned helpers."""
    g = top_fn(g)
    if g.qual in owners:
        return True
    if g.cls is None or g in seen:
        return False
    callers = callers_of(repo, g.name)
    if not callers:
        return False
    for h, c in callers:
        if not (isinstance(c.func, ast.Attribute) and isinstance(c.func.value, ast.Name) and c.func.value.id == "self"):
            return False
        h = top_fn(h)
        if h.cls is None or not any(x == g.cls or x == h.cls for x in repo.mro(h.cls) + repo.mro(g.cls)):
            return False
        if not _owned(repo, h, owners, tuple(seen) + (g,)):
            return False
    return True


# --------------------------------------------------------------------------- R5 view ownership

VIEW_OWNERS = {
    "_filtered_entries": {"FilteringMessageLogger.__init__", "FilteringMessageLogger.set_filter",
                          "FilteringMessageLogger.add_log_entry", "FilteringMessageLogger.clear"},
    "_raw_entries": {"FilteringMessageLogger.__init__", "FilteringMessageLogger.add_log_entry",
                     "FilteringMessageLogger.clear"},
}


def _is_filter_match(e, arg_name: Optional[str]) -> bool:
    """`self.filter.match(<arg_name>)`, possibly wrapped in bool()"""
    if isinstance(e, ast.Call) and ap(e.func) == "bool" and len(e.args) == 1 and not e.keywords:
        return _is_filter_match(e.args[0], arg_name)
    return isinstance(e, ast.Call) and ap(e.func) == "self.filter.match" and e.args and \
        (arg_name is None or (isinstance(e.args[0], ast.Name) and e.args[0].id == arg_name))


def _comp_of(node) -> Optional[ast.AST]:
    return node if isinstance(node, (ast.ListComp, ast.GeneratorExp)) else None


def _comp_checked(comp, fn_node) -> Tuple[bool, Optional[str], bool]:
    """(elements are filtered by self.filter.match(elt), source path, excludes members of _raw_entries)."""
    if len(comp.generators) != 1 or not isinstance(comp.elt, ast.Name) or \
            not isinstance(comp.generators[0].target, ast.Name) or comp.generators[0].target.id != comp.elt.id:
        raise AnalysisError(f"unsupported view comprehension `{norm(comp)}`")
    g = comp.generators[0]
    v = comp.elt.id
    conds = [a for c in g.ifs for a in atoms(c, True)]
    matched = any(pol and _is_filter_match(e, v) for e, pol in conds)
    excl = False
    for e, pol in conds:
        if isinstance(e, ast.Compare) and len(e.ops) == 1 and isinstance(e.left, ast.Name) and e.left.id == v and \
                ap(e.comparators[0]) == "self._raw_entries":
            if (isinstance(e.ops[0], ast.NotIn) and pol) or (isinstance(e.ops[0], ast.In) and not pol):
                excl = True
    source = ap(g.iter)
    # a local bound once to another filtering generator over the buffers: compose the two
    if isinstance(g.iter, ast.Name):
        vals = [x.value for x in stores(fn_node) if x.path == g.iter.id and x.kind == "assign" and x.value is not None]
        if len(vals) == 1 and isinstance(vals[0], (ast.GeneratorExp, ast.ListComp)):
            m2, s2, e2 = _comp_checked(vals[0], fn_node)
            matched, excl, source = matched or m2, excl or e2, s2
    return matched, source, excl


def r5(ctx):
    repo = ctx.repo
    ctx.rule("C18.R5", "view ownership: _raw_entries/_filtered_entries written only by their owners; add_log_entry "
                       "appends (not paused) raw first, then to the view only under filter.match(entry); set_filter "
                       "rebuilds the view by filtering with the new filter; clear empties both")
    for field, owners in VIEW_OWNERS.items():
        ws = writers_of(repo, field)
        ctx.floor("C18.R5", f"writers of {field}", len(ws), 2)
        for g, st in ws:
            q = top_fn(g).qual
            ctx.ob("C18.R5", f"{field} written in {q}: {st.kind}{('.' + st.method) if st.method else ''}",
                   _owned(repo, g, owners) and st.path == f"self.{field}", ctx.w(g, st.node),
                   "the view/raw buffer is mutated outside its owner functions")
    # ---- add_log_entry
    f = inline_self_calls(repo, repo.fn("FilteringMessageLogger.add_log_entry"))
    params = [a.arg for a in f.node.args.args]
    ctx.require(len(params) == 2, "add_log_entry signature changed (self, entry)")
    entry = params[1]
    cfg = CFG(f.node)
    sts = stores(f.node)
    raw = [s for s in sts if s.path == "self._raw_entries"]
    view = [s for s in sts if s.path == "self._filtered_entries"]
    ctx.ob("C18.R5", "add_log_entry retains the entry in _raw_entries", len(raw) >= 1, f.where)
    ctx.ob("C18.R5", "add_log_entry adds matching entries to _filtered_entries", len(view) >= 1, f.where)

    def paused_false(node):
        return any(ap(e) == "self.paused" and not pol for e, pol in facts(node, f.node))
    for s in raw + view:
        name = s.path.split(".")[-1]
        is_append = s.kind == "mutcall" and s.method == "append" and len(s.node.args) == 1 and \
            isinstance(s.node.args[0], ast.Name) and s.node.args[0].id == entry
        ctx.ob("C18.R5", f"add_log_entry: {name} grows only by append(entry)", is_append, ctx.w(f, s.node),
               f"`{norm(s.node)}`: arrival order / one entry per call is not preserved")
        ctx.ob("C18.R5", f"add_log_entry: {name} append is skipped while paused", paused_false(s.node), ctx.w(f, s.node),
               "entries handed to a paused logger (e.g. through WrappingMessageLogger) are retained and shown")
    # locals holding the verdict of self.filter.match(entry)
    verdicts = {x.path for x in sts if x.kind == "assign" and isinstance(x.target, ast.Name) and x.value is not None and
                _is_filter_match(x.value, entry)}
    verdicts = {v for v in verdicts if sum(1 for x in sts if x.path == v) == 1}

    def match_fact(e, pol):
        return pol and (_is_filter_match(e, entry) or (isinstance(e, ast.Name) and e.id in verdicts))
    # the entry is retained before the filter (which may raise) is evaluated
    mcalls = [c for c in calls(f.node) if _is_filter_match(c, entry)]
    rn_ = {n for r in raw for n in cfg.stmt_nodes_containing(r.node)}
    reach_ = cfg.reachable([cfg.entry], avoid=lambda n: n in rn_)
    for c in mcalls:
        mn = cfg.stmt_nodes_containing(c)
        ctx.ob("C18.R5", "add_log_entry: the entry is retained before the filter is evaluated",
               bool(mn) and bool(rn_) and not any(n in reach_ for n in mn), ctx.w(f, c),
               "if evaluating the filter raises, the entry is never retained and cannot show up after re-filtering")
    for s in view:
        ctx.ob("C18.R5", "add_log_entry: view append is control-dependent on self.filter.match(entry)",
               any(match_fact(e, pol) for e, pol in facts(s.node, f.node)), ctx.w(f, s.node),
               "an entry is shown without having matched the current filter")
        # raw append on every path to the view append
        vn = cfg.stmt_nodes_containing(s.node)
        rn = {n for r in raw for n in cfg.stmt_nodes_containing(r.node)}
        reach = cfg.reachable([cfg.entry], avoid=lambda n: n in rn)
        ctx.ob("C18.R5", "add_log_entry: raw append precedes the view append on every path",
               bool(vn) and bool(rn) and not any(n in reach for n in vn), ctx.w(f, s.node),
               "a shown entry might not be retained (re-filtering would lose it)")
    # ---- set_filter
    sf = inline_self_calls(repo, repo.fn("FilteringMessageLogger.set_filter"))
    scfg = CFG(sf.node)
    fstores = [s for s in stores(sf.node) if s.path == "self.filter" and s.kind == "assign"]
    ctx.ob("C18.R5", "set_filter installs the new filter", len(fstores) >= 1, sf.where)
    fnodes = {n for s in fstores for n in scfg.stmt_nodes_containing(s.node)}
    vstores = [s for s in stores(sf.node) if s.path == "self._filtered_entries"]
    ctx.ob("C18.R5", "set_filter rebuilds the view", len(vstores) >= 1, sf.where)
    from_raw = False
    for s in vstores:
        where = ctx.w(sf, s.node)
        comp = None
        if s.kind == "assign":
            val_ = s.value
            if isinstance(val_, ast.Name):
                # a local bound once to the comprehension that builds the new view
                cands_ = [x.value for x in stores(sf.node) if x.path == val_.id and x.kind == "assign" and x.value is not None]
                if len(cands_) == 1:
                    val_ = cands_[0]
            comp = _comp_of(val_)
            if comp is None and isinstance(val_, (ast.List,)) and not val_.elts:
                continue  # reset to empty
            if comp is None and isinstance(val_, ast.Call) and ap(val_.func) == "list" and len(val_.args) == 1:
                comp = _comp_of(val_.args[0])
        elif s.kind == "mutcall" and s.method == "extend" and len(s.node.args) == 1:
            comp = _comp_of(s.node.args[0])
        elif s.kind == "mutcall" and s.method == "clear":
            continue
        elif s.kind == "mutcall" and s.method == "append" and len(s.node.args) == 1 and isinstance(s.node.args[0], ast.Name):
            v = s.node.args[0].id
            loops = [a for a in ancestors(s.node) if isinstance(a, ast.For) and isinstance(a.target, ast.Name) and a.target.id == v]
            ok = bool(loops) and any(pol and _is_filter_match(e, v) for e, pol in facts(s.node, sf.node))
            ctx.ob("C18.R5", f"set_filter: `{norm(s.node)}` only adds entries matching the filter", ok, where)
            if loops and ap(loops[0].iter) == "self._raw_entries":
                from_raw = True
            continue
        if comp is None:
            ctx.ob("C18.R5", f"set_filter: `{norm(s.node)}` is a filtering rebuild", False, where,
                   "the view is changed by something other than filtering retained entries")
            continue
        matched, source, excl = _comp_checked(comp, sf.node)
        if source and "." not in source:
            # a local bound once to (a copy of) one of the two buffers
            vals = [x.value for x in stores(sf.node) if x.path == source and x.kind == "assign" and x.value is not None]
            if len(vals) == 1:
                v0 = vals[0]
                if isinstance(v0, ast.Call) and ap(v0.func) in ("list", "tuple") and len(v0.args) == 1:
                    v0 = v0.args[0]
                if ap(v0) in ("self._raw_entries", "self._filtered_entries"):
                    source = ap(v0)
        ctx.ob("C18.R5", f"set_filter: view part from {source} is filtered by self.filter.match", matched, where,
               "entries enter the view without matching the new filter")
        if source == "self._raw_entries":
            from_raw = True
        elif source == "self._filtered_entries":
            ctx.ob("C18.R5", "set_filter: kept aged-out entries exclude those still in _raw_entries", excl, where,
                   "entries still retained are added again from _raw_entries: duplicates in the view")
        else:
            ctx.ob("C18.R5", f"set_filter: view source {source} is the retained log", False, where)
        # new filter installed before it is used
        sn = scfg.stmt_nodes_containing(s.node)
        reach = scfg.reachable([scfg.entry], avoid=lambda n: n in fnodes)
        ctx.ob("C18.R5", f"set_filter: new filter installed before filtering {source}",
               bool(sn) and not any(n in reach for n in sn), where, "the view is rebuilt with the previous filter")
    ctx.ob("C18.R5", "set_filter: retained entries (_raw_entries) matching the filter enter the view in order", from_raw,
           sf.where)
    # ---- clear
    cf = inline_self_calls(repo, repo.fn("FilteringMessageLogger.clear"))
    for field in VIEW_OWNERS:
        emptied = any(s.path == f"self.{field}" and ((s.kind == "mutcall" and s.method == "clear") or
                                                      (s.kind == "assign" and s.value is not None and
                                                       not facts(s.node, cf.node)))
                      for s in stores(cf.node))
        ctx.ob("C18.R5", f"clear empties {field}", emptied, cf.where)


# --------------------------------------------------------------------------- R6 key agreement

def _const_keys_read(fn_node, var: str, into_defs=True) -> Dict[str, ast.AST]:
    """String keys k with `var[k]` loaded / `var.get(k)` / `k in var` somewhere in the function."""
    out: Dict[str, ast.AST] = {}
    for n in walk(fn_node, into_defs=into_defs):
        if isinstance(n, ast.Subscript) and isinstance(n.ctx, ast.Load) and isinstance(n.value, ast.Name) and \
                n.value.id == var and isinstance(n.slice, ast.Constant) and isinstance(n.slice.value, str):
            out.setdefault(n.slice.value, n)
        elif isinstance(n, ast.Call) and isinstance(n.func, ast.Attribute) and n.func.attr == "get" and \
                isinstance(n.func.value, ast.Name) and n.func.value.id == var and n.args and \
                isinstance(n.args[0], ast.Constant) and isinstance(n.args[0].value, str):
            out.setdefault(n.args[0].value, n)
    return out


def _dict_literal_keys(d: ast.Dict) -> Dict[str, ast.AST]:
    out = {}
    for k, v in zip(d.keys, d.values):
        if not (isinstance(k, ast.Constant) and isinstance(k.value, str)):
            raise AnalysisError(f"non-literal key in exported dict `{norm(d)}`")
        out[k.value] = v
    return out


def _keys_written_base(f) -> Dict[str, ast.AST]:
    rets = returns_of(f.node)
    if len(rets) != 1 or not isinstance(rets[0].value, ast.Dict):
        raise AnalysisError(f"{f.qual} no longer returns one dict literal")
    return _dict_literal_keys(rets[0].value)


def _keys_written_sub(f) -> Tuple[Dict[str, ast.AST], bool]:
    """Subclass to_dict: `val = super().to_dict(); val[k] = ...; return val`."""
    rets = returns_of(f.node)
    if len(rets) != 1 or not isinstance(rets[0].value, ast.Name):
        raise AnalysisError(f"{f.qual}: unsupported to_dict shape")
    var = rets[0].value.id
    sup = any(s.path == var and s.kind == "assign" and isinstance(s.value, ast.Call) and
              ap(s.value.func) == "super().to_dict" for s in stores(f.node))
    keys = {}
    for s in stores(f.node):
        if s.path == var and s.kind == "setitem" and isinstance(s.target.slice, ast.Constant) and \
                isinstance(s.target.slice.value, str):
            keys[s.target.slice.value] = s.value
    return keys, sup


def _const_str_table(repo, fi, v) -> Optional[set]:
    """String elements of a constant tuple/list/set expression or of a class / module constant naming one."""
    if fi is not None and isinstance(v, ast.Attribute) and isinstance(v.value, ast.Name) and v.value.id in ("self", "cls") \
            and fi.cls is not None:
        v = repo.class_attr(fi.cls, v.attr)
    elif fi is not None and isinstance(v, ast.Name):
        v = (repo.class_attr(fi.cls, v.id) if fi.cls is not None else None) or repo.module_assign(fi.module, v.id)
    if isinstance(v, (ast.Tuple, ast.List, ast.Set)) and all(isinstance(e, ast.Constant) and isinstance(e.value, str) for e in v.elts):
        return {e.value for e in v.elts}
    return None


def _helper_literal_args(fn_node, prefix: str, repo=None, fi=None) -> Tuple[Optional[str], set]:
    """Nested helper whose name starts with prefix: literal string args of its calls (a call inside a loop over a
    constant table of strings counts for every element of the table)."""
    names = [d.name for d in walk(fn_node) if isinstance(d, FUNC_TYPES) and d is not fn_node and d.name.startswith(prefix)]
    if len(names) != 1:
        return None, set()
    args = set()
    for c in calls(fn_node):
        if ap(c.func) == names[0]:
            a = c.args[0] if len(c.args) == 1 else None
            if isinstance(a, ast.Constant) and isinstance(a.value, str):
                args.add(a.value)
                continue
            tab = None
            if isinstance(a, ast.Name) and repo is not None:
                loops = [l for l in ancestors(c) if isinstance(l, ast.For) and isinstance(l.target, ast.Name) and l.target.id == a.id]
                tab = _const_str_table(repo, fi, loops[0].iter) if loops else None
            if tab is None:
                raise AnalysisError(f"non-literal argument to {names[0]}")
            args |= tab
    return names[0], args


def _table_loop_keys(repo, fi, dict_name: str) -> Tuple[Optional[str], set]:
    """`for key in <constant tuple of strings>: ... <dict_name>[key] ...` -> (table text, keys)."""
    for l in walk(fi.node, into_defs=True):
        if not (isinstance(l, ast.For) and isinstance(l.target, ast.Name)):
            continue
        if not any(isinstance(x, ast.Subscript) and ap(x.value) == dict_name and isinstance(x.slice, ast.Name) and
                   x.slice.id == l.target.id for x in ast.walk(l)):
            continue
        tab = _const_str_table(repo, fi, l.iter)
        if tab is not None:
            return norm(l.iter), tab
    return None, set()


def _table_call_keys(repo, fi, dict_name: str) -> Tuple[Optional[str], set]:
    """`helper(<dict_name>, <constant table of strings>, ...)` -> (call text, keys)."""
    for c in calls(fi.node):
        if any(isinstance(a, ast.Name) and a.id == dict_name for a in c.args):
            for a in c.args:
                tab = _const_str_table(repo, fi, a) if isinstance(a, (ast.Name, ast.Attribute, ast.Tuple, ast.List)) else None
                if tab:
                    return norm(c), tab
    return None, set()


def _root_attr(e, recv: str) -> Optional[str]:
    """First attribute read off `recv` inside expression e (self.direction.name -> direction)."""
    found = []
    for n in ast.walk(e):
        if isinstance(n, ast.Attribute) and isinstance(n.value, ast.Name) and n.value.id == recv:
            found.append(n.attr)
    return found[0] if len(set(found)) == 1 else None


def effective_code(repo, ci, start_name: str, flow_param: Optional[int] = None, depth=3):
    """The functions that run when `start_name` is called on concrete class `ci`: the method found through the MRO
    plus every self./cls. callee resolved against `ci` (template method + hooks).  With flow_param = index of a
    parameter of the start method, also tracks into which parameter of each callee that argument is passed:
    returns [(FuncInfo, param name | None)]."""
    m0 = repo.lookup_method(ci, start_name)
    if m0 is None:
        return []
    p0 = None
    if flow_param is not None:
        ps = [a.arg for a in m0.node.args.args]
        p0 = ps[flow_param] if flow_param < len(ps) else None
    out, frontier = [(m0, p0)], [(m0, p0)]
    for _ in range(depth):
        nxt = []
        for g, gp in frontier:
            for c in calls(g.node, into_defs=True):
                fn = c.func
                if isinstance(fn, ast.Attribute) and isinstance(fn.value, ast.Name) and fn.value.id in ("self", "cls"):
                    m = repo.lookup_method(ci, fn.attr)
                    if m is None or any(m == x for x, _ in out):
                        continue
                    mp = None
                    if gp is not None:
                        ps = [a.arg for a in m.node.args.args][1:]
                        for i, a in enumerate(c.args):
                            if isinstance(a, ast.Name) and a.id == gp and i < len(ps):
                                mp = ps[i]
                        for k in c.keywords:
                            if isinstance(k.value, ast.Name) and k.value.id == gp and k.arg in ps:
                                mp = k.arg
                    out.append((m, mp))
                    nxt.append((m, mp))
        frontier = nxt
    return out


def r6(ctx):
    repo = ctx.repo
    ctx.rule("C18.R6", "export/import key agreement: keys written by each to_dict = keys read by the matching "
                       "from_dict/apply_dict; Message.to_dict(extended) <-> Message.from_dict (keys and attributes); "
                       "_TYPE_CLASSES keys = the entry classes' type constants")
    base = repo.cls("AbstractMessageLogEntry", LOGR)
    td = repo.fn("AbstractMessageLogEntry.to_dict")
    adp = repo.fn("AbstractMessageLogEntry.apply_dict")
    imp = repo.fn("import_log_entries", LOGR)
    written = _keys_written_base(td)
    aparams = [a.arg for a in adp.node.args.args]
    ctx.require(len(aparams) == 2, "apply_dict signature changed")
    read = _const_keys_read(adp.node, aparams[1])
    # dispatcher key
    disp = []
    from .common import module_funcs_reachable
    for g in module_funcs_reachable(repo, imp, depth=3):      # the dispatch may live in a helper (_log_entry_from_dict)
        for n in walk(g.node, into_defs=True):
            if isinstance(n, ast.Subscript) and ap(n.value) == "_TYPE_CLASSES" and isinstance(n.slice, ast.Subscript) and \
                    isinstance(n.slice.slice, ast.Constant):
                disp.append(n.slice.slice.value)
    ctx.ob("C18.R6", "import_log_entries dispatches on one literal key of the exported dict", len(disp) == 1, imp.where,
           f"found {disp}")
    ctx.floor("C18.R6", "keys exported by AbstractMessageLogEntry.to_dict", len(written), 3)
    for k, node in sorted(read.items()):
        ctx.ob("C18.R6", f"apply_dict reads {k!r}: written by to_dict", k in written, ctx.w(adp, node),
               "import reads a key the export never writes (KeyError / lost state)")
    for k in disp:
        ctx.ob("C18.R6", f"import_log_entries reads {k!r}: written by to_dict", k in written, imp.where)
    for k, node in sorted(written.items()):
        ctx.ob("C18.R6", f"to_dict writes {k!r}: consumed on import", k in read or k in disp, ctx.w(td, node),
               "exported state that the import drops")
    # meta uuid (de)hydration sets
    dn, dset = _helper_literal_args(td.node, "_dehydrate", repo, td)
    hn, hset = _helper_literal_args(adp.node, "_hydrate", repo, adp)
    if dn is None:
        dn, dset = _table_loop_keys(repo, td, "meta")
    if hn is None:
        hn, hset = _table_loop_keys(repo, adp, "meta")
    if dn is None:
        dn, dset = _table_call_keys(repo, td, "meta")
    if hn is None:
        hn, hset = _table_call_keys(repo, adp, "meta")
    if dn is None and hn is None:
        ctx.note("C18.R6: meta UUID (de)hydration helpers not found; meta key agreement not compared")
    else:
        for k in sorted(dset | hset):
            ctx.ob("C18.R6", f"meta key {k!r} stringified on export iff re-hydrated on import", k in dset and k in hset,
                   td.where if k in dset else adp.where, "a UUID meta value comes back as a string (or a string as UUID)")

    # _TYPE_CLASSES vs type constants
    lmod = repo.module(LOGR)
    tc = repo.module_assign(lmod, "_TYPE_CLASSES")
    ctx.require(isinstance(tc, ast.Dict), "_TYPE_CLASSES is not a dict literal")
    rows = {}
    for k, v in zip(tc.keys, tc.values):
        ctx.require(isinstance(k, ast.Constant) and isinstance(k.value, str) and isinstance(v, ast.Name),
                    "_TYPE_CLASSES row is not 'literal': ClassName")
        rows[k.value] = v.id
    ctx.floor("C18.R6", "_TYPE_CLASSES rows", len(rows), 3)

    def type_const(ci) -> Optional[str]:
        m = repo.lookup_method(ci, "type")
        if m is None:
            return None
        rets = returns_of(m.node)
        if len(rets) == 1 and isinstance(rets[0].value, ast.Constant) and isinstance(rets[0].value.value, str):
            return rets[0].value.value
        return None
    for k, cname in sorted(rows.items()):
        ci = repo.cls(cname, LOGR)
        ctx.ob("C18.R6", f"_TYPE_CLASSES[{k!r}] is the class whose type is {k!r}", type_const(ci) == k, ctx.w(lmod, tc),
               f"{cname}.type is {type_const(ci)!r}: exported entries of that class are re-imported as another class")
    subs = [c for c in repo.subclasses(base, strict=True) if "type" in c.methods]
    ctx.floor("C18.R6", "concrete log entry classes", len(subs), 3)
    for ci in sorted(subs, key=lambda c: c.name):
        ctx.ob("C18.R6", f"{ci.name} is importable (row in _TYPE_CLASSES)", ci.name in rows.values(), ctx.w(lmod, tc),
               "entries of this class are exported with a type the importer cannot dispatch")
        # subclass to_dict / from_dict pair
        t2 = ci.methods.get("to_dict")
        f2 = repo.lookup_method(ci, "from_dict")
        # from_dict as it runs for this class: its own, or the base's template method with this class's hooks
        fcode = [(g, gp) for g, gp in effective_code(repo, ci, "from_dict", flow_param=1)
                 if g.name != "apply_dict" and not any(isinstance(d, ast.Attribute) and d.attr == "abstractmethod" or
                                                       (ap(d) or "").endswith("abstractmethod") for d in g.node.decorator_list)]
        own = any(g.cls is not None and g.cls == ci for g, _ in fcode)
        ctx.ob("C18.R6", f"{ci.name} defines the to_dict/from_dict pair", t2 is not None and f2 is not None and own,
               ctx.w(lmod, ci.node))
        if t2 is None or f2 is None or not own:
            continue
        wkeys, sup = _keys_written_sub(t2)
        fparams = [a.arg for a in f2.node.args.args]
        ctx.require(len(fparams) == 2, f"{ci.name}.from_dict signature changed")
        rkeys = {}
        for g, gp in fcode:
            if gp is not None:
                for k, v in _const_keys_read(g.node, gp).items():
                    rkeys.setdefault(k, v)
        ctx.ob("C18.R6", f"{ci.name}.to_dict extends super().to_dict()", sup, t2.where)
        ctx.ob("C18.R6", f"{ci.name}.from_dict applies the base keys (apply_dict(val))",
               any(call_attr(c) == "apply_dict" and c.args and ap(c.args[0]) == gp for g, gp in fcode for c in calls(g.node)),
               f2.where, "region name / agent id / summary / meta are dropped on import")
        for k in sorted(set(wkeys) | set(rkeys)):
            if k in read or k in written:
                continue
            ctx.ob("C18.R6", f"{ci.name}: key {k!r} written by to_dict and read by from_dict", k in wkeys and k in rkeys,
                   t2.where if k in wkeys else f2.where,
                   "written but never read" if k in wkeys else "read but never written (KeyError on import)")
        # textual encodings pair up
        enc = {call_attr(c) for c in calls(t2.node) if (ap(c.func) or "").startswith("llsd.format_")}
        dec = {call_attr(c) for g, _ in fcode for c in calls(g.node) if (ap(c.func) or "").startswith("llsd.parse_")}
        if enc or dec:
            ctx.ob("C18.R6", f"{ci.name}: llsd encoding on export matches the parser on import",
                   {e.replace("format_", "") for e in enc} == {d.replace("parse_", "") for d in dec}, t2.where,
                   f"export uses {sorted(enc)}, import uses {sorted(dec)}")

    # Message.to_dict(extended=True) <-> Message.from_dict
    mt = inline_self_calls(repo, repo.fn("Message.to_dict", MSG))
    mf = repo.fn("Message.from_dict", MSG)
    base_var = None
    wmap: Dict[str, Optional[str]] = {}
    for s in stores(mt.node):
        if s.kind == "assign" and isinstance(s.value, ast.Dict) and isinstance(s.target, ast.Name):
            rets = returns_of(mt.node)
            if any(isinstance(r.value, ast.Name) and r.value.id == s.path for r in rets):
                base_var = s.path
                for k, v in _dict_literal_keys(s.value).items():
                    wmap[k] = _root_attr(v, "self")
    ctx.require(base_var is not None, "Message.to_dict: returned dict literal not found")
    ext_param = [a.arg for a in mt.node.args.args][1:]
    ctx.require(ext_param == ["extended"], "Message.to_dict signature changed (self, extended)")
    for c in find_calls(mt.node, "update"):
        if ap(c.func) == f"{base_var}.update" and c.args and isinstance(c.args[0], ast.Dict):
            for k, v in _dict_literal_keys(c.args[0]).items():
                wmap[k] = _root_attr(v, "self")
    for s in stores(mt.node):
        if s.path == base_var and s.kind == "setitem" and isinstance(s.target.slice, ast.Constant):
            wmap[s.target.slice.value] = _root_attr(s.value, "self") if s.value is not None else None
    fparams = [a.arg for a in mf.node.args.args]
    ctx.require(len(fparams) == 2, "Message.from_dict signature changed")
    dv = fparams[1]
    # from_dict plus the Message methods it hands the dict to (on self / cls / the message being built)
    mcls = repo.cls("Message", MSG)
    readers = [(mf, dv)]
    for g, gp in list(readers):
        for c in calls(g.node):
            if isinstance(c.func, ast.Attribute) and not (ap(c.func) or "").startswith(("llsd.", "LOG.")):
                m = repo.lookup_method(mcls, c.func.attr)
                if m is None or any(m == x for x, _ in readers) or m.module is not mf.module:
                    continue
                ps = [a.arg for a in m.node.args.args][1:]
                for i, a in enumerate(c.args):
                    if isinstance(a, ast.Name) and a.id == gp and i < len(ps):
                        readers.append((m, ps[i]))
    rmap: Dict[str, Optional[str]] = {}
    for g, gp in readers:
        for k in _const_keys_read(g.node, gp):
            rmap.setdefault(k, None)
        for s in stores(g.node):
            if s.kind == "assign" and isinstance(s.target, ast.Attribute) and s.value is not None:
                ks = list(_const_keys_read(s.value, gp))
                if len(ks) == 1:
                    rmap[ks[0]] = s.target.attr
    ctx.floor("C18.R6", "keys of Message.to_dict(extended=True)", len(wmap), 6)
    for k in sorted(set(wmap) | set(rmap)):
        ctx.ob("C18.R6", f"Message: key {k!r} written by to_dict and read by from_dict", k in wmap and k in rmap,
               mt.where if k in wmap else mf.where,
               "exported but dropped on import" if k in wmap else "read but never written (KeyError on import)")
        if k in wmap and k in rmap and wmap[k] and rmap[k]:
            ctx.ob("C18.R6", f"Message: key {k!r} carries the same attribute both ways", wmap[k] == rmap[k], mf.where,
                   f"to_dict stores self.{wmap[k]}, from_dict assigns msg.{rmap[k]}")
    # everything the UDP serializer writes from must travel in the extended dict (else a re-imported entry
    # re-serialises to other bytes than the logged packet)
    from .c01 import SER
    smod = repo.module(SER)
    wire = {}
    for g in repo.all_funcs:
        if g.module is not smod or g.cls is None:
            continue
        ps = [a.arg for a in g.node.args.args]
        for x in walk(g.node, into_defs=True):
            if isinstance(x, ast.Attribute) and isinstance(x.value, ast.Name) and x.value.id in ("msg", "message") and \
                    x.value.id in ps and isinstance(x.ctx, ast.Load):
                wire.setdefault(x.attr, (g, x))
    carried = {v for v in wmap.values() if v}
    props = {n_ for n_, m_ in mcls.methods.items() if any((ap(d) or "").split(".")[-1] == "property" for d in m_.node.decorator_list)}
    n_wire = 0
    for attr, (g, x) in sorted(wire.items()):
        if attr in ("blocks", "raw_body", "_blocks") or (attr in props and attr != "blocks") or \
                repo.lookup_method(mcls, attr) is not None:
            continue   # the body travels as 'body'; properties are derived from exported state; methods are not state
        n_wire += 1
        ctx.ob("C18.R6", f"Message: wire state {attr!r} (read by the UDP serializer) is carried by to_dict(extended=True)",
               attr in carried, ctx.w(g, x),
               f"msg.{attr} shapes the serialised packet but is neither exported nor re-imported: the re-imported entry's "
               f"message re-serialises to different bytes than the one that was logged")
    ctx.floor("C18.R6", "message attributes read by the UDP serializer", n_wire, 4)
    # a summary is part of every exported entry: parsing foreign content for it must not be able to raise
    for ci in sorted(subs, key=lambda c: c.name):
        for g, _ in effective_code(repo, ci, "summary", depth=2):
            for c in calls(g.node):
                if (ap(c.func) or "").startswith("llsd.parse") or (call_attr(c) or "").startswith("parse_") and \
                        (ap(c.func) or "").startswith("llsd."):
                    why = _swallowed(c, g.node)
                    ctx.ob("C18.R6", f"{ci.name}.summary: `{norm(c)}` cannot raise out of the export", why is None, ctx.w(g, c),
                           f"{why}: a body that is not what its content type says makes to_dict() / export_log_entries() "
                           f"raise for the whole log (and leaves a half-built summary behind)")
    # per-key effects: to_dict emits a (possibly empty) list per block name; from_dict must recreate the list
    # independently of its elements
    def per_key_effect(fn_info, outer: ast.For, key_name: str, list_name: Optional[str]) -> bool:
        for n in walk(ast.Module(body=outer.body, type_ignores=[])):
            inner = [a for a in ancestors(n) if isinstance(a, (ast.For, ast.While, ast.If)) and
                     any(x is outer for x in ancestors(a))]
            blocked = False
            for a in inner:
                if isinstance(a, (ast.For, ast.While)):
                    blocked = True
                elif list_name and list_name in {x.id for x in ast.walk(a.test) if isinstance(x, ast.Name)}:
                    blocked = True
            if blocked:
                continue
            if isinstance(n, ast.Call) and any(isinstance(a, ast.Name) and a.id == key_name for a in n.args) and \
                    isinstance(n.func, ast.Attribute) and (ap(n.func) or "").split(".")[0] not in ("LOG", "logging", "logger"):
                return True
            if isinstance(n, ast.Subscript) and isinstance(n.ctx, ast.Store) and isinstance(n.slice, ast.Name) and \
                    n.slice.id == key_name:
                return True
        return False
    def _key_target(t):
        if isinstance(t, ast.Name):
            return t.id
        if isinstance(t, ast.Tuple) and t.elts and isinstance(t.elts[0], ast.Name):
            return t.elts[0].id
        return None
    w_loops = [l for l in walk(mt.node) if isinstance(l, ast.For) and _key_target(l.target) and
               (ap(l.iter) or "").replace(".keys()", "").replace(".items()", "") == "self.blocks"]
    r_loops = [l for l in walk(mf.node) if isinstance(l, ast.For) and isinstance(l.target, ast.Tuple) and len(l.target.elts) == 2 and
               all(isinstance(t, ast.Name) for t in l.target.elts) and isinstance(l.iter, ast.Call) and call_attr(l.iter) == "items" and
               "body" in list(_const_keys_read(l.iter, dv))]
    # the writer may also be a dict comprehension over self.blocks (one entry per block name, empty lists included)
    w_comps = [n for n in walk(mt.node) if isinstance(n, ast.DictComp) and len(n.generators) == 1 and
               (ap(n.generators[0].iter) or "").replace(".keys()", "").replace(".items()", "") == "self.blocks"]
    ctx.require(len(w_loops) + len(w_comps) == 1 and len(r_loops) == 1,
                f"Message.to_dict/from_dict: block loops not found (writer {len(w_loops) + len(w_comps)}, reader {len(r_loops)})")
    if w_loops:
        w_emits = per_key_effect(mt, w_loops[0], _key_target(w_loops[0].target), None)
    else:
        w_emits = not w_comps[0].generators[0].ifs
    r_key, r_list = r_loops[0].target.elts[0].id, r_loops[0].target.elts[1].id
    r_creates = per_key_effect(mf, r_loops[0], r_key, r_list)
    ctx.ob("C18.R6", "Message.from_dict recreates every block list to_dict emits, also an empty one",
           (not w_emits) or r_creates, ctx.w(mf, r_loops[0]),
           f"to_dict writes an entry for every block name (possibly []), but from_dict only acts on `{r_key}` inside the "
           f"loop over `{r_list}`: a zero-length block list vanishes on import")
    # LLUDP entry exports the extended form
    lt = repo.fn("LLUDPMessageLogEntry.to_dict")
    ext = [c for c in find_calls(lt.node, "to_dict") if ap(c.func) != "super().to_dict"]
    ok = len(ext) == 1 and (any(k.arg == "extended" and isinstance(k.value, ast.Constant) and k.value.value is True
                                for k in ext[0].keywords) or
                            (ext[0].args and isinstance(ext[0].args[0], ast.Constant) and ext[0].args[0].value is True))
    ctx.ob("C18.R6", "LLUDPMessageLogEntry.to_dict exports Message.to_dict(extended=True)", ok, lt.where,
           "packet id, flags, direction, acks, meta are not exported")



# --------------------------------------------------------------------------- R7 selection loops

def _is_success(e, pol, env=None, depth=0) -> bool:
    """The condition says that the field at hand satisfies the filter node: a truthy _val_matches(...),
    or `<matcher>.value is None` (existence-only selector).  With env = (repo, concrete class, function node) also:
    a local that only ever holds such verdicts, bool(<verdict>), and a self.<helper>(...) every truthy return of
    which is such a verdict."""
    if depth > 5:
        return False
    if isinstance(e, ast.UnaryOp) and isinstance(e.op, ast.Not):
        return _is_success(e.operand, not pol, env, depth)
    if isinstance(e, ast.BoolOp):
        if isinstance(e.op, ast.Or) and pol:
            return all(_is_success(v, True, env, depth) for v in e.values)
        if isinstance(e.op, ast.And) and pol:
            return any(_is_success(v, True, env, depth) for v in e.values)
        return False
    if isinstance(e, ast.Call) and call_attr(e) == "_val_matches":
        return pol
    if isinstance(e, ast.Compare) and len(e.ops) == 1 and isinstance(e.comparators[0], ast.Constant) and \
            e.comparators[0].value is None and (ap(e.left) or "").endswith(".value"):
        return (isinstance(e.ops[0], ast.Is) and pol) or (isinstance(e.ops[0], ast.IsNot) and not pol)
    if env is None or not pol:
        return False
    repo, ci, fn_node = env
    if isinstance(e, ast.Call) and ap(e.func) == "bool" and len(e.args) == 1:
        return _is_success(e.args[0], True, env, depth + 1)
    if isinstance(e, ast.Name):
        vals = [st.value for st in stores(fn_node, into_defs=False) if st.path == e.id and st.kind == "assign"]
        return bool(vals) and all(v is not None and (_falsy_const(v) or _is_success(v, True, env, depth + 1)) for v in vals) \
            and not all(_falsy_const(v) for v in vals)
    if isinstance(e, ast.Call) and isinstance(e.func, ast.Attribute) and isinstance(e.func.value, ast.Name) and \
            e.func.value.id in ("self", "cls"):
        m = repo.lookup_method(ci, e.func.attr)
        if m is None:
            return False
        rets = returns_of(m.node)
        if not rets:
            return False
        for r in rets:
            if r.value is None or _falsy_const(r.value):
                continue
            if isinstance(r.value, ast.Constant):
                if not any(_is_success(x, p_, (repo, ci, m.node), depth + 1) for x, p_ in facts(r, m.node)):
                    return False
            elif not _is_success(r.value, True, (repo, ci, m.node), depth + 1):
                return False
        return True
    return False


def _falsy_const(v) -> bool:
    return isinstance(v, ast.Constant) and not v.value


def r7(ctx):
    repo = ctx.repo
    ctx.rule("C18.R7", "'some selected field satisfies it': in LLUDPMessageLogEntry.matches (and helpers) a field is "
                       "recorded only under a successful comparison, and a loop over candidate fields is left early "
                       "(break / return) only after a hit")
    from .common import class_methods_reachable
    lcls = repo.cls("LLUDPMessageLogEntry", LOGR)
    fns = [g for g, _ in effective_code(repo, lcls, "matches", depth=2)
           if g.name not in ("_val_matches", "_base_matches", "_packet_root_matches", "_get_meta")]
    ctx.require(bool(fns), "LLUDPMessageLogEntry.matches vanished")
    n_exits = n_hits = 0
    for g in fns:
        found = set()
        for st in stores(g.node, into_defs=False):
            if st.kind == "assign" and isinstance(st.target, ast.Name) and isinstance(st.value, ast.List) and not st.value.elts:
                found.add(st.path)
        hits = [c for c in calls(g.node) if isinstance(c.func, ast.Attribute) and c.func.attr in ("append", "add", "extend") and
                isinstance(c.func.value, ast.Name) and c.func.value.id in found and
                any(isinstance(a, (ast.For, ast.While)) for a in ancestors(c))]
        cfg = None
        for h in hits:
            n_hits += 1
            ctx.ob("C18.R7", f"{g.qual}: `{norm(h)}` records a field only when it satisfies the comparison",
                   any(_is_success(e, pol, (repo, lcls, g.node)) for e, pol in facts(h, g.node)), ctx.w(g, h),
                   "a field is reported as matching without a successful _val_matches / existence test")
        for n in walk(g.node):
            if not isinstance(n, (ast.Break, ast.Return)):
                continue
            loops = [a for a in ancestors(n) if isinstance(a, (ast.For, ast.While))]
            if not loops:
                continue
            n_exits += 1
            fs = facts(n, g.node)
            ok = any(_is_success(e, pol, (repo, lcls, g.node)) for e, pol in fs) or \
                any(pol and isinstance(e, ast.Name) and e.id in found for e, pol in fs)
            if not ok and hits:
                cfg = cfg or CFG(g.node)
                heads = cfg.nodes_for(loops[0])
                hn = {x for h in hits for x in cfg.stmt_nodes_containing(h)}
                me = cfg.nodes_for(n)
                if heads and me:
                    reach = cfg.reachable(heads, avoid=lambda x: x in hn or x in heads, exc=False)
                    ok = not any(x in reach for x in me)
            kind = "break" if isinstance(n, ast.Break) else f"`{norm(n)}`"
            ctx.ob("C18.R7", f"{g.qual}: {kind} inside `for {norm(loops[0].target)} in {norm(loops[0].iter)}` only after a hit"
                   if isinstance(loops[0], ast.For) else f"{g.qual}: {kind} inside a while loop only after a hit",
                   ok, ctx.w(g, n),
                   "the loop over candidate fields stops although the current candidate did not satisfy the comparison: "
                   "later candidates that do satisfy it are never tried")
    ctx.floor("C18.R7", "early exits from field-selection loops", n_exits, 1)
    ctx.floor("C18.R7", "recorded hits", n_hits, 1)


def r8(ctx):
    repo = ctx.repo
    ctx.rule("C18.R8", "freeze keeps the message recoverable: the live message is released (self._message = None) only "
                       "on paths where the frozen copy was stored, also when pickling raises")
    f = inline_self_calls(repo, repo.fn("LLUDPMessageLogEntry.freeze"))
    cfg = CFG(f.node)
    sts = stores(f.node)
    frozen = [s_ for s_ in sts if s_.path == "self._frozen_message" and s_.kind == "assign"]
    released = [s_ for s_ in sts if s_.path == "self._message" and s_.kind in ("assign", "del") and
                (s_.value is None or (isinstance(s_.value, ast.Constant) and s_.value.value is None))]
    ctx.require(bool(frozen) and bool(released), "LLUDPMessageLogEntry.freeze: frozen-copy store / live-message release not found")
    dn = {n for s_ in frozen for n in (cfg.nodes_for(s_.node) or cfg.stmt_nodes_containing(s_.node))}
    rn = {n for s_ in released for n in (cfg.nodes_for(s_.node) or cfg.stmt_nodes_containing(s_.node))}
    # reachability in which the frozen-copy store never completes normally (only its exceptional edges are followed)
    seen, stack = set(), [cfg.entry]
    while stack:
        n = stack.pop()
        if n in seen:
            continue
        seen.add(n)
        stack.extend(n.exc_succs)
        if n not in dn:
            stack.extend(n.succs)
    bad = sorted((x for x in rn if x in seen), key=lambda x: x.id)
    ctx.ob("C18.R8", "freeze: self._message is released only after self._frozen_message was stored", not bad, f.where,
           "the live message is dropped on a path where storing the pickled copy did not complete (pickling raised): "
           "the entry then has neither a fresh nor a frozen message and every later access raises")
    # thaw side reads what freeze wrote
    mg = repo.fn("LLUDPMessageLogEntry.message")
    loads = [c for c in calls(mg.node) if call_attr(c) == "loads" and c.args and ap(c.args[0]) == "self._frozen_message"]
    dumps = [c for c in calls(f.node) if call_attr(c) == "dumps"]
    for c in dumps:
        a = c.args[0] if c.args else None
        if a is not None and ap(a) == "self._message":
            live = any((ap(e) == "self._message" and pol) or
                       (isinstance(e, ast.Compare) and len(e.ops) == 1 and ap(e.left) == "self._message" and
                        isinstance(e.comparators[0], ast.Constant) and e.comparators[0].value is None and
                        ((isinstance(e.ops[0], ast.IsNot) and pol) or (isinstance(e.ops[0], ast.Is) and not pol)))
                       for e, pol in facts(c, f.node))
            ctx.ob("C18.R8", "freeze pickles a live message (a frozen entry is not frozen again)", live, ctx.w(f, c),
                   "`self._message` is None once the entry is frozen and nothing stops a second freeze(): it stores "
                   "pickle.dumps(None) over the good pickle and the logged message is gone")
    r8_strong_deserializer(ctx)
    if dumps or loads:
        ctx.ob("C18.R8", "freeze / message use the same pickling module both ways",
               bool(dumps) and bool(loads) and {ap(c.func).rsplit(".", 1)[0] for c in dumps} == {ap(c.func).rsplit(".", 1)[0] for c in loads},
               mg.where)


def _enum_base(repo, mod, name: str):
    """('std', 'IntEnum'|'IntFlag') | ('repo', ClassInfo) | None for a class reference seen in module `mod`
    (explicit imports win over star imports, which win over the by-name fallback)."""
    parts = name.split(".")
    last = parts[-1]
    if len(parts) == 2 and mod.imports.get(parts[0]) == "enum":
        return ("std", last) if last in ("IntEnum", "IntFlag") else None
    if len(parts) == 1:
        tgt = mod.imports.get(last)
        if tgt in ("enum.IntEnum", "enum.IntFlag"):
            return "std", tgt.split(".")[1]
        for ci in repo.classes.get(last, []):
            if ci.module is mod:
                return "repo", ci
        if tgt:
            modname, _, attr = tgt.rpartition(".")
            m2 = repo.by_modname.get(modname)
            for ci in repo.classes.get(attr, []):
                if m2 is not None and ci.module is m2:
                    return "repo", ci
            return None
        for star in mod.star_imports:
            m2 = repo.by_modname.get(star)
            for ci in repo.classes.get(last, []):
                if m2 is not None and ci.module is m2:
                    return "repo", ci
            if star == "enum" and last in ("IntEnum", "IntFlag"):
                return "std", last
        return None
    ci = repo.resolve_class(name, mod)
    return ("repo", ci) if ci is not None else None


def _int_enum_family(repo, ci, seen=None):
    """Which stdlib int-enum base ('IntEnum'/'IntFlag') a repo class derives from, and the repo classes on the way."""
    seen = seen or set()
    if ci.qual in seen:
        return None, []
    seen.add(ci.qual)
    for b in ci.base_names:
        r = _enum_base(repo, ci.module, b)
        if r is None:
            continue
        if r[0] == "std":
            return r[1], [ci]
        fam, chain = _int_enum_family(repo, r[1], seen)
        if fam:
            return fam, [ci] + chain
    return None, []


def r8_strong_deserializer(ctx):
    """Message.deserializer is only a weak reference; an entry whose message is still unparsed (deferred parsing is
    the default) needs the deserializer itself to stay alive and to be re-attached on thaw."""
    repo = ctx.repo
    lcls = repo.cls("LLUDPMessageLogEntry", LOGR)
    getter = repo.lookup_method(lcls, "message")
    ctx.require(getter is not None, "LLUDPMessageLogEntry.message vanished")
    gcode = [g for g, _ in effective_code(repo, lcls, "message", depth=2)]
    attach = [st for g in gcode for st in stores(g.node) if st.kind == "assign" and st.path.endswith(".deserializer") and
              not st.path.startswith("self.") and st.value is not None]
    slots = sorted({x.attr for st in attach for x in ast.walk(st.value) if isinstance(x, ast.Attribute) and
                    isinstance(x.value, ast.Name) and x.value.id == "self"})
    ctx.ob("C18.R8", "thawing re-attaches a deserializer kept by the entry to the unpickled message", len(slots) == 1, getter.where,
           f"the thawed message gets its deserializer from {slots or 'nothing'}: an unparsed (deferred) body can no longer be parsed")
    if len(slots) != 1:
        return
    slot = slots[0]

    def leaves(fi, e, depth=0):
        if depth > 5:
            return [("unknown", e)]
        if isinstance(e, ast.IfExp):
            return leaves(fi, e.body, depth + 1) + leaves(fi, e.orelse, depth + 1)
        if isinstance(e, ast.BoolOp):
            vals = e.values if isinstance(e.op, ast.Or) else e.values[-1:]
            return [x for v in vals for x in leaves(fi, v, depth + 1)]
        if isinstance(e, ast.Constant) and e.value is None:
            return []
        if isinstance(e, ast.Call) and isinstance(e.func, ast.Attribute) and e.func.attr == "deserializer" and not e.args:
            return [("strong", e)]
        if isinstance(e, ast.Call) and isinstance(e.func, ast.Name) and not e.args:
            # calling a local that holds the message's weak reference dereferences it
            vals = [st.value for st in stores(fi.node, into_defs=False) if st.path == e.func.id and st.kind == "assign" and st.value is not None]
            if vals and all(isinstance(v, ast.Attribute) and v.attr == "deserializer" for v in vals):
                return [("strong", e)]
        wk = ap(e.func) if isinstance(e, ast.Call) else None
        if wk in ("weakref.ref", "weakref.proxy", "weakref.WeakMethod") or \
                (wk in ("ref", "proxy") and fi.module.imports.get(wk, "").startswith("weakref.")):
            return [("weak", e)]
        if isinstance(e, ast.Attribute) and e.attr == "deserializer":
            return [("weak", e)]
        if isinstance(e, ast.Attribute) and ap(e) == f"self.{slot}":
            return []
        if isinstance(e, ast.Call) and isinstance(e.func, ast.Attribute) and isinstance(e.func.value, ast.Name) and \
                e.func.value.id in ("self", "cls"):
            m = repo.lookup_method(lcls, e.func.attr)
            if m is not None:
                return [x for r in returns_of(m.node) if r.value is not None for x in leaves(m, r.value, depth + 1)]
        if isinstance(e, ast.Name):
            vals = [st.value for st in stores(fi.node, into_defs=False) if st.path == e.id and st.kind == "assign" and st.value is not None]
            if vals:
                return [x for v in vals for x in leaves(fi, v, depth + 1)]
        return [("unknown", e)]
    n_strong = 0
    for m in lcls.methods.values():
        for st in stores(m.node):
            if st.path == f"self.{slot}" and st.kind == "assign" and st.value is not None:
                lv = leaves(m, st.value)
                weak = [norm(x) for k, x in lv if k == "weak"]
                n_strong += sum(1 for k, _ in lv if k == "strong")
                ctx.ob("C18.R8", f"{m.qual}: self.{slot} keeps the deserializer itself, not the message's weak reference",
                       not weak, ctx.w(m, st.node),
                       f"`{weak[0] if weak else ''}` is (only) a weak reference: once the session's deserializer is collected, a "
                       f"frozen / not yet parsed entry thaws to a message without blocks")
    ctx.ob("C18.R8", f"the entry takes a strong reference to the message's deserializer (self.{slot} = <msg>.deserializer())",
           n_strong >= 1, lcls.methods.get("__init__", getter).where,
           "nothing keeps the deserializer of a deferred message alive for the lifetime of the entry")
    for st in attach:
        wraps = isinstance(st.value, ast.Call) and call_attr(st.value) in ("ref", "WeakMethod") or isinstance(st.value, ast.Lambda)  # noqa
        ctx.ob("C18.R8", "thawing hands the message a callable reference (weakref.ref) to the kept deserializer",
               bool(wraps) or n_strong == 0, ctx.w(getter, st.node),
               f"`{norm(st.value)}`: Message.ensure_parsed calls message.deserializer() - the kept object itself is not a reference")


def r13(ctx):
    repo = ctx.repo
    ctx.rule("C18.R13", "export/import keeps value types: every value class the LLUDP decoder puts into block variables "
                        "survives the LLSD notation form with its type, or the import path converts it back by template type")
    from .c01 import PACK
    pk = repo.cls("TemplateDataPacker", PACK)
    specs = repo.class_attr(pk, "SPECS")
    ctx.require(isinstance(specs, ast.Dict), "TemplateDataPacker.SPECS is not a dict literal")
    pmod = repo.module(PACK)
    classes = {}
    for v in specs.values:
        for c in ([v] if isinstance(v, ast.Call) else []) + [x for x in ast.walk(v) if isinstance(x, ast.Call)]:
            for a in c.args:
                if isinstance(a, ast.Name):
                    ci = repo.resolve_class(a.id, pmod)
                    if ci is not None and ci.module.rel.endswith("datatypes.py"):
                        classes[ci.name] = ci
    # ... and the value classes the UDP deserializer itself wraps variables in (JankStringyBytes for text-like bytes)
    from .c01 import DES
    dmod = repo.module(DES)
    for g in repo.all_funcs:
        if g.module is dmod:
            for c in calls(g.node):
                if isinstance(c.func, ast.Name):
                    ci = repo.resolve_class(c.func.id, dmod)
                    if ci is not None and ci.module.rel.endswith("datatypes.py"):
                        classes[ci.name] = ci
    ctx.floor("C18.R13", "repo value classes constructed by TemplateDataPacker.SPECS", len(classes), 3)
    fm = repo.cls("HippoLLSDBaseFormatter", LLSD)
    init = repo.lookup_method(fm, "__init__")
    ctx.require(init is not None, "HippoLLSDBaseFormatter.__init__ vanished")
    enc = {}
    lmod = repo.module(LLSD)
    for st in stores(init.node):
        if st.kind == "setitem" and st.path == "self.type_map" and isinstance(st.target.slice, ast.Name) and \
                isinstance(st.value, ast.Attribute):
            ci = repo.resolve_class(st.target.slice.id, lmod)
            h = repo.lookup_method(fm, st.value.attr)
            form = st.value.attr
            if h is not None:
                rets = returns_of(h.node)
                if len(rets) == 1 and isinstance(rets[0].value, ast.Call) and isinstance(rets[0].value.func, ast.Attribute):
                    form = rets[0].value.func.attr
            if ci is not None:
                enc[ci.name] = form
    lcls = repo.cls("LLUDPMessageLogEntry", LOGR)
    imp = [g for g, _ in effective_code(repo, lcls, "from_dict", depth=2)] + [repo.fn("Message.from_dict", MSG)]
    retyped = any((ap(c.func) or "").split(".")[0] in ("LLSDDataPacker", "LLSDMessageSerializer") or
                  call_attr(c) in ("LLSDMessageSerializer",) for g in imp for c in calls(g.node))
    for name, ci in sorted(classes.items()):
        form = enc.get(name)
        lost = form in ("ARRAY", "MAP", "STRING")
        if form == "BINARY":
            # content survives, but a repo subclass of bytes comes back as plain bytes
            lost = any(b.split(".")[-1] in ("bytes", "bytearray") for b in ci.base_names)
        if form is None:
            ctx.note(f"C18.R13: {name} has no LLSD formatter row; the third-party default decides its export form")
            continue
        ctx.ob("C18.R13", f"export/import keeps the type of {name} block values", (not lost) or retyped, ctx.w(lmod, init.node),
               f"{name} is exported as an LLSD {form.lower()} and comes back as a plain "
               f"{'bytes' if form == 'BINARY' else 'list'}: Message.from_dict does not re-type values by template, so the "
               f"re-imported message differs (to_dict, `== (x, y, z)` / `== \"text\"` filters on it)")


def r14(ctx):
    repo = ctx.repo
    ctx.rule("C18.R14", "value classes a field can hold compare the way the filter operators mean: != is the negation of == "
                        "(a class overriding __eq__ on top of a foreign base also overrides __ne__), and orderings built on "
                        "zip() only compare operands with the same number of components")
    f, (op_p, val_p, exp_p), _ = val_matches_branches(ctx)
    code = [g for g, _ in effective_code(repo, repo.cls("AbstractMessageLogEntry", LOGR), "_val_matches", depth=2)]
    admitted = []
    for g in code:
        for c in calls(g.node):
            if ap(c.func) == "isinstance" and len(c.args) == 2:
                for e in _type_elts(repo, g, c.args[1]):
                    ci = repo.resolve_class(ap(e) or "", g.module) if ap(e) else None
                    if ci is not None and ci.module.rel.endswith("datatypes.py") and ci not in admitted:
                        admitted.append(ci)
    ctx.floor("C18.R14", "repo value classes admitted by _val_matches", len(admitted), 1)
    for ci in sorted(admitted, key=lambda c: c.name):
        eq = repo.lookup_method(ci, "__eq__")
        if eq is not None:
            # does the MRO continue into a non-repo base (which may bring its own __ne__)?
            foreign = any(repo.resolve_class(b, c.module) is None and b.split(".")[-1] not in ("object", "ABC", "Generic")
                          for c in repo.mro(ci) for b in c.base_names)
            ne = repo.lookup_method(ci, "__ne__")
            ctx.ob("C18.R14", f"{ci.name}: != is the negation of == (__ne__ defined along with __eq__)",
                   (not foreign) or ne is not None, eq.where,
                   f"{eq.qual} is overridden but __ne__ is not, and the class has a non-repo base whose own __ne__ wins over "
                   f"Python's default: `x != y` can be true while `x == y` is true (filter `!=` matches equal values)")
        for dn in ("__lt__", "__le__", "__gt__", "__ge__"):
            m = repo.lookup_method(ci, dn)
            if m is None:
                continue
            fns = [g for g, _ in effective_code(repo, ci, dn, depth=2)]
            zips = [(g, c) for g in fns for c in calls(g.node, into_defs=True) if ap(c.func) == "zip"]
            if not zips:
                continue
            bad = []
            for g, c in zips:
                strict = any(k.arg == "strict" and not (isinstance(k.value, ast.Constant) and not k.value.value) for k in c.keywords)
                lencheck = any(isinstance(n, ast.Compare) and sum(1 for x in [n.left] + list(n.comparators)
                                                                    if isinstance(x, ast.Call) and ap(x.func) == "len") >= 2
                               for n in walk(g.node))
                if not (strict or lencheck):
                    bad.append(norm(c))
            ctx.ob("C18.R14", f"{ci.name}.{dn} only orders operands with the same number of components", not bad, m.where,
                   f"{bad}: zip() stops at the shorter operand and all() of nothing is True, so ordering against '' / b'' / a "
                   f"shorter tuple is vacuously true (filter `Foo.Bar.Pos < \"\"` matches every entry)")


def _swallowed(node, fn_node) -> Optional[str]:
    """None when `node` lies in the body of a try whose catch-all handler does not raise; else the reason."""
    for tc in try_contexts(node, fn_node):
        if tc.section != "body":
            continue
        hs = [h for h in tc.node.handlers if "*" in handler_names(h) or any(nm in CATCH_ALL for nm in handler_names(h))]
        if hs and not any(isinstance(x, ast.Raise) for h in hs for x in walk(h)):
            return None
        return f"the enclosing handler(s) only catch {sorted({nm for h in tc.node.handlers for nm in handler_names(h)})}"
    return "not inside a try"


def r4_body_parse_guard(ctx):
    """matches() walks message.blocks, which parses a deferred body on first use and re-raises what the parser raised."""
    repo = ctx.repo
    lcls = repo.cls("LLUDPMessageLogEntry", LOGR)
    m = inline_self_calls(repo, repo.lookup_method(lcls, "matches")) if repo.lookup_method(lcls, "matches").cls == lcls else None
    fns = [m] if m is not None else [inline_self_calls(repo, g) for g, _ in effective_code(repo, lcls, "matches", depth=2)
                                     if g.name not in ("_val_matches", "_base_matches", "_packet_root_matches", "_get_meta")]
    n = 0
    for g in fns:
        msg_names = {st.path for st in stores(g.node) if st.kind == "assign" and isinstance(st.target, ast.Name) and
                     st.value is not None and ap(st.value) == "self.message"}
        uses = [x for x in walk(g.node, into_defs=True) if
                (isinstance(x, ast.Attribute) and x.attr == "blocks" and isinstance(x.value, ast.Name) and x.value.id in msg_names) or
                (isinstance(x, ast.Subscript) and isinstance(x.value, ast.Name) and x.value.id in msg_names)]
        if not uses:
            continue
        n += 1
        cfg = CFG(g.node)
        guarded = [u for u in uses if _swallowed(u, g.node) is None]
        gn = {x for u in guarded for x in cfg.stmt_nodes_containing(u)}
        reach = cfg.reachable([cfg.entry], avoid=lambda x: x in gn)
        loose = [u for u in uses if u not in guarded and any(x in reach for x in cfg.stmt_nodes_containing(u))]
        ctx.ob("C18.R4", f"{g.qual}: parsing the message body cannot raise out of the filter", not loose, ctx.w(g, uses[0]),
               f"`{norm(loose[0]) if loose else ''}` is the first touch of the blocks and is {_swallowed(loose[0], g.node) if loose else ''}: "
               f"a logged message whose (deferred) body does not parse makes every field filter raise; set_filter() then "
               f"leaves the view half rebuilt")
    ctx.floor("C18.R4", "functions walking the logged message's blocks", n, 1)


def r4_decode_guard(ctx):
    """A 4-part selector decodes a variable with its subfield serializer: whatever that raises on malformed contents
    must not leave the filter."""
    repo = ctx.repo
    lcls = repo.cls("LLUDPMessageLogEntry", LOGR)
    n = 0
    for g, _ in effective_code(repo, lcls, "matches", depth=2):
        for c in find_calls(g.node, "deserialize_var"):
            n += 1
            why = "not inside a try"
            for tc in try_contexts(c, g.node):
                if tc.section != "body":
                    continue
                hs = [h for h in tc.node.handlers if "*" in handler_names(h) or any(nm in CATCH_ALL for nm in handler_names(h))]
                if hs and not any(isinstance(x, ast.Raise) for h in hs for x in walk(h)):
                    why = None
                    break
                why = f"the enclosing handler(s) only catch {sorted({nm for h in tc.node.handlers for nm in handler_names(h)})}"
                break
            ctx.ob("C18.R4", f"{g.qual}: `{norm(c)}` cannot raise out of the filter", why is None, ctx.w(g, c),
                   f"{why}: a selected variable whose contents do not decode (ValueError, BufferError, UnicodeDecodeError ...) "
                   f"makes the subfield filter raise instead of being false for that variable")
    ctx.floor("C18.R4", "subfield decodes in LLUDPMessageLogEntry.matches", n, 1)


def r9(ctx):
    repo = ctx.repo
    ctx.rule("C18.R9", "block values that are int enums are stored as plain ints (enum members neither pickle reliably "
                       "nor format as LLSD notation): Block.__setitem__'s isinstance whitelist covers every IntEnum / "
                       "IntFlag class of the repository")
    f = repo.fn("Block.__setitem__", MSG)
    params = [a.arg for a in f.node.args.args]
    ctx.require(len(params) == 3, "Block.__setitem__ signature changed")
    val_p = params[2]
    white = []
    for st in stores(f.node):
        if st.path == val_p and st.kind == "assign" and isinstance(st.value, ast.Call) and ap(st.value.func) == "int":
            for e, pol in facts(st.node, f.node):
                tests = e.values if (pol and isinstance(e, ast.BoolOp) and isinstance(e.op, ast.Or)) else [e]
                if not pol or not all(isinstance(t, ast.Call) and ap(t.func) == "isinstance" and len(t.args) == 2 and
                                      ap(t.args[0]) == val_p for t in tests):
                    continue
                for t in tests:
                    white.extend(t.args[1].elts if isinstance(t.args[1], ast.Tuple) else [t.args[1]])
    ctx.ob("C18.R9", "Block.__setitem__ coerces int-enum values to int", bool(white), f.where,
           "no `value = int(value)` under an isinstance test of the value")
    if not white:
        return
    std, repo_w = set(), []
    for e in white:
        r = _enum_base(repo, f.module, ap(e) or "")
        if r is None:
            nm = (ap(e) or "").split(".")[-1]
            if nm in ("int", "Enum"):
                std |= {"IntEnum", "IntFlag"} if nm == "Enum" else set()
            continue
        if r[0] == "std":
            std.add(r[1])
        else:
            repo_w.append(r[1])
    universe = []
    for lst in repo.classes.values():
        for ci in lst:
            fam, chain = _int_enum_family(repo, ci)
            if fam:
                universe.append((ci, fam, chain))
    ctx.floor("C18.R9", "IntEnum/IntFlag classes in the repository", len(universe), 10)
    uncovered = sorted(f"{ci.module.rel.split('/')[-1]}:{ci.name}" for ci, fam, chain in universe
                       if fam not in std and not any(w == c for w in repo_w for c in chain))
    ctx.ob("C18.R9", "the int-enum whitelist of Block.__setitem__ covers every IntEnum/IntFlag class", not uncovered, f.where,
           f"{len(uncovered)} classes are not instances of the whitelisted types {[norm(e) for e in white]} "
           f"(e.g. {uncovered[:4]}): their members stay enum objects in the block, freeze()/export then fail")


def r10(ctx):
    repo = ctx.repo
    ctx.rule("C18.R10", "the view rebuild tells entries apart by identity (`m not in self._raw_entries`): log entry "
                        "classes must not define value equality")
    users = []
    for q in ("FilteringMessageLogger.set_filter", "FilteringMessageLogger.add_log_entry"):
        g = inline_self_calls(repo, repo.fn(q))
        for n in walk(g.node, into_defs=True):
            if isinstance(n, ast.Compare) and any(isinstance(o, (ast.In, ast.NotIn)) for o in n.ops) and \
                    any(ap(x) in ("self._raw_entries", "self._filtered_entries") for x in n.comparators):
                users.append((g, n))
            elif isinstance(n, ast.Call) and isinstance(n.func, ast.Attribute) and n.func.attr in ("index", "remove", "count") and \
                    ap(n.func.value) in ("self._raw_entries", "self._filtered_entries"):
                users.append((g, n))
    if not users:
        ctx.note("C18.R10: the logger no longer uses ==-based membership on its buffers; entry equality is unconstrained")
        return
    base = repo.cls("AbstractMessageLogEntry", LOGR)
    fam = [c for c in repo.mro(base)] + repo.subclasses(base, strict=True)
    for ci in sorted({c.qual: c for c in fam}.values(), key=lambda c: c.qual):
        eq = ci.methods.get("__eq__")
        ident = False
        if eq is not None:
            rets = returns_of(eq.node)
            ident = len(rets) == 1 and isinstance(rets[0].value, ast.Compare) and len(rets[0].value.ops) == 1 and \
                isinstance(rets[0].value.ops[0], ast.Is)
        ctx.ob("C18.R10", f"{ci.name} compares by identity", eq is None or ident, ctx.w(ci.module, eq.node if eq else ci.node),
               f"`{norm(users[0][1])}` in {users[0][0].qual} treats two distinct entries with equal content as the same "
               f"entry: an aged-out row equal to a retained one vanishes from the view")


LLSD = "hippolyzer/lib/base/llsd.py"


def r11(ctx):
    repo = ctx.repo
    ctx.rule("C18.R11", "a literal in a comparison stays distinguishable from 'no comparison': the visitor hands the boxed "
                        "LiteralValue to MessageFilterNode (matches() reads `value is None` as a bare selector) and "
                        "_val_matches unboxes it")
    consumers = []
    for g in repo.all_funcs:
        if g.module.rel != LOGR or g.parent_fn is not None:
            continue
        for n in walk(g.node):
            if isinstance(n, ast.Compare) and len(n.ops) == 1 and isinstance(n.ops[0], (ast.Is, ast.IsNot)) and \
                    isinstance(n.comparators[0], ast.Constant) and n.comparators[0].value is None and \
                    (ap(n.left) or "").endswith("matcher.value"):
                consumers.append((g, n))
    vb = inline_self_calls(repo, repo.fn("MessageFilterVisitor.visit_binary_expression"))
    ctors = [c for c in find_calls(vb.node, "MessageFilterNode")]
    ctx.require(len(ctors) >= 1, "visit_binary_expression no longer builds a MessageFilterNode")
    init = repo.fn("MessageFilterNode.__init__")
    iparams = [a.arg for a in init.node.args.args][1:]
    ctx.require("value" in iparams, "MessageFilterNode.__init__ lost its value parameter")
    vi = iparams.index("value")

    def unboxed(e, seen=()) -> bool:
        if isinstance(e, ast.Attribute) and e.attr == "value":
            return True
        if isinstance(e, ast.Name) and e.id not in seen:
            return any(unboxed(st.value, seen + (e.id,)) for st in stores(vb.node) if st.path == e.id and st.value is not None
                       and not isinstance(st.target, (ast.Tuple, ast.List)) and st.kind == "assign" and
                       not isinstance(getattr(st.node, "targets", [None])[0], (ast.Tuple, ast.List)))
        if isinstance(e, ast.IfExp):
            return unboxed(e.body, seen) or unboxed(e.orelse, seen)
        return False
    for c in ctors:
        a = c.args[vi] if vi < len(c.args) else next((k.value for k in c.keywords if k.arg == "value"), None)
        if a is None:
            continue
        if consumers:
            ctx.ob("C18.R11", "visit_binary_expression passes the literal to MessageFilterNode boxed", not unboxed(a), ctx.w(vb, c),
                   f"`{norm(a)}` is unboxed before the node is built, so `X == None` has value None and "
                   f"{consumers[0][0].qual} (`{norm(consumers[0][1])}`) takes it for a bare selector ('field exists')")
    f, (op_p, val_p, exp_p), _ = val_matches_branches(ctx)
    code = [g for g, _ in effective_code(repo, repo.cls("AbstractMessageLogEntry", LOGR), "_val_matches", depth=2)]
    unbox = any(isinstance(st.value, ast.Attribute) and st.value.attr == "value" and isinstance(st.value.value, ast.Name)
                for g in code for st in stores(g.node) if st.value is not None) or \
        any(isinstance(r.value, ast.Attribute) and r.value.attr == "value" for g in code for r in returns_of(g.node))
    boxed_everywhere = all(not unboxed(c.args[vi] if vi < len(c.args) else next((k.value for k in c.keywords if k.arg == "value"), None) or ast.Constant(value=None))
                           for c in ctors)
    ctx.ob("C18.R11", "_val_matches unboxes the literal exactly when the visitor boxed it", unbox == boxed_everywhere, f.where,
           "the boxed LiteralValue object itself is compared with field values" if boxed_everywhere else
           "the visitor already unboxed the literal; `.value` of a plain value raises AttributeError -> every comparison is False")


def r12(ctx):
    repo = ctx.repo
    ctx.rule("C18.R12", "entries are exported as LLSD notation and parsed back: the repo's notation formatter does not "
                        "format reals with a precision-limited conversion (%.Ng / round), which loses digits on import")
    mod = repo.module(LLSD)
    n = 0
    for lst in repo.classes.values():
        for ci in lst:
            if ci.module is not mod:
                continue
            for m in ci.methods.values():
                if m.name.upper() != "REAL" and "real" not in m.name.lower() and "float" not in m.name.lower():
                    continue
                n += 1
                lossy = []
                for x in walk(m.node):
                    if isinstance(x, ast.Constant) and isinstance(x.value, (str, bytes)):
                        txt = x.value.decode("latin1") if isinstance(x.value, bytes) else x.value
                        import re as _re
                        for mm in _re.finditer(r"%[-+ #0]*\d*\.(\d+)[gGeEfF]|\{[^{}]*:[^{}]*\.(\d+)[gGeEfF]\}", txt):
                            d = int(mm.group(1) or mm.group(2))
                            if d < 17:
                                lossy.append(mm.group(0))
                    elif isinstance(x, ast.JoinedStr):
                        for fv in x.values:
                            if isinstance(fv, ast.FormattedValue) and fv.format_spec is not None:
                                spec = "".join(v.value for v in fv.format_spec.values if isinstance(v, ast.Constant))
                                import re as _re
                                mm = _re.search(r"\.(\d+)[gGeEfF]", spec)
                                if mm and int(mm.group(1)) < 17:
                                    lossy.append(spec)
                    elif isinstance(x, ast.Call) and ap(x.func) == "round":
                        lossy.append("round()")
                ctx.ob("C18.R12", f"{ci.name}.{m.name} formats reals without limiting their precision", not lossy, m.where,
                       f"{lossy}: a double needs 17 significant digits to survive text; exported entries come back with "
                       f"different values")
    if n == 0:
        ctx.ob("C18.R12", "the repo does not override real formatting (the llsd package's repr-based form is used)", True,
               f"{LLSD}:1")


def r15(ctx):
    repo = ctx.repo
    ctx.rule("C18.R15", "Meta.<name> lookups that an entry class does not answer itself fall through to the base class "
                        "with the selector's own name (the base keys are case-sensitive)")
    base = repo.cls("AbstractMessageLogEntry", LOGR)
    n = 0
    for ci in [base] + repo.subclasses(base, strict=True):
        m = ci.methods.get("_get_meta")
        if m is None:
            continue
        params = [a.arg for a in m.node.args.args]
        if len(params) < 2:
            continue
        name_p = params[1]
        for c in calls(m.node):
            if ap(c.func) == "super()._get_meta" and c.args:
                n += 1
                a = c.args[0]
                rebound = [norm(st.node) for st in stores(m.node, into_defs=False) if st.path == name_p and st.kind in ("assign", "augassign")]
                ok = isinstance(a, ast.Name) and a.id == name_p and not rebound
                ctx.ob("C18.R15", f"{ci.name}._get_meta hands the base class the name it was asked for", ok, ctx.w(m, c),
                       f"`{norm(c)}` after {rebound or 'a different argument'}: AbstractMessageLogEntry._get_meta compares "
                       f"case-sensitively (`self.meta.get(name)`, 'CurrentSelectedLocal'), so Meta.RegionName / Meta.AgentID ... "
                       f"stop matching for this kind of entry")
    ctx.floor("C18.R15", "_get_meta overrides falling through to super()", n, 2)


def run(ctx):
    rules = grammar_rules(ctx)
    ctx.floor("C18", "grammar rules reachable from the start rule", len(rules), 10)
    r1(ctx, rules)
    r2(ctx, rules)
    r3(ctx)
    r4(ctx)
    r5(ctx)
    r6(ctx)
    r7(ctx)
    r8(ctx)
    r9(ctx)
    r10(ctx)
    r11(ctx)
    r12(ctx)
    r13(ctx)
    r14(ctx)
    r15(ctx)
    ctx.assume("arpeggio semantics: python list = ordered choice committing to the first matching alternative, "
               "string alternatives match by prefix; regex alternatives are not compared")
    ctx.assume("child filter nodes return MatchResult(False, []) | MatchResult(True, fields) (fields possibly empty)")
    ctx.assume("'view = filtered retained entries' across ring-buffer overflow is not decided (aged-out matches are "
               "kept by design)")
