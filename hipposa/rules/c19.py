"""C19 - client endpoint: always ack, dispatch once, reliable sends complete on ack only
(DESIGN.md section 4 C19)."""
from __future__ import annotations

import ast
from typing import Any, Dict, List, Optional, Set, Tuple

from ..cfg import CFG
from ..consteval import ConstEval
from ..core import (AnalysisError, FuncInfo, ap, ancestors, call_attr, calls, enclosing_stmt, facts, find_calls,
                    is_none_test, norm, src, stores, walk)
from .common import callers_of, writers_of
from .c05 import (BCIRC, Explorer, St, assume, tv, arg_of, call_fact, cfg_nodes, check_collect_acks, check_pairing,
                  check_poll_ungated, check_register_after_send, check_resend, check_resend_survives, dump, timer_drives, invalidate, lookup_var, msg_param, path_fact, resolve_path, single_assign)

CLIENT = "hippolyzer/lib/client/hippo_client.py"


def _contains_call(stmt, pred) -> List[ast.Call]:
    return [c for c in calls(stmt, into_defs=False) if pred(c)]


def _is_dispatch(c: ast.Call) -> bool:
    return call_attr(c) == "handle" and (ap(c.func) or "").endswith("message_handler.handle")


# ============================================================================ the receive path, explored path by path

class Receive(Explorer):
    """Paths of HippoClientProtocol.datagram_received with the facts: parsed (datagram decoded), acked,
    collected (acks consumed), dup (track_reliable said "already seen"), dispatched sites."""

    def __init__(self, fi: FuncInfo, repo=None):
        super().__init__()
        self.fi = fi
        self.repo = repo
        self.stack: List[FuncInfo] = [fi]
        self.bad_dispatch: Dict[str, Tuple[ast.AST, str]] = {}
        self.seen_dispatch: Dict[str, ast.AST] = {}
        self.uncollected_dispatch: Dict[str, ast.AST] = {}
        self.dispatch_fn: Dict[str, FuncInfo] = {}

    def _helpers(self, node) -> List[Tuple[ast.Call, FuncInfo]]:
        """Calls of same-class helper methods inside node (their bodies are explored in line)."""
        if self.repo is None:
            return []
        from .c05 import resolve_method_call
        out = []
        for c in calls(node, into_defs=False):
            h = resolve_method_call(self.repo, self.stack[-1], c)
            if h is not None and h.cls is not None and self.fi.cls is not None and h.cls.name == self.fi.cls.name \
                    and h not in self.stack and len(self.stack) < 4:
                out.append((c, h))
        return out

    @staticmethod
    def init_state() -> St:
        return St(data={"parsed": False, "acked": False, "collected": False, "dup": False, "exc": False, "done": []})

    def _effects(self, node, st: St):
        for c in calls(node, into_defs=False):
            a = call_attr(c)
            if a == "deserialize":
                st.data["parsed"] = True
            elif a == "send_acks":
                st.data["acked"] = True
            elif a == "collect_acks":
                st.data["collected"] = True
            elif _is_dispatch(c):
                k = norm(c)
                self.seen_dispatch[k] = c
                self.dispatch_fn[k] = self.stack[-1]
                if st.data["dup"]:
                    self.bad_dispatch[k] = (c, "reached on a path on which track_reliable reported an already-seen packet")
                if not st.data["collected"]:
                    self.uncollected_dispatch[k] = c
                if k not in st.data["done"]:
                    st.data["done"].append(k)

    def _helper_verdicts(self, c, h, st: St) -> List[St]:
        """States after running helper h for call c, with the truth of the call recorded where it is decided."""
        nxt = []
        self.stack.append(h)
        try:
            for kind, node, s2 in self.explore(h.node.body, st):
                if kind == "raise":
                    continue
                v = node.value if kind == "return" and node is not None else None
                inner_tr = [x for x in calls(v, into_defs=False) if call_attr(x) == "track_reliable"] if v is not None else []
                if inner_tr:
                    self._effects(v, s2)
                    for res in (True, False):
                        s3 = s2.copy()
                        if not res:
                            s3.data["dup"] = True
                        if isinstance(v, ast.Call) and v is inner_tr[0]:
                            assume(c, res, s3)
                        elif assume(inner_tr[0], res, s3):
                            t_ = tv(v, s3)
                            if t_ is not None:
                                assume(c, t_, s3)
                        nxt.append(s3)
                    continue
                t_ = False if v is None else tv(v, s2)
                if t_ is None:
                    for res in (True, False):
                        s3 = s2.copy()
                        assume(c, res, s3)
                        nxt.append(s3)
                else:
                    assume(c, t_, s2)
                    nxt.append(s2)
        finally:
            self.stack.pop()
        return nxt

    def branch(self, test, st: St):
        tr = [c for c in calls(test, into_defs=False) if call_attr(c) == "track_reliable"]
        self._effects(test, st)
        hs = self._helpers(test)
        if hs and not tr:
            # a helper of the protocol class decides the test: explore its body; each returned verdict becomes the
            # known value of the call (a returned track_reliable() forks into new / already seen)
            states = [st]
            for c, h in hs:
                states = [s3 for cur in states for s3 in self._helper_verdicts(c, h, cur)]
            out = []
            for cur in states:
                out.extend(Explorer.branch(self, test, cur))
            return out
        if not tr:
            return super().branch(test, st)
        out = []
        for res in (True, False):
            s2 = st.copy()
            if not assume(tr[0], res, s2):
                continue
            if not res:
                s2.data["dup"] = True
            out.extend(Explorer.branch(self, test, s2))
        return out

    def on_handler(self, h, st: St):
        st.data["exc"] = True

    def on_stmt(self, s, st: St):
        if isinstance(s, (ast.If, ast.While)):
            return None      # test effects are recorded in branch()
        if isinstance(s, (ast.For, ast.AsyncFor, ast.With, ast.AsyncWith, ast.Try, ast.Return, ast.Raise, ast.Break, ast.Continue)):
            if isinstance(s, ast.Return) and s.value is not None:
                self._effects(s.value, st)
            return None
        # simple statement
        self._effects(s, st)
        self.simple(s, st)
        hs = self._helpers(s)
        if hs and isinstance(s, ast.Assign) and len(s.targets) == 1 and isinstance(s.targets[0], ast.Name) \
                and len(hs) == 1 and s.value is hs[0][0]:
            key = ast.Name(id=s.targets[0].id, ctx=ast.Load())
            outs_ = []
            for s3 in self._helper_verdicts(hs[0][0], hs[0][1], st):
                t_ = tv(hs[0][0], s3)
                if t_ is not None:
                    assume(key, t_, s3)
                outs_.append(("fall", None, s3))
            return outs_
        if hs:
            states = [st]
            outs_ = []
            for c, h in hs:
                nxt = []
                self.stack.append(h)
                try:
                    for cur in states:
                        for kind, node, s2 in self.explore(h.node.body, cur):
                            if kind in ("fall", "return"):
                                nxt.append(s2)
                            elif kind == "raise":
                                outs_.append((kind, node, s2))
                            else:
                                raise AnalysisError(f"{h.qual}: {kind} escapes the helper")
                finally:
                    self.stack.pop()
                states = nxt
            return outs_ + [("fall", None, x) for x in states]
        bare = [c for c in calls(s, into_defs=False) if call_attr(c) == "track_reliable"]
        if bare and isinstance(s, ast.Assign) and len(s.targets) == 1 and isinstance(s.targets[0], ast.Name) \
                and s.value is not bare[0]:
            # the verdict enters a local through an expression (`seen = not circuit.track_reliable(..)`)
            key = ast.Name(id=s.targets[0].id, ctx=ast.Load())
            outs_ = []
            for res in (True, False):
                s2 = st.copy()
                if not assume(bare[0], res, s2):
                    continue
                if not res:
                    s2.data["dup"] = True
                t_ = tv(s.value, s2)
                if t_ is not None:
                    assume(key, t_, s2)
                outs_.append(("fall", None, s2))
            return outs_
        if bare and not (isinstance(s, ast.Assign) and len(s.targets) == 1 and isinstance(s.targets[0], ast.Name)
                         and s.value is bare[0]):
            dup = st.copy()
            dup.data["dup"] = True
            return [("fall", None, st), ("fall", None, dup)]
        if isinstance(s, ast.Assign) and len(s.targets) == 1 and isinstance(s.targets[0], ast.Name):
            name = s.targets[0]
            v = s.value
            key = ast.Name(id=name.id, ctx=ast.Load())
            if isinstance(v, ast.Constant):
                assume(key, bool(v.value), st)
            elif isinstance(v, ast.Call) and call_attr(v) == "track_reliable":
                outs = []
                for res in (True, False):
                    s2 = st.copy()
                    assume(key, res, s2)
                    if not res:
                        s2.data["dup"] = True
                    outs.append(("fall", None, s2))
                return outs
            elif isinstance(v, (ast.Compare, ast.BoolOp)) or (isinstance(v, ast.UnaryOp) and isinstance(v.op, ast.Not)):
                outs = []
                for res in (True, False):
                    s2 = st.copy()
                    if assume(v, res, s2):
                        assume(key, res, s2)
                        outs.append(("fall", None, s2))
                return outs
        return [("fall", None, st)]


def receive_paths(ctx):
    dr = ctx.repo.fn("HippoClientProtocol.datagram_received", CLIENT)
    ex = Receive(dr, ctx.repo)
    outs = ex.explore(dr.node.body, Receive.init_state())
    return dr, ex, outs


def _reliable_on(st: St, msg: str) -> Optional[bool]:
    for e, pol in st.env.values():
        if ap(e) == f"{msg}.reliable":
            return pol
    return None


def r1(ctx, dr, ex, outs, msg):
    ctx.rule("C19.R1", "ack unconditional: every decoded reliable packet is acknowledged with its own id whether or "
                       "not it was seen before")
    from .c05 import method_params, resolve_method_call
    repo = ctx.repo
    rvar0 = lookup_var(dr, "region_by_circuit_addr")
    # (function, call, message name there, region name there, call site in datagram_received or None)
    sa_sites = [(dr, c, msg, rvar0, None, None) for c in find_calls(dr.node, "send_acks", into_defs=False)]
    for hc in calls(dr.node, into_defs=False):
        h = resolve_method_call(repo, dr, hc)
        if h is None or h == dr:
            continue
        params = method_params(h)
        amap = {ap(a_): params[i] for i, a_ in enumerate(hc.args) if i < len(params) and ap(a_)}
        amap.update({ap(k.value): k.arg for k in hc.keywords if k.arg and ap(k.value)})
        for c in find_calls(h.node, "send_acks", into_defs=False):
            sa_sites.append((h, c, amap.get(msg), amap.get(rvar0), hc, amap.get(f"{rvar0}.circuit")))
    ctx.ob("C19.R1", "datagram_received acknowledges reliable packets (send_acks)", len(sa_sites) >= 1, dr.where,
           "no acknowledgement is ever sent: the peer retransmits every reliable packet until it gives up")
    verdict_names = {ap(st.target) for st in stores(dr.node, into_defs=False) if st.kind == "assign"
                     and isinstance(st.value, ast.Call) and call_attr(st.value) == "track_reliable"}
    for fn_, c, msg_, rvar_, via, circ_ in sa_sites:
        ids = arg_of(c, 0, "to_ack")
        if isinstance(ids, ast.Name):
            ids = single_assign(fn_.node, ids.id) or ids
        okid = isinstance(ids, (ast.Tuple, ast.List)) and len(ids.elts) == 1 and msg_ is not None and \
            ap(ids.elts[0]) == f"{msg_}.packet_id"
        ctx.ob("C19.R1", "datagram_received: the ack carries exactly the received packet's id", okid, ctx.w(fn_, c),
               f"acked ids are `{norm(ids) if ids is not None else None}`")
        d = arg_of(c, 1, "direction")
        ctx.ob("C19.R1", "datagram_received: the ack goes out to the peer (Direction.OUT)",
               d is None or (ap(d) or "").endswith("Direction.OUT"), ctx.w(fn_, c), f"direction {norm(d) if d is not None else None}")
        recv = resolve_path(fn_.node, c.func.value) if isinstance(c.func, ast.Attribute) else None
        ctx.ob("C19.R1", "datagram_received: the ack is sent on the circuit the packet arrived on",
               (rvar_ is not None and recv == f"{rvar_}.circuit") or (circ_ is not None and recv == circ_),
               ctx.w(fn_, c), f"receiver {recv}")
        extra = []
        levels = [(c, fn_, msg_, rvar_)] + ([(via, dr, msg, rvar0)] if via is not None else [])
        for nd, f_, m_, r_ in levels:
            for e, pol in facts(nd, f_.node):
                p = ap(e)
                if p == f"{m_}.reliable" and pol:
                    continue
                if p == r_ and pol:
                    continue
                if isinstance(e, ast.Call) and call_attr(e) == "validate_udp_msg" and pol:
                    continue
                nt = is_none_test(e)
                if nt and nt[0] == r_ and ((not nt[1] and pol) or (nt[1] and not pol)):
                    continue
                extra.append(("" if pol else "not ") + norm(e))
        dep_verdict = [x for x in extra if any(v and v in x for v in verdict_names) or "track_reliable" in x]
        ctx.ob("C19.R1", "datagram_received: the ack depends on nothing but message.reliable", not extra, ctx.w(fn_, c),
               f"additionally depends on {extra}" + (" - a retransmission whose first ack was lost is never acknowledged"
                                                     if dep_verdict else ""))
    # the circuit the ack goes out on is found by address: the lookup must not answer another address's region
    from .c06 import check_region_lookup
    check_region_lookup(ctx, "C19.R1")
    # the ack must not depend on the body parsing: the client's deserializer defers body parsing, so a datagram
    # with a good header is acked (and deduped) before anything reads its body
    ev_ = ConstEval(repo, dr.module)
    scls = [c for c in repo.classes.get("ClientSettings", []) if c.module.rel == CLIENT]
    for ci in scls or [repo.cls("Settings", "hippolyzer/lib/base/settings.py")]:
        node = repo.class_attr(ci, "ENABLE_DEFERRED_PACKET_PARSING")
        val = None
        if isinstance(node, ast.Call) and call_attr(node) == "SettingDescriptor" and node.args:
            val = ConstEval(repo, ci.module).ev(node.args[0])
        elif node is not None:
            val = ConstEval(repo, ci.module).ev(node)
        if not isinstance(val, bool):
            raise AnalysisError(f"{ci.name}.ENABLE_DEFERRED_PACKET_PARSING default is not a decidable constant")
        ctx.ob("C19.R1", f"{ci.name}: the client endpoint defers body parsing (header-only work in front of the ack)", val is True,
               f"{ci.module.rel}:{getattr(node, 'lineno', 0)}",
               "ENABLE_DEFERRED_PACKET_PARSING defaults to False for the client: deserialize() parses the whole body before "
               "collect_acks / send_acks / track_reliable run, so a reliable packet whose body does not parse is never acked")
    sa_def = ctx.repo.fn("Circuit.send_acks", BCIRC)
    dflt = None
    a = sa_def.node.args
    names = [x.arg for x in a.args]
    if "direction" in names:
        i = names.index("direction") - (len(names) - len(a.defaults))
        if 0 <= i < len(a.defaults):
            dflt = ap(a.defaults[i])
    ctx.ob("C19.R1", "Circuit.send_acks defaults to Direction.OUT", (dflt or "").endswith("Direction.OUT"), sa_def.where,
           f"default direction is {dflt}")
    # the ack really goes out: Circuit.send_acks reaches self.send on every path (an empty id list may be skipped)
    sacfg = CFG(sa_def.node)
    to_ack = msg_param(sa_def)
    snd = [n_ for c in calls(sa_def.node, into_defs=False) if isinstance(c.func, ast.Attribute)
           and ap(c.func) in ("self.send", "self.send_reliable") for n_ in cfg_nodes(sacfg, c)]
    okret = []
    for r in [x for x in walk(sa_def.node) if isinstance(x, ast.Return)]:
        fs = facts(r, sa_def.node)
        if fs and all(ap(e) == to_ack and not pol for e, pol in fs):
            okret.extend(sacfg.nodes_for(r))
    reach_sa = sacfg.reachable([sacfg.entry], avoid=lambda n_: n_ in snd or n_ in okret)
    ctx.ob("C19.R1", "Circuit.send_acks sends the PacketAck on every path", bool(snd) and sacfg.exit not in reach_sa,
           sa_def.where, "a path returns without sending: reliable packets received in that state are never "
           "acknowledged and the peer keeps retransmitting them")
    builds = [c for c in calls(sa_def.node, into_defs=False) if call_attr(c) == "Message" and c.args
              and isinstance(c.args[0], ast.Constant) and c.args[0].value == "PacketAck"]
    # one Packets block per given id: Block(..., ID=<element of to_ack>) with the element bound by a loop / comprehension
    elems = set()
    for n_ in walk(sa_def.node, into_defs=True):
        if isinstance(n_, (ast.For, ast.AsyncFor)) and ap(n_.iter) == to_ack and isinstance(n_.target, ast.Name):
            elems.add(n_.target.id)
        elif isinstance(n_, ast.comprehension) and ap(n_.iter) == to_ack and isinstance(n_.target, ast.Name):
            elems.add(n_.target.id)
    per_id = any(call_attr(c) == "Block" and any(k.arg == "ID" and isinstance(k.value, ast.Name) and k.value.id in elems
                                                 for k in c.keywords) for c in calls(sa_def.node, into_defs=True))
    ctx.ob("C19.R1", "Circuit.send_acks builds a PacketAck carrying the given ids", bool(builds) and per_id, sa_def.where)
    # path form: every normally completing path that decoded a (possibly) reliable packet has acked it
    n = 0
    for kind, node, st in outs:
        if kind == "raise" or not st.data["parsed"]:
            continue
        n += 1
        rel = _reliable_on(st, msg)
        if rel is False:
            continue
        ctx.ob("C19.R1", "datagram_received: every completing path for a reliable packet has sent the ack",
               st.data["acked"], ctx.w(dr, node) if node is not None else dr.where,
               f"a path ending at `{norm(node) if node is not None else 'end of function'}` leaves a reliable packet "
               f"unacknowledged")
    ctx.floor("C19.R1", "completing receive paths", n, 2)
    # a decoded reliable packet is acknowledged even when the endpoint then refuses the message (raise): no raise
    # leaves datagram_received between the decode and the ack
    for kind, node, st in outs:
        if kind != "raise" or not isinstance(node, ast.Raise) or not st.data["parsed"] or _reliable_on(st, msg) is False:
            continue
        ctx.ob("C19.R1", "datagram_received: no raise leaves a decoded reliable packet unacknowledged", st.data["acked"],
               ctx.w(dr, node), f"`{norm(node)}` is reached before send_acks: a reliable packet whose message is refused "
               f"(UDP-banned) is never acknowledged and the peer keeps retransmitting it")


def r2(ctx, dr, ex, outs, msg):
    ctx.rule("C19.R2", "every dispatch honours the dedupe verdict: no message_handler.handle(message) is reachable once "
                       "track_reliable reported the packet as already seen; new and unreliable packets reach every handler")
    from .common import class_methods_reachable
    fns = [f for f in class_methods_reachable(ctx.repo, dr, depth=3) if f.cls is not None and dr.cls is not None
           and f.cls.name == dr.cls.name]
    sites = [(f, c) for f in fns for c in calls(f.node, into_defs=False) if _is_dispatch(c)]
    ctx.floor("C19.R2", "dispatch sites (session and region handler)", len(sites), 2)
    tr = [c for f in fns for c in find_calls(f.node, "track_reliable", into_defs=False)]
    ctx.ob("C19.R2", "datagram_received consults track_reliable for reliable packets", len(tr) >= 1, dr.where,
           "no resend suppression at all: every retransmission is dispatched again")
    for c in tr:
        ctx.ob("C19.R2", "track_reliable is asked about the received packet's id",
               bool(c.args) and (ap(c.args[0]) or "").endswith(".packet_id"), ctx.w(dr, c))
    for f, c in sites:
        k = norm(c)
        bad = ex.bad_dispatch.get(k)
        ctx.ob("C19.R2", f"datagram_received: {k} never runs for an already-seen reliable packet", bad is None, ctx.w(f, c),
               bad[1] + ": a retransmitted reliable packet is delivered to these subscribers again" if bad else "")
        # the dispatched object is the decoded message (a local of datagram_received, or the helper parameter it is passed as)
        a0 = ap(c.args[0]) if c.args else None
        okm = a0 == msg if f == dr else (a0 in [x.arg for x in f.node.args.args])
        ctx.ob("C19.R2", f"datagram_received: {k} receives the decoded message", bool(okm), ctx.w(f, c))
    # completeness: a packet that is not a duplicate reaches every dispatch site
    all_keys = {norm(c) for f, c in sites}
    for kind, node, st in outs:
        if kind == "raise" or not st.data["parsed"] or st.data["dup"] or st.data["exc"]:
            continue
        missing = sorted(all_keys - set(st.data["done"]))
        ctx.ob("C19.R2", "datagram_received: new / unreliable packets reach every handler", not missing,
               ctx.w(dr, node) if node is not None else dr.where,
               f"a path for a packet that is not a duplicate skips {missing}")


def r3(ctx, dr, ex, outs, msg):
    repo = ctx.repo
    ctx.rule("C19.R3", "both ack forms complete sends: collect_acks unions message.acks with PacketAck block IDs, "
                       "pops then completes, runs for every decoded datagram before dispatch; track_reliable "
                       "remembers every unseen id and answers False only for remembered ids")
    check_collect_acks(ctx, "C19.R3")
    check_pairing(ctx, "C19.R3", names=("collect_acks",))
    ca = find_calls(dr.node, "collect_acks", into_defs=False)
    ctx.ob("C19.R3", "datagram_received feeds received acks to collect_acks", len(ca) >= 1, dr.where,
           "acks from the peer are never consumed: no reliable send ever completes")
    for c in ca:
        recv = resolve_path(dr.node, c.func.value) if isinstance(c.func, ast.Attribute) else None
        ctx.ob("C19.R3", "collect_acks runs on the circuit the datagram arrived on with the decoded message",
               recv == f"{lookup_var(dr, 'region_by_circuit_addr')}.circuit" and bool(c.args) and ap(c.args[0]) == msg, ctx.w(dr, c))
    for k, c in ex.seen_dispatch.items():
        ctx.ob("C19.R3", f"datagram_received: collect_acks precedes {k}", k not in ex.uncollected_dispatch, ctx.w(dr, c),
               "a handler runs (and may raise) before the datagram's acks are consumed")
    for kind, node, st in outs:
        if kind == "raise" or not st.data["parsed"]:
            continue
        ctx.ob("C19.R3", "datagram_received: every completing path for a decoded datagram has collected its acks",
               st.data["collected"], ctx.w(dr, node) if node is not None else dr.where,
               f"a path ending at `{norm(node) if node is not None else 'end of function'}` (duplicate={st.data['dup']}) "
               f"never calls collect_acks: an ack riding on that datagram is lost, the send it acknowledges is "
               f"retransmitted and finally fails")

    for kind, node, st in outs:
        if kind != "raise" or not isinstance(node, ast.Raise) or not st.data["parsed"]:
            continue
        ctx.ob("C19.R3", "datagram_received: no raise leaves a decoded datagram before its acks are collected",
               st.data["collected"], ctx.w(dr, node),
               f"`{norm(node)}` is reached before collect_acks: acks riding on a datagram whose message is refused "
               f"(UDP-banned) are lost and the sends they acknowledge never complete")

    # ---- track_reliable
    from .c05 import follow_delegate, forwarded_field, field_names, table_writers, insertion_sites, resolve_any_call, \
        is_table, method_params
    tr_anchor = repo.fn("Circuit.track_reliable", BCIRC)
    tr = follow_delegate(repo, tr_anchor)
    pid = msg_param(tr)
    ccls = repo.cls("Circuit", BCIRC)
    seen_names = field_names(repo, ccls, "seen_reliable")
    seen_fw = forwarded_field(repo, ccls, "seen_reliable")

    def note_absent(st):
        for e, pol in st.env.values():
            if isinstance(e, ast.Compare) and len(e.ops) == 1 and ap(e.left) == pid and ap(e.comparators[0]):
                if (isinstance(e.ops[0], ast.In) and not pol) or (isinstance(e.ops[0], ast.NotIn) and pol):
                    if ap(e.comparators[0]) not in st.data["absent"]:
                        st.data["absent"].append(ap(e.comparators[0]))
            elif ap(e) and ap(e).startswith("self.") and not pol and ap(e) not in st.data["absent"]:
                st.data["absent"].append(ap(e))      # an empty memory cannot contain the id

    class TR(Explorer):
        def branch(self, test, st):
            outs_ = Explorer.branch(self, test, st)
            for _, s2 in outs_:
                note_absent(s2)
            return outs_

        def on_stmt(self, s, st):
            note_absent(st)
            if isinstance(s, (ast.If, ast.While, ast.For, ast.AsyncFor, ast.With, ast.Try, ast.Return, ast.Raise,
                              ast.Break, ast.Continue)):
                return None
            for c in calls(s, into_defs=False):
                if call_attr(c) in ("append", "add", "appendleft") and isinstance(c.func, ast.Attribute) and c.args \
                        and ap(c.args[0]) == pid and ap(c.func.value):
                    st.data["added"].append(ap(c.func.value))
            self.simple(s, st)
            if isinstance(s, ast.Assign) and len(s.targets) == 1 and isinstance(s.targets[0], ast.Name):
                v = s.value
                key = ast.Name(id=s.targets[0].id, ctx=ast.Load())
                if isinstance(v, ast.Constant):
                    assume(key, bool(v.value), st)
                elif isinstance(v, (ast.Compare, ast.BoolOp)) or (isinstance(v, ast.UnaryOp) and isinstance(v.op, ast.Not)):
                    outs_ = []
                    for res in (True, False):
                        s2 = st.copy()
                        if assume(v, res, s2):
                            assume(key, res, s2)
                            outs_.append(("fall", None, s2))
                    return outs_
            return [("fall", None, st)]
    touts = TR().explore(tr.node.body, St(data={"added": [], "absent": []}))
    containers: Set[str] = set()
    n_false = n_true = 0
    verdicts = []
    for kind, node, st in touts:
        if kind == "raise":
            continue
        if kind != "return" or node.value is None:
            verdicts.append((None, node, st))
            continue
        t = tv(node.value, st)
        if t is None:
            raise AnalysisError(f"Circuit.track_reliable: verdict `{norm(node)}` is not decided by the path's tests")
        verdicts.append((t, node, st))
    for t, node, st in verdicts:
        member = set()
        for e, pol in st.env.values():
            if isinstance(e, ast.Compare) and len(e.ops) == 1 and ap(e.left) == pid and ap(e.comparators[0]):
                if (isinstance(e.ops[0], ast.In) and pol) or (isinstance(e.ops[0], ast.NotIn) and not pol):
                    member.add(ap(e.comparators[0]))
        if t is False:
            n_false += 1
            containers |= member
            ctx.ob("C19.R3", "Circuit.track_reliable answers False only for an id found in its memory", bool(member),
                   ctx.w(tr, node), "a False verdict (\"already handled\") on a path that never found the id in the "
                   "dedupe memory: a packet that was never delivered is suppressed")
        elif t is None:
            ctx.ob("C19.R3", "Circuit.track_reliable always returns a verdict", False, tr.where,
                   "a path falls off the end (None is falsy: the packet is treated as a duplicate)")
    ctx.ob("C19.R3", "Circuit.track_reliable can report a duplicate", n_false >= 1, tr.where,
           "never answers False: every retransmission is dispatched again")
    for t, node, st in verdicts:
        if t is True:
            n_true += 1
            want = containers or {"self.seen_reliable"}
            note_absent(st)
            absent = set(st.data["absent"])
            ctx.ob("C19.R3", "Circuit.track_reliable reports a packet as new only after not finding its id in the memory",
                   bool(absent & want), ctx.w(tr, node),
                   "a True verdict on a path that never established that the id is absent from the dedupe memory "
                   "(e.g. a shortcut on id ordering): with reordered arrivals a retransmission is dispatched again")
            missing = sorted(c for c in want if c not in st.data["added"])
            ctx.ob("C19.R3", "Circuit.track_reliable remembers every id it reports as new", not missing, ctx.w(tr, node),
                   f"returns True without adding the id to {missing}: the next retransmission is reported as new again")
    ctx.ob("C19.R3", "Circuit.track_reliable can report a new packet", n_true >= 1, tr.where,
           "never answers True: no reliable packet is ever dispatched")
    # the memory only forgets by oldest-first eviction
    for cpath in sorted(containers or {"self.seen_reliable"}):
        attr = cpath.split(".")[-1]
        nw = 0
        ws = table_writers(repo, "seen_reliable") if attr in seen_names else writers_of(repo, attr)
        in_tr = (lambda f: f == tr or f == tr_anchor)
        for f, st in ws:
            nw += 1
            kind = st.kind + (f":{st.method}" if st.method else "")
            where = ctx.w(f, st.node)
            key = f"{f.qual}: {kind} on {attr}"
            ctor = f.name == "__init__" and f.cls is not None and \
                (f.cls.name == "Circuit" or (seen_fw is not None and f.cls.name == seen_fw[0].name) or
                 (tr.cls is not None and f.cls.name == tr.cls.name))
            setter = f.cls is not None and f.cls.name == "Circuit" and f.name == "seen_reliable" and f.qual.endswith(".setter")
            if ctor or setter or f.qual == "Circuit.disconnect":
                ctx.ob("C19.R3", f"{key} (construction / teardown)", True, where)
            elif in_tr(f) and st.kind == "mutcall" and st.method in ("append", "add"):
                ctx.ob("C19.R3", f"{key} records the id", True, where)
            elif st.kind == "mutcall" and st.method in ("discard", "remove") and in_tr(f):
                a0 = st.node.args[0] if st.node.args else None
                oldest = isinstance(a0, ast.Subscript) and isinstance(a0.slice, ast.Constant) and a0.slice.value == 0 \
                    or (isinstance(a0, ast.Call) and call_attr(a0) == "popleft")
                ctx.ob("C19.R3", f"{key} evicts the oldest entry only", bool(oldest), where,
                       f"removes `{norm(a0) if a0 is not None else None}` from the dedupe memory: an id other than the "
                       f"oldest is forgotten and its retransmission is dispatched again")
            elif st.kind == "mutcall" and st.method == "popleft" and in_tr(f):
                ctx.ob("C19.R3", f"{key} evicts the oldest entry only", True, where)
            else:
                ctx.ob("C19.R3", f"{key} is an owner operation of the dedupe memory", False, where,
                       "dedupe memory written outside __init__/track_reliable (ids can be forgotten or forged)")
        ctx.floor("C19.R3", f"writers of {attr}", nw, 1)

    # the dedupe memory is bounded by a COUNT of other packets (deque(maxlen=N)): after N other reliable packets a
    # retransmission of an older one is new again - recorded limitation (D65)
    for k in repo.mro(ccls):
        init = k.methods.get("__init__")
        for st in (stores(init.node) if init is not None else []):
            if st.path == "self.seen_reliable" and st.kind == "assign" and st.value is not None:
                bounded = isinstance(st.value, ast.Call) and call_attr(st.value) == "deque" and \
                    any(kw_.arg == "maxlen" and not (isinstance(kw_.value, ast.Constant) and kw_.value.value is None)
                        for kw_ in st.value.keywords)
                ctx.ob("C19.R3", "Circuit.seen_reliable: the dedupe memory is not bounded by a count of other packets",
                       not bounded, ctx.w(init, st.node),
                       f"`{norm(st.value)}`: once that many other reliable packets arrived, a retransmission of an older "
                       f"packet is no longer recognised and is dispatched to every subscriber again")
    # ---- send_reliable hands out the entry's completion future
    sr = repo.fn("Circuit.send_reliable", BCIRC)
    send = repo.fn("Circuit.send", BCIRC)
    m = msg_param(sr)
    sm = msg_param(send)
    ins = insertion_sites(repo)
    rets = [r for r in walk(sr.node) if isinstance(r, ast.Return) and r.value is not None]
    ctx.ob("C19.R3", "Circuit.send_reliable returns a completion future", len(rets) >= 1, sr.where)
    for r in rets:
        v, vf, vm = r.value, sr, m
        # the lookup may be a one-expression method (own / collaborator) that is handed the message
        if isinstance(v, ast.Call):
            callee = resolve_any_call(repo, sr, v)
            if callee is not None:
                crets = [x for x in walk(callee.node) if isinstance(x, ast.Return) and x.value is not None]
                params = method_params(callee)
                cm_ = next((params[i] for i, a_ in enumerate(v.args) if i < len(params) and ap(a_) == m), None)
                if len(crets) == 1 and cm_ is not None:
                    v, vf, vm = crets[0].value, callee, cm_
        okf = isinstance(v, ast.Attribute) and v.attr == "completed" and isinstance(v.value, ast.Subscript) \
            and is_table(repo, ap(v.value.value))
        samekey = False
        if okf and ins:
            from .c05 import entry_key
            k1 = entry_key(repo, vf, v.value.slice)
            k1 = tuple(x.replace(vm + ".", "M.", 1) for x in k1) if k1 else None
            for fn_, st, _via, cm in ins:
                k2 = entry_key(repo, fn_, st.target.slice)
                if k1 is not None and k2 is not None and cm is not None and \
                        tuple(x.replace(cm + ".", "M.", 1) for x in k2) == k1:
                    samekey = True
        ctx.ob("C19.R3", "Circuit.send_reliable returns the `completed` future of the entry send() registered", okf and samekey,
               ctx.w(sr, r), f"returns {norm(v)}")
    cfg = CFG(sr.node)
    sends = [c for c in calls(sr.node, into_defs=False) if isinstance(c.func, ast.Attribute) and ap(c.func) == "self.send"]
    ctx.ob("C19.R3", "Circuit.send_reliable sends through self.send", len(sends) == 1, sr.where, f"found {len(sends)}")
    marks = [st for st in stores(sr.node) if st.kind == "augassign" and isinstance(st.node.op, ast.BitOr)
             and st.path == f"{m}.send_flags" and (ap(st.value) or "").endswith("PacketFlags.RELIABLE")]
    mark_nodes = [n for st in marks for n in cfg.nodes_for(st.node)]
    reach = cfg.reachable([cfg.entry], avoid=lambda n: n in mark_nodes)
    for c in sends:
        ctx.ob("C19.R3", "Circuit.send_reliable marks the message RELIABLE before sending", bool(marks) and
               not any(n in reach for n in cfg_nodes(cfg, c)), ctx.w(sr, c),
               "sent without PacketFlags.RELIABLE: send() does not register it and the peer never acks it")
        ctx.ob("C19.R3", "Circuit.send_reliable refuses non-synthetic messages (send() registers only synthetic ones)",
               path_fact(c, f"{m}.synthetic", sr.node) is True, ctx.w(sr, c))
    # a send that raised leaves nothing behind that waits for an ack
    check_register_after_send(ctx, "C19.R3")


def r4(ctx):
    repo = ctx.repo
    ctx.rule("C19.R4", "ID allocation: packet_id_base is written only by __init__, disconnect (which kills the circuit) "
                       "and prepare_message, which hands out the base and then increments it on every path")
    owners = {"Circuit.__init__", "Circuit.disconnect", "Circuit.prepare_message"}
    n = 0
    for f, st in writers_of(repo, "packet_id_base"):
        n += 1
        ok = f.qual in owners and f.module.rel == BCIRC
        ctx.ob("C19.R4", f"{f.qual}: {st.kind} on packet_id_base by an owner", ok, ctx.w(f, st.node),
               "the next-id counter is written outside __init__/disconnect/prepare_message: issued ids are no longer "
               "strictly increasing")
    ctx.floor("C19.R4", "packet_id_base writers", n, 2)
    pm = repo.fn("Circuit.prepare_message", BCIRC)
    m = msg_param(pm)
    cfg = CFG(pm.node)
    incs, others = [], []
    for st in stores(pm.node):
        if st.path == "self.packet_id_base":
            if st.kind == "augassign" and isinstance(st.node.op, ast.Add) and isinstance(st.value, ast.Constant) \
                    and isinstance(st.value.value, int) and st.value.value > 0:
                incs.append(st)
            else:
                others.append(st)
    for st in others:
        ctx.ob("C19.R4", f"Circuit.prepare_message: `{norm(st.node)}` is a positive constant increment", False, ctx.w(pm, st.node),
               "the counter is reset / moved by something other than `+= <positive constant>` while the circuit is live")
    ctx.ob("C19.R4", "Circuit.prepare_message increments packet_id_base", len(incs) >= 1, pm.where,
           "the counter never advances: every packet gets the same id")
    inc_nodes = [n_ for st in incs for n_ in cfg.nodes_for(st.node)]
    reach = cfg.reachable([cfg.entry], avoid=lambda n_: n_ in inc_nodes)
    ctx.ob("C19.R4", "Circuit.prepare_message: every completing path advances the counter", cfg.exit not in reach, pm.where,
           "a path returns without incrementing: two packets share an id")
    # at most one increment per call is not required; what is required is that each call reads the base once
    ids = [st for st in stores(pm.node) if st.path == f"{m}.packet_id"]
    ctx.ob("C19.R4", "Circuit.prepare_message assigns the packet id", len(ids) >= 1, pm.where)
    for st in ids:
        v = st.value
        base = v
        if isinstance(v, ast.BinOp) and isinstance(v.op, (ast.Add, ast.Sub)) and isinstance(v.right, ast.Constant):
            base = v.left
        ctx.ob("C19.R4", "Circuit.prepare_message: the id is the circuit's packet_id_base", ap(base) == "self.packet_id_base",
               ctx.w(pm, st.node), f"id comes from `{norm(v) if v is not None else None}`")
    id_nodes = [n_ for st in ids for n_ in cfg.nodes_for(st.node)]
    reach2 = cfg.reachable([cfg.entry], avoid=lambda n_: n_ in id_nodes)
    ctx.ob("C19.R4", "Circuit.prepare_message: every completing path assigns an id", cfg.exit not in reach2, pm.where)
    # exactly one id read between two increments: no loop back from an id store to another id store avoiding the increment
    for st in ids:
        after = cfg.reachable(cfg.nodes_for(st.node), avoid=lambda n_: n_ in inc_nodes)
        ctx.ob("C19.R4", "Circuit.prepare_message: no second id is handed out before the counter advanced",
               not any(n_ in after for n_ in id_nodes), ctx.w(pm, st.node))
    dc = repo.fn("Circuit.disconnect", BCIRC)
    dead = [st for st in stores(dc.node) if st.path == "self.is_alive" and isinstance(st.value, ast.Constant) and st.value.value is False]
    resets = [st for st in stores(dc.node) if st.path == "self.packet_id_base"]
    if resets:
        dcfg = CFG(dc.node)
        dn = [n_ for st in dead for n_ in dcfg.nodes_for(st.node)]
        rd = dcfg.reachable([dcfg.entry], avoid=lambda n_: n_ in dn)
        ctx.ob("C19.R4", "Circuit.disconnect resets the counter only together with is_alive = False", bool(dead) and
               dcfg.exit not in rd, dc.where, "ids restart from 0 on a circuit that is still reported alive")
    # the override in the proxied circuit is C04/C05's business; here: no other client-side override
    for ci in repo.subclasses(repo.cls("Circuit", BCIRC), strict=True):
        if "prepare_message" in ci.methods and ci.name != "ProxiedCircuit":
            ctx.ob("C19.R4", f"{ci.name}.prepare_message overrides the id allocation", False, ci.methods["prepare_message"].where,
                   "unknown override of Circuit.prepare_message: read it and extend C19.R4")


def r5(ctx):
    repo = ctx.repo
    ctx.rule("C19.R5", "budget exhaustion fails the send: resend_unacked spends budget per attempt, removes the entry "
                       "and fails its future when the budget is spent, and never resends it afterwards")
    check_pairing(ctx, "C19.R5", names=("resend_unacked",))
    check_resend(ctx, "C19.R5")
    ar = repo.fn("HippoClient._attempt_resends", CLIENT)
    okt = timer_drives(repo, ar)
    check_poll_ungated(ctx, "C19.R5", ar, "HippoClient._attempt_resends",
                       "a circuit is created with is_alive False and only marked alive after its reliable UseCircuitCode "
                       "was acked, so that first send is never retransmitted and never fails (connect() / login() hang "
                       "on one lost datagram)")
    check_resend_survives(ctx, "C19.R5", ar, "HippoClient._attempt_resends")
    ctx.ob("C19.R5", "HippoClient._attempt_resends drives resend_unacked for every region, repeatedly", okt, ar.where,
           "no periodic resend: an unacknowledged reliable send neither completes nor fails")


SIZE_MUTATORS = {"append", "remove", "pop", "clear", "insert", "extend", "popleft", "appendleft", "discard", "add"}


def _is_snapshot(fn_node, it, path: str, depth=0) -> bool:
    """`it` evaluates to a copy of the container at `path` taken before the loop starts."""
    if isinstance(it, ast.Subscript) and ap(it.value) == path and isinstance(it.slice, ast.Slice) \
            and it.slice.lower is None and it.slice.upper is None and it.slice.step is None:
        return True
    if isinstance(it, ast.Call):
        fn = ap(it.func) or ""
        if fn in ("list", "tuple", "sorted", "set", "frozenset", "copy.copy", "copy") and it.args and ap(it.args[0]) == path:
            return True
        if fn == f"{path}.copy":
            return True
    if isinstance(it, ast.Name) and depth < 3:
        v = single_assign(fn_node, it.id)
        return v is not None and _is_snapshot(fn_node, v, path, depth + 1)
    return False


def r6(ctx):
    repo = ctx.repo
    ctx.rule("C19.R6", "subscriber lists are iterated over a snapshot whenever the loop body can change them "
                       "(handlers unsubscribing during notify must not make the loop skip the next subscriber)")
    from .common import class_methods_reachable
    ev = repo.cls("Event", "hippolyzer/lib/base/events.py")
    path = "self.subscribers"
    n = 0
    for f in ev.methods.values():
        mutating = {g.name for g in ev.methods.values()
                    if any(st.path == path and ((st.kind == "mutcall" and st.method in SIZE_MUTATORS) or st.kind in ("delitem",))
                           for st in stores(g.node))}
        for loop in [x for x in walk(f.node) if isinstance(x, (ast.For, ast.AsyncFor))]:
            it = loop.iter
            base = it
            while isinstance(base, ast.Call) and base.args:
                base = base.args[0]
            while isinstance(base, ast.Subscript):
                base = base.value
            if isinstance(base, ast.Name):
                v = single_assign(f.node, base.id)
                if v is None:
                    continue
                b2 = v
                while isinstance(b2, ast.Call) and b2.args:
                    b2 = b2.args[0]
                while isinstance(b2, ast.Subscript):
                    b2 = b2.value
                if ap(b2) != path:
                    continue
            elif ap(base) != path:
                continue
            n += 1
            body = ast.Module(body=loop.body, type_ignores=[])
            elems = {x.id for x in ast.walk(loop.target) if isinstance(x, ast.Name)}
            for st in stores(body, into_defs=False):
                if st.kind == "assign" and isinstance(st.value, ast.Name) and st.value.id in elems:
                    elems |= {x.id for x in ast.walk(st.target) if isinstance(x, ast.Name)}
            why = []
            for c in calls(body, into_defs=True):
                fn = c.func
                if isinstance(fn, ast.Attribute) and ap(fn.value) == path and fn.attr in SIZE_MUTATORS:
                    why.append(norm(c))
                elif isinstance(fn, ast.Attribute) and isinstance(fn.value, ast.Name) and fn.value.id == "self":
                    m = repo.lookup_method(ev, fn.attr)
                    if m is not None and any(g.name in mutating for g in class_methods_reachable(repo, m, depth=2)):
                        why.append(norm(c))
                elif isinstance(fn, ast.Name) and fn.id in elems:
                    why.append(f"{norm(c)} (subscriber callback, may unsubscribe)")
            if not why:
                ctx.ob("C19.R6", f"{f.qual}: loop over {norm(it)} does not change the subscriber list", True, ctx.w(f, loop))
                continue
            snap = _is_snapshot(f.node, it, path)
            # newest-first walk that removes only the current element is the one safe in-place idiom
            rev_safe = isinstance(it, ast.Call) and ap(it.func) == "reversed" and it.args and ap(it.args[0]) == path and \
                all(w.startswith(f"{path}.remove(") and isinstance(loop.target, ast.Name)
                    and w == f"{path}.remove({loop.target.id})" for w in why)
            ctx.ob("C19.R6", f"{f.qual}: loop over the subscriber list whose body can change it iterates a snapshot",
                   snap or rev_safe, ctx.w(f, loop),
                   f"iterates `{norm(it)}` directly while the body reaches {why[:3]}: a subscriber that unsubscribes "
                   f"during notification shifts the list and the next subscriber is skipped (its message is lost)")
    ctx.floor("C19.R6", "loops over Event.subscribers", n, 2)


def r7(ctx):
    repo = ctx.repo
    ctx.rule("C19.R7", "a registered notifier is never replaced: a plain store into MessageHandler.handlers is "
                       "dominated by a test that the key is absent (`not in` / `is None`), not by the truthiness of the "
                       "Event (which defines __len__: an Event without subscribers is falsy)")
    mh = repo.cls("MessageHandler", "hippolyzer/lib/base/message/message_handler.py")
    ev = repo.cls("Event", "hippolyzer/lib/base/events.py")
    falsy_when_empty = any(m in ev.methods for m in ("__len__", "__bool__"))
    n = 0
    for f in mh.methods.values():
        for st in stores(f.node, into_defs=True):
            if st.path != "self.handlers":
                continue
            n += 1
            if st.kind in ("setitem", "augsetitem"):
                key = st.target.slice
                absent, via_truth = False, False
                for e, pol in facts(st.node, f.node):
                    if isinstance(e, ast.Compare) and len(e.ops) == 1 and ap(e.comparators[0]) == "self.handlers" \
                            and ast.dump(e.left) == ast.dump(key):
                        if (isinstance(e.ops[0], ast.NotIn) and pol) or (isinstance(e.ops[0], ast.In) and not pol):
                            absent = True
                    nt = is_none_test(e)
                    name = nt[0] if nt else ap(e)
                    if name and "." not in name:
                        def is_get(v):
                            return isinstance(v, ast.Call) and ap(v.func) == "self.handlers.get" and v.args and \
                                ast.dump(v.args[0]) == ast.dump(key) and \
                                (len(v.args) == 1 or (isinstance(v.args[1], ast.Constant) and v.args[1].value is None))
                        assigns = [a_ for a_ in stores(f.node, into_defs=False) if a_.path == name and a_.kind == "assign"]
                        gets = [a_ for a_ in assigns if a_.value is not None and is_get(a_.value)]
                        # re-binding the name inside the guarded branch (`x = self.handlers[k] = Event()`) is fine
                        others_inside = all(path_fact(a_.node, name, f.node) is not None for a_ in assigns if a_ not in gets)
                        from_table = len(gets) == 1 and others_inside
                        if from_table and nt and ((nt[1] and pol) or (not nt[1] and not pol)):
                            absent = True
                        elif from_table and not nt and not pol:
                            via_truth = True
                if via_truth and not falsy_when_empty:
                    absent = True
                ctx.ob("C19.R7", f"{f.qual}: store `{norm(st.target)}` happens only when the key has no notifier yet", absent,
                       ctx.w(f, st.node),
                       ("guarded by the truthiness of the looked-up Event: an Event whose subscribers all left is falsy, "
                        "so it is replaced and whoever still holds the old Event subscribes to an orphan"
                        if via_truth else "an existing notifier (and its subscribers) can be overwritten"))
            elif st.kind == "mutcall" and st.method == "setdefault":
                ctx.ob("C19.R7", f"{f.qual}: notifiers are created with setdefault", True, ctx.w(f, st.node))
            elif st.kind == "assign" and f.name == "__init__":
                ctx.ob("C19.R7", f"{f.qual}: handlers table constructed", True, ctx.w(f, st.node))
            else:
                kind = st.kind + (f":{st.method}" if st.method else "")
                ctx.ob("C19.R7", f"{f.qual}: {kind} on the handlers table keeps registered notifiers", False, ctx.w(f, st.node),
                       "registered notifiers are removed / replaced wholesale: their subscribers stop receiving messages")
    ctx.floor("C19.R7", "writers of MessageHandler.handlers", n, 2)


def run(ctx):
    dr, ex, outs = receive_paths(ctx)
    from .c05 import parsed_message_vars
    msgs = sorted(parsed_message_vars(ctx.repo, dr))
    ctx.require(len(msgs) == 1 and msgs[0], "datagram_received: expected one `message = ...deserialize(data)`")
    msg = msgs[0]
    r1(ctx, dr, ex, outs, msg)
    r2(ctx, dr, ex, outs, msg)
    r3(ctx, dr, ex, outs, msg)
    r4(ctx)
    r5(ctx)
    r6(ctx)
    r7(ctx)
    ctx.assume("delivery counts over arrival sequences are not decided statically")
    ctx.assume("message_handler.handle() does not raise for subscriber errors (Event.notify guards subscribers, C07.R2)")
