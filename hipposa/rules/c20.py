"""C20 - inventory, asset and transfer codecs (DESIGN.md section 4, C20).

R1  lookup-name tables of the LookupIntEnum classes are bijective (evaluated on the table semantics)
R2  SchemaFieldSerializer subclasses: both directions present and mutually inverse idioms; tz lint
R3  reader / writer key source (flavoured field tables, nested names, model-level dispatch)
R4  Xfer framing constants (length prefix width / type, one chunk size, strip control dependence)
R5  sibling completion rule of Xfer and Transfer (count based, id-ordered assembly)
R6  versioned animation layout (ContextSwitch option keys agree)

Only necessary structural conditions are decided; equality of models after a round trip is not.
"""
from __future__ import annotations

import ast
import re
from typing import Any, Dict, List, Optional, Sequence, Tuple

from ..consteval import CallVal, ConstEval, EnumVal, StructVal, Sym, enum_members, is_const
from ..core import (AnalysisError, ClassInfo, FuncInfo, always_exits, ancestors, ap, atoms, call_attr, calls, conditions,
                    enclosing_stmt, facts, find_calls, is_none_test, kw, norm, parent, src, stores, walk)
from ..cfg import CFG
from ..tzlint import site_key, tz_sites
from .common import assigned_value, class_methods_reachable, fmt_count, linform, module_funcs_reachable

TEMPL = "hippolyzer/lib/base/templates.py"
SCHEMA = "hippolyzer/lib/base/legacy_schema.py"
INV = "hippolyzer/lib/base/inventory.py"
HELPERS = "hippolyzer/lib/base/helpers.py"
XFER = "hippolyzer/lib/base/xfer_manager.py"
TRANSFER = "hippolyzer/lib/base/transfer_manager.py"
ANIM = "hippolyzer/lib/base/llanim.py"
TYPES = "hippolyzer/lib/base/message/msgtypes.py"
MESH = "hippolyzer/lib/base/mesh.py"
MSGHANDLER = "hippolyzer/lib/base/message/message_handler.py"
WEARABLES = "hippolyzer/lib/base/wearables.py"


# --------------------------------------------------------------------------- class hierarchy helpers
# (core.Repo.mro does not see through subscripted generic bases such as `SchemaFieldSerializer[int]`)

def _bases(repo, ci: ClassInfo) -> List[ClassInfo]:
    out = []
    for b in ci.base_names:
        r = repo.resolve_class(b.replace("[]", ""), ci.module)
        if r is not None:
            out.append(r)
    return out


def _mro(repo, ci: ClassInfo) -> List[ClassInfo]:
    seen, order = set(), []

    def rec(c):
        if c.qual in seen:
            return
        seen.add(c.qual)
        order.append(c)
        for b in _bases(repo, c):
            rec(b)
    rec(ci)
    return order


def _subclasses(repo, ci: ClassInfo, strict=True) -> List[ClassInfo]:
    out = []
    for lst in repo.classes.values():
        for c in lst:
            if c == ci:
                if not strict:
                    out.append(c)
            elif any(m == ci for m in _mro(repo, c)[1:]):
                out.append(c)
    return out


def _lookup_method(repo, ci: ClassInfo, name: str) -> Optional[FuncInfo]:
    for c in _mro(repo, ci):
        if name in c.methods:
            return c.methods[name]
    return None


def _class_attr(repo, ci: ClassInfo, name: str):
    for c in _mro(repo, ci):
        for st in c.node.body:
            if isinstance(st, ast.Assign) and any(isinstance(t, ast.Name) and t.id == name for t in st.targets):
                return st.value, c
            if isinstance(st, ast.AnnAssign) and isinstance(st.target, ast.Name) and st.target.id == name \
                    and st.value is not None:
                return st.value, c
    return None, None


def _ob(ctx, rule, inst, ok, where, msg=""):
    ctx.ob(rule, inst, ok, where, "" if ok else msg)


# =========================================================================== R1

class _Raises(Exception):
    """The evaluated repository expression raises (KeyError / ValueError / ...)."""


class _BiDi:
    def __init__(self, forward: dict, backward: dict):
        self.forward = forward
        self.backward = backward


class _ClsMarker:
    pass


_CLS = _ClsMarker()


def _bidi_semantics(ctx) -> str:
    """Model of helpers.BiDiDict.__init__, read from its source: returns 'inverse' when `backward` is
    the key/value inversion of `forward` (later rows win), 'same' when it is not inverted."""
    f = ctx.repo.fn("BiDiDict.__init__", HELPERS)
    params = [a.arg for a in f.node.args.args]
    ctx.require(len(params) == 2, "BiDiDict.__init__ signature changed: re-read it and extend C20.R1")
    vals = params[1]
    fwd = bwd = None
    for st in stores(f.node, into_defs=False):
        if st.kind == "assign" and st.path == "self.forward":
            fwd = st.value
        elif st.kind == "assign" and st.path == "self.backward":
            bwd = st.value
    ctx.require(fwd is not None and bwd is not None, "BiDiDict.__init__ no longer assigns forward/backward")
    fwd_ok = False
    if isinstance(fwd, ast.Name) and fwd.id == vals:
        fwd_ok = True
    elif isinstance(fwd, ast.Dict) and len(fwd.keys) == 1 and fwd.keys[0] is None and ap(fwd.values[0]) == vals:
        fwd_ok = True
    elif isinstance(fwd, ast.Call) and ap(fwd.func) in ("dict", f"{vals}.copy") and \
            (not fwd.args or ap(fwd.args[0]) == vals):
        fwd_ok = True
    ctx.require(fwd_ok, f"BiDiDict.forward = {norm(fwd)}: not a copy of the constructor table (extend C20.R1)")
    ctx.require(isinstance(bwd, ast.DictComp) and len(bwd.generators) == 1 and not bwd.generators[0].ifs,
                f"BiDiDict.backward = {norm(bwd)}: unsupported shape (extend C20.R1)")
    gen = bwd.generators[0]
    ctx.require(isinstance(gen.iter, ast.Call) and ap(gen.iter.func) in (f"{vals}.items", "self.forward.items")
                and isinstance(gen.target, ast.Tuple) and len(gen.target.elts) == 2
                and all(isinstance(e, ast.Name) for e in gen.target.elts),
                "BiDiDict.backward comprehension does not iterate the table's items()")
    k, v = (e.id for e in gen.target.elts)
    if ap(bwd.key) == v and ap(bwd.value) == k:
        return "inverse"
    if ap(bwd.key) == k and ap(bwd.value) == v:
        return "same"
    raise AnalysisError(f"BiDiDict.backward = {norm(bwd)}: unsupported key/value expressions")


class _LookupEval:
    """Concrete evaluation of the (tiny) to_lookup_name / from_lookup_name bodies over one enum member
    and the module's constant tables.  Anything outside the supported fragment is an AnalysisError."""

    def __init__(self, repo, ci: ClassInfo, members: Dict[str, Any], bidi_mode: str):
        self.repo = repo
        self.ci = ci
        self.members = members
        self.bidi_mode = bidi_mode
        self.by_value: Dict[Any, str] = {}
        for n, v in members.items():
            self.by_value.setdefault(v, n)         # first name is canonical, later ones are aliases
        self.ev = ConstEval(repo, ci.module)

    def member(self, name: str) -> EnumVal:
        v = self.members[name]
        return EnumVal(self.ci.name, self.by_value[v], v)

    def run(self, fi: FuncInfo, args: Dict[str, Any]):
        env = dict(args)
        out = self._block(fi.node.body, env)
        if out is None:
            raise _Raises("falls off the end (returns None)")
        return out[0]

    def _inline(self, g: FuncInfo, args: list, at):
        a = g.node.args
        params = [x.arg for x in list(a.posonlyargs) + list(a.args)]
        if len(params) != len(args) or a.vararg or a.kwarg or a.kwonlyargs:
            raise AnalysisError(f"C20.R1: cannot bind `{norm(at)}` to {g.qual}{tuple(params)}")
        self._depth = getattr(self, "_depth", 0) + 1
        try:
            if self._depth > 6:
                raise AnalysisError(f"C20.R1: helper nesting too deep at `{norm(at)}`")
            out = self._block(g.node.body, dict(zip(params, args)))
        finally:
            self._depth -= 1
        if out is None:
            raise _Raises(f"{g.qual} falls off the end (returns None)")
        return out[0]

    def _block(self, stmts, env):
        for st in stmts:
            if isinstance(st, ast.Expr) and isinstance(st.value, ast.Constant):
                continue
            if isinstance(st, ast.Pass):
                continue
            if isinstance(st, (ast.Assign, ast.AnnAssign)):
                tgts = st.targets if isinstance(st, ast.Assign) else [st.target]
                if len(tgts) != 1 or not isinstance(tgts[0], ast.Name) or st.value is None:
                    raise AnalysisError(f"C20.R1: unsupported assignment `{norm(st)}` in {self.ci.name}")
                env[tgts[0].id] = self._e(st.value, env)
                continue
            if isinstance(st, ast.Return):
                return (self._e(st.value, env) if st.value is not None else None,)
            if isinstance(st, ast.Raise):
                raise _Raises(f"raises {norm(st.exc) if st.exc else ''}")
            if isinstance(st, ast.If):
                t = self._e(st.test, env)
                r = self._block(st.body if t else st.orelse, env)
                if r is not None:
                    return r
                continue
            raise AnalysisError(f"C20.R1: unsupported statement `{norm(st)}` in a lookup-name method of {self.ci.name}")
        return None

    def _name(self, n: ast.Name, env):
        if n.id in env:
            return env[n.id]
        if n.id == self.ci.name:
            return _CLS
        v = self.ev.ev(n)
        if isinstance(v, CallVal) and v.func.split(".")[-1] == "BiDiDict" and len(v.args) == 1 \
                and isinstance(v.args[0], dict) and is_const(v.args[0]):
            fwd = dict(v.args[0])
            bwd = {val: key for key, val in fwd.items()} if self.bidi_mode == "inverse" else dict(fwd)
            return _BiDi(fwd, bwd)
        if is_const(v):
            return v
        raise AnalysisError(f"C20.R1: name `{n.id}` in {self.ci.name} is not a constant table ({v!r})")

    def _e(self, n, env):
        if isinstance(n, ast.Constant):
            return n.value
        if isinstance(n, ast.Name):
            return self._name(n, env)
        if isinstance(n, ast.Attribute):
            b = self._e(n.value, env)
            if isinstance(b, EnumVal) and n.attr in ("name", "value", "_name_", "_value_"):
                return b.name if "name" in n.attr else b.value
            if isinstance(b, _BiDi) and n.attr in ("forward", "backward"):
                return getattr(b, n.attr)
            if b is _CLS and n.attr in self.members:
                return self.member(n.attr)
            raise AnalysisError(f"C20.R1: unsupported attribute `{norm(n)}` in {self.ci.name}")
        if isinstance(n, ast.Subscript):
            b = self._e(n.value, env)
            i = self._e(n.slice, env)
            if b is _CLS:
                if i not in self.members:
                    raise _Raises(f"KeyError {i!r}: no member of that name")
                return self.member(i)
            try:
                return b[_plain(i)]
            except (KeyError, IndexError, TypeError) as e:
                raise _Raises(f"{type(e).__name__} {e}")
        if isinstance(n, ast.Call):
            args = [self._e(a, env) for a in n.args]
            if n.keywords:
                raise AnalysisError(f"C20.R1: keyword call `{norm(n)}` unsupported")
            if isinstance(n.func, ast.Attribute):
                recv = self._e(n.func.value, env)
                m = n.func.attr
                if isinstance(recv, str) and m in ("lower", "upper", "strip", "casefold") and not args:
                    return getattr(recv, m)()
                if isinstance(recv, dict) and m == "get" and 1 <= len(args) <= 2:
                    return recv.get(_plain(args[0]), *args[1:])
                if isinstance(recv, (tuple, list)) and m == "index" and len(args) == 1:
                    try:
                        return list(recv).index(_plain(args[0]))
                    except ValueError:
                        raise _Raises(f"ValueError: {args[0]!r} not in the name table")
                if (isinstance(recv, EnumVal) or recv is _CLS) and isinstance(n.func.value, ast.Name):
                    # helper method of the enum class itself (self._x(...) / cls._x(...))
                    hm = _lookup_method(self.repo, self.ci, m)
                    if hm is not None:
                        return self._inline(hm, [recv] + args, n)
                raise AnalysisError(f"C20.R1: unsupported call `{norm(n)}` in {self.ci.name}")
            f = self._e(n.func, env) if isinstance(n.func, ast.Name) and (n.func.id in env or n.func.id == self.ci.name) \
                else None
            if f is _CLS and len(args) == 1:
                v = _plain(args[0])
                if v not in self.by_value:
                    raise _Raises(f"ValueError: {v!r} is not a valid {self.ci.name}")
                return self.member(self.by_value[v])
            if isinstance(n.func, ast.Name) and n.func.id in ("int", "str", "len") and len(args) == 1:
                try:
                    return {"int": int, "str": str, "len": len}[n.func.id](_plain(args[0]))
                except (ValueError, TypeError) as e:
                    raise _Raises(f"{type(e).__name__} {e}")
            if isinstance(n.func, ast.Name) and n.func.id not in env:
                # helper extracted to a module-level function of the enum's module: inline it
                helpers = [g for g in self.repo.funcs.get(n.func.id, [])
                           if g.module is self.ci.module and g.cls is None and g.parent_fn is None]
                if len(helpers) == 1:
                    return self._inline(helpers[0], args, n)
            raise AnalysisError(f"C20.R1: unsupported call `{norm(n)}` in {self.ci.name}")
        if isinstance(n, ast.Compare) and len(n.ops) == 1:
            a, b = _plain(self._e(n.left, env)), _plain(self._e(n.comparators[0], env))
            op = n.ops[0]
            if isinstance(op, ast.Eq):
                return a == b
            if isinstance(op, ast.NotEq):
                return a != b
            if isinstance(op, ast.In):
                return a in b
            if isinstance(op, ast.NotIn):
                return a not in b
        if isinstance(n, ast.UnaryOp) and isinstance(n.op, ast.Not):
            return not self._e(n.operand, env)
        raise AnalysisError(f"C20.R1: unsupported expression `{norm(n)}` in {self.ci.name}")


def _plain(v):
    return v.value if isinstance(v, EnumVal) else v


def _first_params(fi: FuncInfo) -> List[str]:
    return [a.arg for a in fi.node.args.args]


def _is_abstract(fi: FuncInfo) -> bool:
    return any((ap(d) or "").split(".")[-1] == "abstractmethod" for d in fi.node.decorator_list)


def r1(ctx) -> Dict[str, ClassInfo]:
    repo = ctx.repo
    ctx.rule("C20.R1", "lookup-name tables: from_lookup_name(to_lookup_name(m)) is m for every member (implies "
                       "to_lookup_name injective); names are single schema-line tokens")
    base = repo.cls("LookupIntEnum", TEMPL)
    subs = _subclasses(repo, base)
    ctx.floor("C20.R1", "LookupIntEnum classes", len(subs), 4)
    mode = _bidi_semantics(ctx)
    _ob(ctx, "C20.R1", "BiDiDict.backward is the inversion of forward", mode == "inverse",
           repo.fn("BiDiDict.__init__", HELPERS).where, "backward table is not inverted: reverse lookups cannot work")
    verified = {}
    nmembers = 0
    for ci in sorted(subs, key=lambda c: c.name):
        members = enum_members(repo, ci)
        ctx.require(members and all(isinstance(v, int) for v in members.values()),
                    f"{ci.name}: members are not literal integers")
        to_f = _lookup_method(repo, ci, "to_lookup_name")
        from_f = _lookup_method(repo, ci, "from_lookup_name")
        ctx.require(to_f is not None and from_f is not None, f"{ci.name}: lookup-name methods vanished")
        le = _LookupEval(repo, ci, members, mode)
        to_p, from_p = _first_params(to_f), _first_params(from_f)
        ctx.require(len(to_p) == 1 and len(from_p) == 2, f"{ci.name}: lookup-name method signatures changed")
        names: Dict[str, str] = {}
        canon = sorted(set(le.by_value.values()), key=lambda n: list(members).index(n))
        for mname in canon:
            nmembers += 1
            m = le.member(mname)
            inst = f"{ci.name}.{mname} lookup-name round-trip"
            where = ctx.w(to_f, to_f.node)
            try:
                s = le.run(to_f, {to_p[0]: m})
            except _Raises as e:
                _ob(ctx, "C20.R1", inst, False, where, f"to_lookup_name() {e}")
                continue
            if not isinstance(s, str):
                _ob(ctx, "C20.R1", inst, False, where, f"to_lookup_name() yields {s!r}, not a string")
                continue
            try:
                back = le.run(from_f, {from_p[0]: _CLS, from_p[1]: s})
            except _Raises as e:
                _ob(ctx, "C20.R1", inst, False, ctx.w(from_f, from_f.node), f"{s!r} -> from_lookup_name() {e}")
                names.setdefault(s, mname)
                continue
            ok = isinstance(back, EnumVal) and back.name == mname
            other = names.get(s)
            ctx.ob("C20.R1", inst, ok, where,
                   f"{mname} -> {s!r} -> {back!r}" + (f" (name shared with {other})" if other else ""))
            names.setdefault(s, mname)
        bad = [s for s in names if not s or s != s.strip() or re.search(r"[\t\r\n]", s)]
        _ob(ctx, "C20.R1", f"{ci.name} lookup names are schema-line tokens", not bad, ci.module.rel + f":{ci.node.lineno}",
               f"names {bad!r} do not survive `key<TAB>value` line tokenisation")
        verified[ci.name] = ci
    ctx.stats["C20.R1.members"] = nmembers
    # every enum handed to SchemaEnumField is one of the verified classes
    uses = {}
    for mod in repo.modules.values():
        for c in find_calls(mod.tree, "SchemaEnumField"):
            if c.args:
                uses.setdefault(ap(c.args[0]) or norm(c.args[0]), (mod, c))
    ctx.floor("C20.R1", "distinct SchemaEnumField enums", len(uses), 3)
    for name, (mod, c) in sorted(uses.items()):
        rc = repo.resolve_class(name, mod)
        _ob(ctx, "C20.R1", f"SchemaEnumField({name}) uses a verified lookup enum", rc is not None and rc.name in verified,
               ctx.w(mod, c), "enum without lookup-name methods reaches the legacy schema")
    return verified


# =========================================================================== R2

OTHER = "<other>"


def _resolve_callee(mod, path: str) -> str:
    """Expand the first component of a dotted callee through the module's imports."""
    head, _, rest = path.partition(".")
    if head in ("self", "cls"):
        return path
    tgt = mod.imports.get(head)
    if tgt:
        return tgt + ("." + rest if rest else "")
    return path


def _const_args(ev: ConstEval, nodes) -> Optional[tuple]:
    out = []
    for a in nodes:
        v = ev.ev(a)
        if not is_const(v):
            return None
        out.append(_plain(v))
    return tuple(out)


class _Chains:
    """Abstract a codec expression to the chain of unary operations applied to the value parameter
    (innermost first).  Locals assigned exactly once are expanded, so temporaries do not matter."""

    def __init__(self, repo, fi: FuncInfo, val_name: str):
        self.repo, self.fi, self.val = repo, fi, val_name
        self.ev = ConstEval(repo, fi.module)
        # the value parameter re-bound once from itself (`val = val.partition("|")[0].strip()`): later reads of
        # the name stand for that chain applied to the original value
        self.prefix: Optional[list] = None
        self.rebind = None
        self._in_prefix = False
        rb = [st for st in stores(fi.node, into_defs=False) if st.path == val_name]
        if len(rb) == 1 and rb[0].kind == "assign" and rb[0].value is not None:
            self._in_prefix = True
            try:
                self.prefix = self.chain(rb[0].value)
            finally:
                self._in_prefix = False
            if self.prefix is None:
                raise AnalysisError(f"C20.R2: {fi.qual}: `{norm(rb[0].node)}` re-binds the value to something that is "
                                    f"not a chain of operations on it (extend C20.R2)")
            self.rebind = rb[0].node
        elif rb:
            raise AnalysisError(f"C20.R2: {fi.qual}: the value parameter `{val_name}` is re-bound {len(rb)} times (extend C20.R2)")

    def _helper_chain(self, call: ast.Call, depth) -> Optional[list]:
        """The call is a one-argument helper of the same module / class whose body is itself a chain of
        operations on its parameter: follow the value into it (conversion extracted into a helper)."""
        g, skip = None, 0
        fn = call.func
        if isinstance(fn, ast.Name):
            cands = [h for h in self.repo.funcs.get(fn.id, []) if h.module is self.fi.module and h.cls is None
                     and h.parent_fn is None]
            g = cands[0] if len(cands) == 1 else None
        elif isinstance(fn, ast.Attribute) and isinstance(fn.value, ast.Name) and fn.value.id in ("self", "cls") \
                and self.fi.cls is not None and fn.attr not in ("serialize", "deserialize", "to_llsd", "from_llsd"):
            g = _lookup_method(self.repo, self.fi.cls, fn.attr)
            if g is not None and not any((ap(d) or "").split(".")[-1] == "staticmethod" for d in g.node.decorator_list):
                skip = 1
        if g is None or depth > 12:
            return None
        params = _first_params(g)[skip:]
        rets = [r for r in walk(g.node) if isinstance(r, ast.Return)]
        if len(params) != 1 or len(rets) != 1 or rets[0].value is None or g.node.args.vararg or g.node.args.kwarg:
            return None
        return _Chains(self.repo, g, params[0]).chain(rets[0].value, depth + 1)

    def chain(self, e, depth=0) -> Optional[list]:
        if depth > 20:
            return None
        if isinstance(e, ast.Name):
            if e.id == self.val:
                return [] if self.prefix is None or self._in_prefix else list(self.prefix)
            # bound by tuple unpacking (`head, _sep, _rest = val.partition(T)`): the i-th element of the value
            unpack = [(st, i) for st in walk(self.fi.node) if isinstance(st, ast.Assign) and len(st.targets) == 1
                      and isinstance(st.targets[0], (ast.Tuple, ast.List))
                      and not any(isinstance(t, ast.Starred) for t in st.targets[0].elts)
                      for i, t in enumerate(st.targets[0].elts) if isinstance(t, ast.Name) and t.id == e.id]
            if unpack:
                binds = [b for b in stores(self.fi.node, into_defs=False) if b.path == e.id]
                if len(unpack) != 1 or len(binds) != 1:
                    return None
                inner = self.chain(unpack[0][0].value, depth + 1)
                return None if inner is None else inner + [("idx", "", (unpack[0][1],))]
            vals = assigned_value(self.fi.node, e.id)
            if len(vals) == 1:
                return self.chain(vals[0], depth + 1)
            if len(vals) > 1:
                # a local re-bound in straight-line code (`x = f(v); x = x.replace(..)`): the use sees the last
                # binding before it (all bindings must sit in one block)
                binds = [b for b in stores(self.fi.node, into_defs=False) if b.path == e.id]
                use = enclosing_stmt(e)
                if all(b.kind == "assign" and b.value is not None and parent(b.node) is parent(binds[0].node) for b in binds) \
                        and use is not None:
                    before = [b for b in binds if _precedes(b.node, use)]
                    if before:
                        return self.chain(before[-1].value, depth + 1)
            return None
        if isinstance(e, ast.Call):
            if isinstance(e.func, ast.Attribute):
                inner = self.chain(e.func.value, depth + 1)
                if inner is not None:
                    ca = _const_args(self.ev, e.args)
                    if ca is None or any(k.arg is None for k in e.keywords):
                        return None
                    kws = tuple(sorted((k.arg, repr(self.ev.ev(k.value))) for k in e.keywords))
                    return inner + [("meth", e.func.attr, ca + kws)]
            spine = [(i, self.chain(a, depth + 1)) for i, a in enumerate(e.args)]
            spine = [(i, c) for i, c in spine if c is not None]
            callee = ap(e.func)
            if len(spine) != 1 or callee is None:
                return None
            i, inner = spine[0]
            ca = _const_args(self.ev, [a for j, a in enumerate(e.args) if j != i])
            if ca is None:
                return None
            kws = tuple(sorted((k.arg or "**", repr(self.ev.ev(k.value))) for k in e.keywords))
            if isinstance(e.func, ast.Attribute) and e.func.attr in ("pack", "unpack") and not e.keywords:
                # a precompiled struct.Struct("fmt") object: the same idiom as struct.pack("fmt", ..)
                sv = self.ev.ev(e.func.value)
                if isinstance(sv, StructVal):
                    return inner + [("call", f"struct.{e.func.attr}", (sv.fmt,) + ca)]
            if len(e.args) == 1 and not e.keywords:
                body = self._helper_chain(e, depth)
                if body is not None:
                    return inner + body
            return inner + [("call", _resolve_callee(self.fi.module, callee), ca + kws)]
        if isinstance(e, ast.Subscript):
            inner = self.chain(e.value, depth + 1)
            if inner is None:
                return None
            v = self.ev.ev(e.slice)
            if not is_const(v) or isinstance(e.slice, ast.Slice):
                return None
            return inner + [("idx", "", (v,))]
        if isinstance(e, ast.BinOp) and isinstance(e.op, ast.Add):
            l, r = self.chain(e.left, depth + 1), self.chain(e.right, depth + 1)
            if l is not None and r is None:
                v = self.ev.ev(e.right)
                if not is_const(v):
                    return None
                if l and l[-1][0] == "suffix" and type(l[-1][2][0]) is type(v):
                    return l[:-1] + [("suffix", "", (l[-1][2][0] + v,))]     # (x + "a") + "b" == x + "ab"
                return l + [("suffix", "", (v,))]
            if r is not None and l is None:
                v = self.ev.ev(e.left)
                return r + [("prefix", "", (v,))] if is_const(v) else None
            return None
        if isinstance(e, ast.BinOp) and isinstance(e.op, ast.Mod):
            r = self.chain(e.right, depth + 1)
            v = self.ev.ev(e.left)
            if r is not None and isinstance(v, str):
                return r + [("fmt", "", (v,))]
            return None
        return None


_SHORTCUTS: Dict[str, list] = {}


def _cv_expr(repo, fi: FuncInfo, node):
    """(True, value) for an expression over literals, module constants and the class's own constants."""
    if isinstance(node, ast.Attribute) and isinstance(node.value, ast.Name) and fi.cls is not None \
            and node.value.id in ("cls", "self", fi.cls.name):
        v = _class_const(repo, fi.cls, node.attr)
        if v is None:
            raw, owner = _class_attr(repo, fi.cls, node.attr)
            if raw is not None and not isinstance(raw, ast.Attribute):
                return _cv_expr(repo, fi, raw)
        return (v is not None), v
    if isinstance(node, ast.BinOp) and isinstance(node.op, ast.Add):
        (ok1, a), (ok2, b) = _cv_expr(repo, fi, node.left), _cv_expr(repo, fi, node.right)
        if ok1 and ok2 and type(a) is type(b):
            return True, a + b
        return False, None
    if isinstance(node, ast.Call) and ap(node.func) in ("frozenset", "set", "tuple", "list") and len(node.args) == 1 \
            and not node.keywords:
        ok, inner = _cv_expr(repo, fi, node.args[0])
        return (ok and isinstance(inner, (tuple, list, frozenset)), tuple(inner) if ok else None)
    v = ConstEval(repo, fi.module).ev(node)
    return (True, _plain(v)) if is_const(v) else (False, None)


def _llsd_xml_meaning(text):
    """Value denoted by a (small, constant) LLSD XML document, per the LLSD XML format: (True, value), or
    (False, None) when the text is not a well-formed document of the supported scalar / empty-container kinds."""
    import xml.etree.ElementTree as ET
    try:
        root = ET.fromstring(text)
    except Exception:
        return False, None
    if root.tag != "llsd" or len(root) != 1:
        return False, None

    def val(el):
        t = el.tag
        if t == "undef":
            return None
        if t == "map":
            kids = list(el)
            if len(kids) % 2:
                raise ValueError
            return {kids[i].text or "": val(kids[i + 1]) for i in range(0, len(kids), 2)}
        if t == "array":
            return [val(k) for k in el]
        if t == "string":
            return el.text or ""
        if t == "integer":
            return int(el.text or 0)
        if t == "boolean":
            return (el.text or "").strip() in ("1", "true")
        raise ValueError
    try:
        return True, val(root[0])
    except Exception:
        return False, None


def _branches(repo, fi: FuncInfo) -> Tuple[List[Tuple[list, list]], Optional[str]]:
    """[(flavour facts, chain)] per return statement of a codec method, and the flavour parameter.
    Returns guarded by `isinstance(val, T)` must be pass-throughs and are skipped.  A return of a *constant* under a
    test of the value (`if val is None: return C`) is a shortcut: recorded in _SHORTCUTS[fi.full] as
    (return node, [(kind, const, polarity)], constant) and checked separately; the complementary test on the main
    return is then not a guard of the codec."""
    params = _first_params(fi)[1:]
    if not params:
        raise AnalysisError(f"C20.R2: {fi.qual} has no value parameter")
    val, flav = params[0], (params[1] if len(params) > 1 else None)
    ch = _Chains(repo, fi, val)
    out = []
    shortcuts = _SHORTCUTS.setdefault(fi.full, [])
    del shortcuts[:]
    rets = [n for n in walk(fi.node) if isinstance(n, ast.Return)]
    if not rets:
        raise AnalysisError(f"C20.R2: {fi.qual} never returns a value")
    def alternatives(fs):
        """a guard `A or B` that holds splits the return into one alternative per disjunct"""
        alts = [[]]
        for e, pol in fs:
            if isinstance(e, ast.BoolOp) and isinstance(e.op, ast.Or) and pol:
                alts = [a + atoms(d, True) for a in alts for d in e.values]
            elif isinstance(e, ast.BoolOp) and isinstance(e.op, ast.And) and not pol:
                alts = [a + atoms(d, False) for a in alts for d in e.values]
            else:
                alts = [a + [(e, pol)] for a in alts]
        if len(alts) > 8:
            raise AnalysisError(f"C20.R2: {fi.qual}: guard too complex (extend C20.R2)")
        return alts
    for r, fs_alt in ((r, fa) for r in rets for fa in alternatives(facts(r, fi.node))):
        if ch.rebind is not None and not _precedes(ch.rebind, r):
            raise AnalysisError(f"C20.R2: {fi.qual}: `{norm(r)}` does not follow the re-binding of `{val}` (extend C20.R2)")
        ffacts, typed, vguards = [], False, []
        for e, pol in fs_alt:
            if isinstance(e, ast.Compare) and len(e.ops) == 1 and isinstance(e.ops[0], (ast.Eq, ast.NotEq)):
                sides = [e.left, e.comparators[0]]
                names = [ap(s) for s in sides]
                consts = [s.value for s in sides if isinstance(s, ast.Constant) and isinstance(s.value, str)]
                if flav is not None and flav in names and not consts:
                    # the flavour named through a module / class constant (`flavor == _LEGACY_FLAVOR`)
                    okf, cf = _cv_expr(repo, fi, sides[1 - names.index(flav)])
                    consts = [cf] if okf and isinstance(cf, str) else []
                if flav is not None and flav in names and len(consts) == 1:
                    ffacts.append((consts[0], pol == isinstance(e.ops[0], ast.Eq)))
                    continue
                if val in names:
                    okc, cst = _cv_expr(repo, fi, sides[1 - names.index(val)])
                    if okc:
                        vguards.append(("eq", cst, pol == isinstance(e.ops[0], ast.Eq)))
                        continue
            if isinstance(e, ast.Compare) and len(e.ops) == 1 and isinstance(e.ops[0], (ast.In, ast.NotIn)) \
                    and ap(e.left) == val:
                okc, coll = _cv_expr(repo, fi, e.comparators[0])
                if okc and isinstance(coll, (tuple, list, frozenset, set)):
                    vguards.append(("in", tuple(sorted(coll, key=repr)), pol == isinstance(e.ops[0], ast.In)))
                    continue
            if isinstance(e, ast.Call) and ap(e.func) == "isinstance" and e.args and ap(e.args[0]) == val:
                typed = typed or pol
                continue
            nt = is_none_test(e)
            if nt and nt[0] == val:
                vguards.append(("none", None, pol == nt[1]))
                continue
            if ap(e) == val:
                vguards.append(("truthy", None, pol))
                continue
            raise AnalysisError(f"C20.R2: {fi.qual}: unsupported guard `{norm(e)}` around a return (extend C20.R2)")
        c = ch.chain(r.value) if r.value is not None else None
        mentions_val = r.value is not None and val in {n.id for n in ast.walk(r.value) if isinstance(n, ast.Name)}
        okc, cst = _cv_expr(repo, fi, r.value) if (r.value is not None and not mentions_val) else (r.value is None, None)
        if okc and not mentions_val and vguards:
            shortcuts.append((r, vguards, cst))
            continue
        if typed or (c == [] and any(k == "none" and p for k, _, p in vguards)):
            if c != [] and not (isinstance(r.value, ast.Constant) and r.value.value is None):
                raise AnalysisError(f"C20.R2: {fi.qual}: type-guarded return `{norm(r)}` is not a pass-through")
            continue
        if c is None:
            raise AnalysisError(f"C20.R2: {fi.qual}: `{norm(r)}` is not a chain of operations on `{val}` "
                                f"(read it, then extend C20.R2)")
        out.append((ffacts, c))
    return out, flav


def _apply_ops(v, ops):
    """Concretely apply simple string/bytes operations of a chain to a constant; None when unsupported."""
    for kind, name, args in ops:
        try:
            if kind == "meth" and name in ("partition", "split", "rsplit", "strip", "lstrip", "rstrip", "encode", "decode",
                                           "lower", "upper") and all(isinstance(a, (str, bytes, int)) for a in args):
                v = getattr(v, name)(*args)
            elif kind == "idx":
                v = v[args[0]]
            else:
                return None
        except Exception:
            return None
    return v


def _for_flavour(fi, branches, f) -> list:
    cands = [c for ff, c in branches if all((f == k) == eq for k, eq in ff)]
    if len(cands) != 1:
        raise AnalysisError(f"C20.R2: {fi.qual}: {len(cands)} return paths for flavour {f!r}")
    return cands[0]


def _enc(args) -> str:
    a = args[0] if args and isinstance(args[0], str) else "utf8"
    return a.lower().replace("-", "").replace("_", "")


UUID_CLS = "hippolyzer.lib.base.datatypes.UUID"
_FMT_RE = re.compile(r"^%0?\d*([xXdio])$")
_BASES = {"x": 16, "X": 16, "d": 10, "i": 10, "o": 8}


def _step(rs: list, ds: list):
    """One recogniser step over (reversed writer chain, reader chain).
    -> (n_writer_ops, n_reader_ops, ok, message) or None when no confirmed idiom applies."""
    r0 = rs[0] if rs else None
    d0 = ds[0] if ds else None
    d1 = ds[1] if len(ds) > 1 else None

    def is_idx(op, i):
        return op is not None and op[0] == "idx" and op[2] == (i,)

    if d0 and d0[0] == "meth" and d0[1] in ("strip", "rstrip", "lstrip") and not d0[2] \
            and any(op[0] == "call" and ".parse_" in op[1] for op in ds[1:]):
        return 0, 1, True, ""       # surrounding whitespace removed before a whitespace-tolerant parser
    if r0 and r0[0] == "meth" and r0[1] == "replace" and len(r0[2]) == 2 and isinstance(r0[2][0], str) \
            and len(r0[2][0]) == 1 and r0[2][1] == "&#%d;" % ord(r0[2][0]) \
            and any(op[0] == "call" and op[1].endswith(".parse_xml") for op in ds):
        return 1, 0, True, ""       # character written as an XML character reference; the XML parser decodes it
    if r0 and r0[0] == "suffix":
        s = r0[2][0]
        if d0 and d0[0] == "meth" and d0[1] in ("partition", "split") and d0[2] and is_idx(d1, 0):
            sep = d0[2][0]
            if type(sep) is not type(s) or sep not in s:
                return 1, 2, False, f"writer appends {s!r} but the reader cuts at {sep!r}"
            lead = s[:s.index(sep)]
            if lead.strip():
                return 1, 2, False, f"writer appends {s!r}: {lead!r} stays in the value after cutting at {sep!r}"
            if lead and len(ds) <= 2:
                return 1, 2, False, f"writer appends {s!r}: {lead!r} stays in the value (no tolerant parser follows)"
            return 1, 2, True, ""
        if d0 and d0[0] == "meth" and d0[1] == "removesuffix" and d0[2]:
            return 1, 1, d0[2][0] == s, f"writer appends {s!r}, reader removes {d0[2][0]!r}"
        if not ds:
            return 1, 0, False, f"writer appends {s!r}, reader does not strip it"
        return None
    if r0 and d0 and r0[0] == "meth" and d0[0] == "meth" and {r0[1], d0[1]} == {"encode", "decode"}:
        return 1, 1, _enc(r0[2]) == _enc(d0[2]), f"{r0[1]}({_enc(r0[2])}) vs {d0[1]}({_enc(d0[2])})"
    if r0 and r0[0] == "call" and r0[1] == "str" and d0 and d0[0] == "call":
        if d0[1] == "int":
            base = d0[2][0] if d0[2] else 10
            return 1, 1, base == 10, f"str() writes decimal, reader parses base {base}"
        if d0[1] in (UUID_CLS, "float"):
            return 1, 1, True, ""
        return None
    if r0 and r0[0] == "fmt" and d0 and d0[0] == "call" and d0[1] == "int":
        m = _FMT_RE.match(r0[2][0])
        if not m:
            return None
        base = d0[2][0] if d0[2] else 10
        return 1, 1, _BASES[m.group(1)] == base, f"format {r0[2][0]!r} (base {_BASES[m.group(1)]}) vs int(.., {base})"
    if r0 and r0[0] == "call" and r0[1] == "struct.pack" and d0 and d0[0] == "call" and d0[1] == "struct.unpack" \
            and is_idx(d1, 0):
        wf, rf = (r0[2] or (None,))[0], (d0[2] or (None,))[0]
        if not isinstance(wf, str) or not isinstance(rf, str):
            return None
        return 1, 2, wf == rf and fmt_count(wf) == 1, f"struct.pack({wf!r}) vs struct.unpack({rf!r})[0]"
    # time codecs: both sides must use the UTC base
    if r0 and r0[0] == "call" and r0[1] in ("calendar.timegm", "time.mktime") and len(rs) > 1 and rs[1][0] == "meth" \
            and rs[1][1] in ("utctimetuple", "timetuple") and d0 and d0[0] == "call" \
            and d0[1] in ("datetime.datetime.utcfromtimestamp", "datetime.datetime.fromtimestamp") and not d0[2]:
        w_utc = r0[1] == "calendar.timegm"
        r_utc = d0[1].endswith("utcfromtimestamp")
        return 2, 1, w_utc and r_utc, (f"writer uses {r0[1].split('.')[-1]}({rs[1][1]}()) "
                                       f"[{'UTC' if w_utc else 'host-local'}], reader {d0[1].split('.')[-1]} "
                                       f"[{'UTC' if r_utc else 'host-local'}]: the pair is not host independent")
    if r0 and r0[0] == "call" and r0[1] in ("int", "float", "round") and not r0[2] and len(rs) > 1 \
            and (rs[1][:2] == ("meth", "timestamp") or rs[1][1] in ("calendar.timegm", "time.mktime")):
        return 1, 0, True, ""        # numeric coercion of an epoch value
    if r0 and r0[0] == "meth" and r0[1] == "timestamp" and d0 and d0[0] == "call" and d0[1].endswith("fromtimestamp"):
        return 1, 1, False, "naive datetime.timestamp() uses the host's local time"
    # LLSD text forms
    if is_idx(r0, 1) and len(rs) > 2 and rs[1][0] == "meth" and rs[1][1] == "split" and rs[1][2][:1] == (b">",) \
            and rs[2][0] == "call" and rs[2][1].endswith(".format_xml"):
        return 2, 0, True, ""        # XML declaration dropped; the XML parser accepts a bare <llsd> element
    if r0 and d0 and r0[0] == "call" and d0[0] == "call" and ".format_" in r0[1] and ".parse_" in d0[1]:
        wm, wk = r0[1].rsplit(".format_", 1)
        rm, rk = d0[1].rsplit(".parse_", 1)
        return 1, 1, (wm, wk) == (rm, rk), f"{r0[1]} vs {d0[1]}"
    # lookup-name enums / sibling delegation / enum <-> int
    if r0 and r0[0] == "meth" and r0[1] == "to_lookup_name" and d0 and d0[0] == "call" \
            and d0[1].endswith(".from_lookup_name"):
        recv = d0[1][:-len(".from_lookup_name")]
        if len(rs) > 1 and rs[1][0] == "call":
            return 2, 1, rs[1][1] == recv, f"writer coerces with {rs[1][1]}, reader looks up in {recv}"
        return 1, 1, True, ""
    sib = {"serialize": "deserialize", "to_llsd": "from_llsd"}
    rdel = r0[1].split(".", 1)[1] if r0 and r0[0] == "call" and r0[1].startswith(("self.", "cls.")) else None
    ddel = d0[1].split(".", 1)[1] if d0 and d0[0] == "call" and d0[1].startswith(("self.", "cls.")) else None
    if rdel in sib or ddel in sib.values() or rdel in sib.values() or ddel in sib:
        ok = rdel in sib and sib[rdel] == ddel
        return (1 if r0 else 0), (1 if d0 else 0), ok, \
            (f"writer applies {r0[1] if r0 else 'nothing'}, reader applies {d0[1] if d0 else 'nothing'}: "
             f"one side delegates to the text codec, the other does not")
    if r0 and d0 and r0[0] == "call" and r0[1] == "int" and not r0[2] and d0[0] == "call" \
            and d0[1].startswith(("self.", "cls.")) and d0[1].endswith("_cls"):
        return 1, 1, True, ""        # int(member) <-> EnumClass(int)
    # read-side normaliser with identity writer (idempotent constructor, confirmed by reading)
    if not rs and d0 and d0[0] == "call" and d0[1] == UUID_CLS and not d0[2]:
        return 0, 1, True, ""
    return None


def _inverse(ser: list, des: list) -> Tuple[bool, str]:
    rs, ds = list(reversed(ser)), list(des)
    msgs = []
    ok = True
    while rs or ds:
        st = _step(rs, ds)
        if st is None:
            raise AnalysisError(f"C20.R2: unconfirmed codec idiom pair writer={list(reversed(rs))} reader={ds} "
                                f"(read both sides, then extend C20.R2._step)")
        nr, nd, good, msg = st
        if not good:
            ok = False
            msgs.append(msg)
        rs, ds = rs[nr:], ds[nd:]
    return ok, "; ".join(msgs)


def _shortcut_obligations(ctx, ci: ClassInfo, wr: FuncInfo, rd: FuncInfo):
    """Constant shortcuts of a codec pair: the writer may emit a constant only for ONE model value (an absence /
    equality test - a truthiness test maps every falsy value to the same text), and a reader shortcut comparing
    against a constant must recognise exactly what the writer's shortcut emits and return that value."""
    repo = ctx.repo
    wsc, rsc = _SHORTCUTS.get(wr.full, []), _SHORTCUTS.get(rd.full, [])
    for i, (r, vguards, cst) in enumerate(wsc):
        single = any((k == "none" and p) or (k == "eq" and p) for k, _, p in vguards)
        tag = "" if i == 0 else f" #{i + 1}"
        _ob(ctx, "C20.R2", f"{ci.name}.{wr.name}: constant shortcut{tag} is taken for a single value", single, ctx.w(wr, r),
            f"`{norm(r)}` is emitted under {[(k, p) for k, _, p in vguards]}: every value satisfying that test (e.g. "
            f"{{}}, [], '', 0 as well as None for a falsiness test) is written as the same text and parses back as one value")
        if not single:
            continue
        model_val = next((c for k, c, p in vguards if p and k in ("none", "eq")), None)
        pre = _Chains(repo, rd, _first_params(rd)[1]).prefix or []
        seen = _apply_ops(cst, pre) if isinstance(cst, (str, bytes)) else None
        for rr, rguards, rconst in rsc:
            cmpc = next((c for k, c, p in rguards if k == "eq" and p), None)
            if cmpc is None or seen is None or type(cmpc) is not type(seen):
                continue
            _ob(ctx, "C20.R2", f"{ci.name}: reader shortcut recognises the writer's shortcut text and restores its value",
                cmpc == seen and rconst == model_val, ctx.w(rd, rr),
                f"writer emits {cst!r} (seen by the reader as {seen!r}) for {model_val!r}; reader compares with "
                f"{cmpc!r} and returns {rconst!r}")


def _reader_shortcut_meaning(ctx, ci: ClassInfo, rd: FuncInfo, main_chain: list):
    """A reader that returns a constant for certain wire texts without parsing them must return what the parser
    it bypasses would: for an LLSD XML parser the texts are interpreted per the LLSD XML format."""
    if not any(op[0] == "call" and op[1].endswith(".parse_xml") for op in main_chain):
        return
    for i, (r, vguards, k) in enumerate(_SHORTCUTS.get(rd.full, [])):
        texts = [c for kind, c, p in vguards if kind == "eq" and p and isinstance(c, (str, bytes))]
        for kind, c, p in vguards:
            if kind == "in" and p:
                texts.extend(t for t in c if isinstance(t, (str, bytes)))
        for t in sorted(set(texts), key=repr):
            ok, meaning = _llsd_xml_meaning(t)
            ctx.require(ok, f"C20.R2: {rd.qual}: shortcut text {t!r} is not a small LLSD XML document I can interpret (re-read)")
            _ob(ctx, "C20.R2", f"{ci.name}.{rd.name}: shortcut for {t!r} returns what the bypassed parser would",
                meaning == k and type(meaning) is type(k), ctx.w(rd, r),
                f"{t!r} denotes {meaning!r} in LLSD XML (it is what the writer emits for {meaning!r}), the shortcut "
                f"returns {k!r}: such a value does not survive serialise-then-parse")


LINE_UNSAFE = ("\n", "\t", "\r")


def _line_safety(ctx, ci: ClassInfo, wr: FuncInfo, wchain: list, rchain: list):
    """A field whose text form carries free text verbatim (the value itself, or an XML document of it) is cut by the
    line tokeniser at a tab / newline and by the reader at its terminator: the writer must escape those characters
    (and something on the read side must undo it), else values containing them do not survive the text form."""
    raw = all(op[0] in ("suffix", "prefix") for op in wchain)
    xml = any(op[0] == "call" and op[1].endswith(".format_xml") for op in wchain)
    if not (raw or xml):
        return
    seps = [op[2][0] for op in rchain if op[0] == "meth" and op[1] in ("partition", "split") and op[2]
            and isinstance(op[2][0], str)]
    need = sorted(set(seps) | set(LINE_UNSAFE))
    escaped = {op[2][0] for op in wchain if op[0] == "meth" and op[1] == "replace" and len(op[2]) == 2
               and isinstance(op[2][0], str) and isinstance(op[2][1], str)
               and not any(u in op[2][1] for u in need)}
    undone = xml and any(op[0] == "call" and op[1].endswith(".parse_xml") for op in rchain)
    undone = undone or all(any(o[0] == "meth" and o[1] == "replace" and len(o[2]) == 2 and o[2][1] == ch for o in rchain)
                           for ch in escaped)
    missing = [ch for ch in need if ch not in escaped]
    _ob(ctx, "C20.R2", f"{ci.name}: free-text values survive the line format", not missing and undone, ctx.w(wr, wr.node),
        f"the text form carries the value verbatim but {missing!r} are not escaped: the reader cuts at its terminator "
        f"and the line tokeniser at tab / newline (and strips surrounding blanks), so such values come back truncated, "
        f"or the whole line (and with it the node) is dropped")


def r2(ctx):
    repo = ctx.repo
    ctx.rule("C20.R2", "every SchemaFieldSerializer subclass defines both text directions, its text and LLSD "
                       "pairs are confirmed inverse idioms with equal parameters; time codecs are UTC based")
    base = repo.cls("SchemaFieldSerializer", SCHEMA)
    subs = sorted(_subclasses(repo, base), key=lambda c: c.name)
    ctx.floor("C20.R2", "SchemaFieldSerializer subclasses", len(subs), 7)
    npairs = 0
    # serializer classes that some dataclass field of the schema really uses (bare class or instance)
    used_specs = set()
    for mod in repo.modules.values():
        for c in find_calls(mod.tree, "schema_field"):
            sp = c.args[0] if c.args else kw(c, "spec")
            if sp is not None:
                used_specs.add(((ap(sp.func) if isinstance(sp, ast.Call) else ap(sp)) or "").split(".")[-1])
    for ci in subs:
        where = f"{ci.module.rel}:{ci.node.lineno}"
        res = {m: _lookup_method(repo, ci, m) for m in ("serialize", "deserialize", "to_llsd", "from_llsd")}
        for m in ("serialize", "deserialize"):
            f = res[m]
            _ob(ctx, "C20.R2", f"{ci.name} defines {m}", f is not None and not _is_abstract(f), where,
                   f"only the abstract {m} is inherited: the field cannot be {'written' if m == 'serialize' else 'parsed'}")
        if any(res[m] is None or (m in ("serialize", "deserialize") and _is_abstract(res[m])) for m in res):
            continue
        # text pair
        sb, _ = _branches(repo, res["serialize"])
        db, _ = _branches(repo, res["deserialize"])
        ok, msg = _inverse(_for_flavour(res["serialize"], sb, OTHER), _for_flavour(res["deserialize"], db, OTHER))
        _ob(ctx, "C20.R2", f"{ci.name}.serialize <-> deserialize are inverse idioms", ok,
               ctx.w(res["serialize"], res["serialize"].node), msg)
        npairs += 1
        _shortcut_obligations(ctx, ci, res["serialize"], res["deserialize"])
        _reader_shortcut_meaning(ctx, ci, res["deserialize"], _for_flavour(res["deserialize"], db, OTHER))
        if ci.name in used_specs:
            _line_safety(ctx, ci, res["serialize"], _for_flavour(res["serialize"], sb, OTHER),
                         _for_flavour(res["deserialize"], db, OTHER))
        # LLSD pair per flavour either side distinguishes
        tb, _ = _branches(repo, res["to_llsd"])
        fb, _ = _branches(repo, res["from_llsd"])
        flavours = sorted({k for ff, _ in tb + fb for k, _ in ff}) + [OTHER]
        for fl in flavours:
            ok, msg = _inverse(_for_flavour(res["to_llsd"], tb, fl), _for_flavour(res["from_llsd"], fb, fl))
            _ob(ctx, "C20.R2", f"{ci.name}.to_llsd <-> from_llsd are inverse idioms [{fl}]", ok,
                   ctx.w(res["to_llsd"], res["to_llsd"].node), msg)
            npairs += 1
    ctx.stats["C20.R2.pairs"] = npairs
    ctx.assume("C20.R2: `self._enum_cls` of SchemaEnumField is an IntEnum class (constructor annotation "
               "Type[LookupIntEnum]); int(member) <-> EnumClass(int) is then exact")
    # the line tokeniser: the format separates key and value by C isspace() bytes; Unicode-aware `\\s` / str.strip()
    # also swallow U+3000, U+00A0, ... at the start of a value
    smod = repo.module(SCHEMA)
    pat = repo.module_assign(smod, "_SCHEMA_LINE_TOKENS_RE")
    ctx.require(isinstance(pat, ast.Call) and (ap(pat.func) or "").endswith("compile") and pat.args,
                "C20.R2: _SCHEMA_LINE_TOKENS_RE is no longer a compiled pattern (re-read)")
    ptxt = ConstEval(repo, smod).ev(pat.args[0])
    ctx.require(isinstance(ptxt, (str, bytes)), "C20.R2: schema line pattern is not a literal (re-read)")
    flags = [pat.args[1]] if len(pat.args) > 1 else []
    flags += [k.value for k in pat.keywords if k.arg == "flags"]
    ascii_flag = any((ap(x) or "").split(".")[-1] in ("ASCII", "A") for fl in flags for x in ast.walk(fl))
    uses_class = isinstance(ptxt, str) and any(t in ptxt for t in ("\\s", "\\S", "\\w", "\\W", "\\d", "\\D", "\\b"))
    _ob(ctx, "C20.R2", "parse_schema_line: the line pattern uses the format's ASCII blanks", ascii_flag or not uses_class,
        ctx.w(smod, pat), "a str pattern with \\s and without re.ASCII treats every Unicode space as a separator: a value "
                          "starting with U+3000 / U+00A0 loses its first character on parse")
    tok = repo.fn("_yield_schema_tokens", INV)
    strips = [(f, c) for f in module_funcs_reachable(repo, tok) for c in calls(f.node)
              if call_attr(c) in ("strip", "lstrip", "rstrip") and isinstance(c.func, ast.Attribute)]
    ctx.floor("C20.R2", "line strips in the schema tokeniser", len(strips), 1)
    for i, (f, c) in enumerate(strips):
        chars = ConstEval(repo, f.module).ev(c.args[0]) if c.args else None
        ok = isinstance(chars, str) and all(ord(ch) < 128 for ch in chars)
        _ob(ctx, "C20.R2", f"_yield_schema_tokens: line strip{'' if i == 0 else f' #{i + 1}'} removes ASCII blanks only", ok,
            ctx.w(f, c), f"`{norm(c)}` strips every Unicode space from the line")

    # the text readers are fed lines cut at "\n" (readline): str.splitlines() also cuts at VT, FF, FS/GS/RS, NEL,
    # U+2028 and U+2029, which are ordinary value characters of the format
    nsplit = 0
    for rel in (SCHEMA, INV, WEARABLES):
        mod = repo.module(rel)
        for f in repo.all_funcs:
            if f.module is not mod or f.parent_fn is not None:
                continue
            hits = [c for c in calls(f.node, into_defs=True) if call_attr(c) == "splitlines" and isinstance(c.func, ast.Attribute)]
            for i, c in enumerate(hits):
                nsplit += 1
                _ob(ctx, "C20.R2", f"{f.qual}: text is cut into lines at the line terminator only{'' if i == 0 else f' #{i + 1}'}",
                    False, ctx.w(f, c),
                    f"`{norm(c)}` also splits at \\x0b, \\x0c, \\x1c-\\x1e, \\x85, U+2028 and U+2029: a name, description or "
                    f"metadata string containing one of them is broken into two lines and the rest of the value is lost")
    _ob(ctx, "C20.R2", "legacy text readers never re-split their input on Unicode line boundaries", nsplit == 0,
        f"{SCHEMA}:1", f"{nsplit} splitlines() call(s) in the text schema modules")

    # tz lint (shared hipposa.tzlint) on the schema modules
    sites = tz_sites(repo, (SCHEMA, INV))
    # (conversions may live in module-level helpers of legacy_schema.py that SchemaDate calls)
    in_schema = [t for t in sites if t[0] is not None and t[0].module.rel == SCHEMA]
    ctx.floor("C20.R2", "epoch conversions in legacy_schema.py", len(in_schema), 3)
    for f, node, kind, ok, why in sites:
        _ob(ctx, "C20.R2", "tz: " + site_key(f, node, kind), ok, ctx.w(f, node) if f is not None else f"{SCHEMA}:{node.lineno}", why)


# =========================================================================== R3

class _Field:
    def __init__(self, name, owner, node, call):
        self.name, self.owner, self.node, self.call = name, owner, node, call
        self.is_schema = call is not None and call_attr(call) == "schema_field"
        self.spec = call.args[0] if self.is_schema and call.args else (kw(call, "spec") if self.is_schema else None)
        ln = kw(call, "llsd_name") if self.is_schema else None
        self.llsd_name = ln.value if isinstance(ln, ast.Constant) and isinstance(ln.value, str) else None


def _is_dataclass(ci: ClassInfo) -> bool:
    return any((ap(d) or ap(getattr(d, "func", None)) or "").split(".")[-1] == "dataclass" for d in ci.node.decorator_list)


def _dc_fields(repo, ci: ClassInfo) -> Dict[str, _Field]:
    """Dataclass fields in definition order (bases first; only @dataclass classes contribute)."""
    out: Dict[str, _Field] = {}
    for c in reversed(_mro(repo, ci)):
        if not _is_dataclass(c):
            continue
        for st in c.node.body:
            if isinstance(st, ast.AnnAssign) and isinstance(st.target, ast.Name):
                if "ClassVar" in src(st.annotation):
                    continue
                call = st.value if isinstance(st.value, ast.Call) else None
                out[st.target.id] = _Field(st.target.id, c, st, call)   # re-declaration keeps its position
    return out


def _class_const(repo, ci: ClassInfo, name: str):
    v, owner = _class_attr(repo, ci, name)
    if v is None:
        return None
    r = ConstEval(repo, owner.module).ev(v)
    return r if is_const(r) else None


def _flavour_consts(fn_node, params: Sequence[str]) -> set:
    """String constants a parameter of the function is compared with (==, !=)."""
    out = set()
    for n in walk(fn_node):
        if isinstance(n, ast.Compare) and len(n.ops) == 1 and isinstance(n.ops[0], (ast.Eq, ast.NotEq)):
            sides = [n.left, n.comparators[0]]
            if any(ap(s) in params for s in sides):
                out |= {s.value for s in sides if isinstance(s, ast.Constant) and isinstance(s.value, str)}
    return out


def _fields_table(ctx, ci: ClassInfo, flavour: Optional[str], renames: Optional[list] = None) -> List[str]:
    """Keys of `ci._get_fields_dict(flavour)`, interpreting the base implementation and the overrides."""
    repo = ctx.repo
    impls = [c.methods["_get_fields_dict"] for c in _mro(repo, ci) if "_get_fields_dict" in c.methods]
    ctx.require(impls and impls[-1].cls.name == "SchemaBase", "_get_fields_dict base implementation vanished")

    def base_table(f: FuncInfo) -> List[str]:
        # confirm the base shape: key = metadata llsd_name (when a flavour is given) or the field name
        text = {norm(n) for n in walk(f.node)}
        fl = _first_params(f)[1]
        ok = any(isinstance(n, ast.If) and ap(n.test) == fl for n in walk(f.node)) and \
            any("llsd_name" in t for t in text) and any(isinstance(n, ast.For) and "dataclasses.fields" in src(n.iter)
                                                        for n in walk(f.node))
        ctx.require(ok, "SchemaBase._get_fields_dict no longer has the confirmed shape (re-read, extend C20.R3)")
        return [(fd.llsd_name if flavour and fd.llsd_name else fd.name) for fd in _dc_fields(repo, ci).values()]

    def run(i: int) -> List[str]:
        f = impls[i]
        if i == len(impls) - 1:
            return base_table(f)
        fl = _first_params(f)[1]
        table: Optional[List[str]] = None
        tname = None
        env: Dict[str, Any] = {}

        def cv(node):
            if isinstance(node, ast.Constant) and isinstance(node.value, str):
                return node.value
            if isinstance(node, ast.Name) and isinstance(env.get(node.id), str):
                return env[node.id]
            return None

        def block(stmts):
            nonlocal table, tname
            for st in stmts:
                if isinstance(st, ast.Expr) and isinstance(st.value, ast.Constant):
                    continue
                if isinstance(st, ast.Assign) and len(st.targets) == 1 and isinstance(st.targets[0], ast.Name) \
                        and isinstance(st.value, ast.Call) and call_attr(st.value) == "_get_fields_dict" \
                        and src(st.value.func).startswith("super()"):
                    passed = [ap(a) for a in st.value.args] + [ap(k.value) for k in st.value.keywords]
                    _ob(ctx, "C20.R3", f"{f.qual} passes its flavour to super()", passed == [fl], ctx.w(f, st),
                           f"super()._get_fields_dict called with {passed}")
                    table, tname = run(i + 1), st.targets[0].id
                    continue
                if isinstance(st, ast.If):
                    t = st.test
                    if isinstance(t, ast.Compare) and len(t.ops) == 1 and isinstance(t.ops[0], (ast.Eq, ast.NotEq)) \
                            and ap(t.left) == fl and isinstance(t.comparators[0], ast.Constant):
                        taken = (flavour == t.comparators[0].value) == isinstance(t.ops[0], ast.Eq)
                    elif ap(t) == fl:
                        taken = bool(flavour)
                    else:
                        raise AnalysisError(f"C20.R3: {f.qual}: unsupported test `{norm(t)}`")
                    r = block(st.body if taken else st.orelse)
                    if r:
                        return True
                    continue
                if isinstance(st, (ast.For, ast.AsyncFor)) and not st.orelse:
                    # rename pairs hoisted into a constant table and applied in a loop: unroll it
                    it = st.iter
                    rows = _class_const(repo, f.cls, it.attr) if isinstance(it, ast.Attribute) and \
                        isinstance(it.value, ast.Name) and it.value.id in ("cls", "self", f.cls.name) else None
                    if rows is None and isinstance(it, ast.Name):
                        rows = ConstEval(repo, f.module).ev(it)
                    if isinstance(rows, dict):
                        rows = None
                    if isinstance(it, ast.Call) and call_attr(it) == "items" and isinstance(it.func, ast.Attribute):
                        d = it.func.value
                        dv = _class_const(repo, f.cls, d.attr) if isinstance(d, ast.Attribute) and \
                            isinstance(d.value, ast.Name) and d.value.id in ("cls", "self", f.cls.name) else \
                            ConstEval(repo, f.module).ev(d)
                        rows = list(dv.items()) if isinstance(dv, dict) and is_const(dv) else None
                    tgts = [t.id for t in (st.target.elts if isinstance(st.target, ast.Tuple) else [st.target])
                            if isinstance(t, ast.Name)]
                    if not (isinstance(rows, (tuple, list)) and is_const(rows) and tgts and
                            all((isinstance(r, (tuple, list)) and len(r) == len(tgts)) or len(tgts) == 1 for r in rows)):
                        raise AnalysisError(f"C20.R3: {f.qual}: loop `{norm(st)[:80]}` does not range over a constant "
                                            f"table of rename rows (extend C20.R3)")
                    for row in rows:
                        env.update(zip(tgts, row if len(tgts) > 1 else [row]))
                        if block(st.body):
                            return True
                    for t in tgts:
                        env.pop(t, None)
                    continue
                if isinstance(st, ast.Assign) and len(st.targets) == 1 and isinstance(st.targets[0], ast.Subscript) \
                        and ap(st.targets[0].value) == tname and cv(st.targets[0].slice) is not None \
                        and isinstance(st.value, ast.Call) and ap(st.value.func) == f"{tname}.pop" \
                        and st.value.args and cv(st.value.args[0]) is not None:
                    new, old = cv(st.targets[0].slice), cv(st.value.args[0])
                    present = old in table
                    clash = new in table and new != old
                    if renames is not None:
                        renames.append((f, st, flavour, old, new, present, clash))
                    if present:
                        table.remove(old)
                    if new not in table:
                        table.append(new)
                    continue
                if isinstance(st, ast.Return) and ap(st.value) == tname and tname:
                    return True
                raise AnalysisError(f"C20.R3: {f.qual}: unsupported statement `{norm(st)}` (extend C20.R3)")
            return False
        ctx.require(block(f.node.body) and table is not None, f"{f.qual}: does not return the super() table")
        return table
    return run(0)


def _gfd_calls(repo, fi: FuncInfo) -> List[Tuple[FuncInfo, ast.Call]]:
    out = []
    for f in class_methods_reachable(repo, fi):
        if f.name == "_get_fields_dict":
            continue
        for c in find_calls(f.node, "_get_fields_dict"):
            out.append((f, c))
    return out


def _flavour_kind(f: FuncInfo, c: ast.Call) -> str:
    args = list(c.args) + [k.value for k in c.keywords]
    if not args or (isinstance(args[0], ast.Constant) and args[0].value is None):
        return "none"
    a = args[0]
    if isinstance(a, ast.Constant):
        return f"const:{a.value!r}"
    if isinstance(a, ast.Name) and a.id in _first_params(f):
        return "param"
    return f"expr:{norm(a)}"


def _names_from_table(fn_node, into: set):
    """Local names holding (a dict derived from) a _get_fields_dict() call."""
    for st in stores(fn_node, into_defs=False):
        if st.kind == "assign" and st.value is not None and find_calls(st.value, "_get_fields_dict"):
            into.add(st.path)
        elif st.kind == "mutcall" and st.method == "update" and find_calls(st.node, "_get_fields_dict"):
            into.add(st.path)


def _derives_from_table(repo, fi: FuncInfo, e, tables: set, depth=0) -> bool:
    """Expression is (a dict built from) a _get_fields_dict() result - directly, through a local, or through a
    self./cls. helper whose return value is."""
    if ap(e) in tables or find_calls(e, "_get_fields_dict"):
        return True
    if depth < 3 and isinstance(e, ast.Call) and isinstance(e.func, ast.Attribute) and isinstance(e.func.value, ast.Name) \
            and e.func.value.id in ("self", "cls") and fi.cls is not None:
        m = _lookup_method(repo, fi.cls, e.func.attr)
        if m is not None:
            mt: set = set()
            _names_from_table(m.node, mt)
            return any(r.value is not None and _derives_from_table(repo, m, r.value, mt, depth + 1)
                       for r in walk(m.node) if isinstance(r, ast.Return))
    return False


def _key_checks(ctx, fi: FuncInfo, role: str, flavoured: bool):
    """The writer emits / the reader looks up the *table key*; a flavoured reader stores under field.name."""
    tables: set = set()
    _names_from_table(fi.node, tables)
    loops = [n for n in walk(fi.node) if isinstance(n, ast.For)]
    if role == "writer":
        hit = None
        for lp in loops:
            it = lp.iter
            if isinstance(it, ast.Call) and call_attr(it) == "items" and isinstance(it.func, ast.Attribute):
                recv = it.func.value
                if _derives_from_table(ctx.repo, fi, recv, tables) and isinstance(lp.target, ast.Tuple) \
                        and len(lp.target.elts) == 2 and isinstance(lp.target.elts[0], ast.Name):
                    hit = lp
        ctx.require(hit is not None, f"C20.R3: {fi.qual}: no loop over the field table's items() (re-read)")
        kname = hit.target.elts[0].id
        rets = [ap(r.value) for r in walk(fi.node) if isinstance(r, ast.Return) and r.value is not None]
        emitted = []
        for st in stores(hit, into_defs=False):
            if st.kind == "setitem" and st.path in rets:
                emitted.append((st.node, ap(st.target.slice)))
        for c in find_calls(hit, "write"):
            if c.args and isinstance(c.args[0], ast.JoinedStr) and find_calls(c.args[0], "serialize"):
                names = [ap(v.value) for v in c.args[0].values if isinstance(v, ast.FormattedValue)]
                emitted.append((c, kname if kname in names else (names[0] if names else None)))
        ctx.require(emitted, f"C20.R3: {fi.qual}: no emission of a field key found in the table loop (re-read)")
        for node, key in emitted:
            _ob(ctx, "C20.R3", f"{fi.qual} emits each value under its table key", key == kname, ctx.w(fi, node),
                   f"value is written under `{key}`, the table key is `{kname}`: renamed (llsd_name) fields "
                   f"would be emitted under a name the reader's table does not contain")
        return
    # reader
    hit = None
    for lp in loops:
        tnames = {x.id for x in ast.walk(lp.target) if isinstance(x, ast.Name)}
        for n in walk(lp):
            if isinstance(n, ast.Compare) and len(n.ops) == 1 and isinstance(n.ops[0], (ast.In, ast.NotIn)) \
                    and ap(n.comparators[0]) in tables:
                hit = (lp, ap(n.left), ap(n.comparators[0]))
            elif hit is None and isinstance(n, ast.Subscript) and isinstance(n.ctx, ast.Load) and ap(n.value) in tables \
                    and ap(n.slice) in tnames:
                hit = (lp, ap(n.slice), ap(n.value))     # EAFP form: try: table[key] except KeyError
    ctx.require(hit is not None, f"C20.R3: {fi.qual}: no lookup of the input key in the field table found (re-read)")
    lp, kname, tname = hit
    field_vars = {st.path for st in stores(lp, into_defs=False)
                  if st.kind == "assign" and isinstance(st.value, ast.Subscript) and ap(st.value.value) == tname
                  and ap(st.value.slice) == kname}
    _ob(ctx, "C20.R3", f"{fi.qual} looks the input key up in the table", bool(field_vars), ctx.w(fi, lp),
           f"no `{tname}[{kname}]` lookup")
    if not flavoured:
        return
    rets = set()
    for r in walk(fi.node):
        if isinstance(r, ast.Return) and r.value is not None:
            rets |= {ap(a) for a in getattr(r.value, "args", [])} | {ap(r.value)}
            rets |= {ap(k.value) for k in getattr(r.value, "keywords", [])}
    sts = [st for st in stores(lp, into_defs=False) if st.kind == "setitem" and st.path in rets]
    ctx.require(sts, f"C20.R3: {fi.qual}: no store into the constructor dict found (re-read)")
    for st in sts:
        k = st.target.slice
        ok = isinstance(k, ast.Attribute) and k.attr == "name" and ap(k.value) in field_vars
        if isinstance(k, ast.Name):
            defs = [s for s in stores(lp, into_defs=False) if s.kind == "assign" and s.path == k.id
                    and _precedes(s.node, st.node)]
            ok = any(isinstance(s.value, ast.Attribute) and s.value.attr == "name" and ap(s.value.value) in field_vars
                     for s in defs)
        _ob(ctx, "C20.R3", f"{fi.qual} stores parsed values under the dataclass field name", ok, ctx.w(fi, st.node),
               f"stored under `{norm(k)}`: a field with an llsd_name would reach the constructor under its wire name")


def _reader_dispatch(ctx, fi: FuncInfo) -> Dict[str, set]:
    """schema key -> classes whose from_reader the model-level reader calls for it.  Two equivalent
    dispatch idioms are resolved: an if/elif chain on `key == "const"`, and a lookup of the key in a
    module-level dict literal {"const": Class} whose result receives the .from_reader call."""
    repo = ctx.repo
    disp: Dict[str, set] = {}
    for n in walk(fi.node):
        if isinstance(n, ast.If) and isinstance(n.test, ast.Compare) and len(n.test.ops) == 1 \
                and isinstance(n.test.ops[0], ast.Eq):
            consts = [x.value for x in (n.test.left, n.test.comparators[0])
                      if isinstance(x, ast.Constant) and isinstance(x.value, str)]
            if len(consts) != 1:
                continue
            for c in find_calls(ast.Module(body=n.body, type_ignores=[]), "from_reader"):
                if isinstance(c.func, ast.Attribute) and ap(c.func.value):
                    disp.setdefault(consts[0], set()).add(ap(c.func.value))
    # table dispatch: <local> = TABLE.get(key) / TABLE[key]; <local>.from_reader(...)
    for c in find_calls(fi.node, "from_reader"):
        if not (isinstance(c.func, ast.Attribute) and isinstance(c.func.value, ast.Name)):
            continue
        for v in assigned_value(fi.node, c.func.value.id):
            table = None
            if isinstance(v, ast.Call) and call_attr(v) == "get" and isinstance(v.func, ast.Attribute) and v.args:
                table = v.func.value
            elif isinstance(v, ast.Subscript):
                table = v.value
            if table is None or not isinstance(table, ast.Name):
                continue
            lit = repo.module_assign(fi.module, table.id)
            if isinstance(lit, ast.DictComp) and len(lit.generators) == 1 and not lit.generators[0].ifs \
                    and isinstance(lit.generators[0].target, ast.Name):
                # {<cls>.ATTR: <cls> for <cls> in <module-level tuple of classes>}: expand it row by row
                g = lit.generators[0]
                src_t = repo.module_assign(fi.module, g.iter.id) if isinstance(g.iter, ast.Name) else g.iter
                var = g.target.id
                if isinstance(src_t, (ast.Tuple, ast.List)) and ap(lit.value) == var and isinstance(lit.key, ast.Attribute) \
                        and ap(lit.key.value) == var:
                    for el in src_t.elts:
                        ec = repo.resolve_class(ap(el) or "", fi.module)
                        kv = _class_const(repo, ec, lit.key.attr) if ec is not None else None
                        if not isinstance(kv, str):
                            raise AnalysisError(f"C20.R3: dispatch table `{table.id}`: {norm(el)}.{lit.key.attr} is not a "
                                                f"string constant")
                        disp.setdefault(kv, set()).add(ec.name)
                    continue
            if not isinstance(lit, ast.Dict):
                raise AnalysisError(f"C20.R3: {fi.qual} dispatches through `{table.id}`, which is not a module-level "
                                    f"dict literal (re-read, extend C20.R3)")
            for k, val in zip(lit.keys, lit.values):
                if not (isinstance(k, ast.Constant) and isinstance(k.value, str) and ap(val)):
                    raise AnalysisError(f"C20.R3: dispatch table `{table.id}` has a non-literal row `{norm(k)}: {norm(val)}`")
                disp.setdefault(k.value, set()).add(ap(val))
    return disp


def r3(ctx):
    repo = ctx.repo
    ctx.rule("C20.R3", "reader and writer key on the same field table (_get_fields_dict with the same flavour), "
                       "emit/look up the table key, nested and model-level dispatch names agree with the tables")
    pairs = [("text", repo.fn("InventoryBase.from_reader", INV), repo.fn("InventoryBase.to_writer", INV), "none"),
             ("llsd", repo.fn("SchemaBase.from_llsd", SCHEMA), repo.fn("SchemaBase.to_llsd", SCHEMA), "param")]
    for label, rd, wr, want in pairs:
        kinds = {}
        for role, f in (("reader", rd), ("writer", wr)):
            cs = _gfd_calls(repo, f)
            ctx.require(cs, f"C20.R3: {f.qual} no longer keys on _get_fields_dict (re-read, extend C20.R3)")
            kinds[role] = sorted({_flavour_kind(g, c) for g, c in cs})
        _ob(ctx, "C20.R3", f"{rd.qual} and {wr.qual} use the same flavour of the field table",
               kinds["reader"] == kinds["writer"] == [want], rd.where,
               f"reader table flavour {kinds['reader']}, writer {kinds['writer']}, expected [{want!r}]")
        _key_checks(ctx, wr, "writer", label == "llsd")
        _key_checks(ctx, rd, "reader", label == "llsd")

    # --- tables of the inventory node classes
    imod = repo.module(INV)
    types_node = repo.module_assign(imod, "INVENTORY_TYPES")
    ctx.require(isinstance(types_node, ast.Tuple) and types_node.elts, "INVENTORY_TYPES is not a tuple literal")
    node_classes = [repo.resolve_class(ap(e) or "", imod) for e in types_node.elts]
    ctx.require(all(node_classes), "INVENTORY_TYPES contains an unresolvable class")
    ctx.floor("C20.R3", "inventory node classes", len(node_classes), 3)
    sbase = repo.cls("SchemaBase", SCHEMA)
    schema_classes = [c for c in _subclasses(repo, sbase) if _is_dataclass(c) and c.module.rel == INV]

    # flavours any table/LLSD override distinguishes
    flavours = {"legacy"}
    for c in _subclasses(repo, sbase, strict=False):
        for m in ("_get_fields_dict", "to_llsd", "from_llsd"):
            if m in c.methods:
                flavours |= _flavour_consts(c.methods[m].node, _first_params(c.methods[m])[1:])
    ctx.floor("C20.R3", "LLSD flavours", len(flavours), 2)

    nested = 0
    for c in sorted(schema_classes, key=lambda x: x.name):
        fields = _dc_fields(repo, c)
        # nested structures are written under their own SCHEMA_NAME and found again by field name
        for fd in fields.values():
            if fd.owner is not c or fd.spec is None:
                continue
            sc = repo.resolve_class(ap(fd.spec) or "", c.module) if ap(fd.spec) else None
            if sc is not None and any(m == sbase for m in _mro(repo, sc)):
                nested += 1
                sn = _class_const(repo, sc, "SCHEMA_NAME")
                _ob(ctx, "C20.R3", f"{c.name}.{fd.name}: nested {sc.name} is written under the field's name",
                       sn == fd.name, ctx.w(c.module, fd.node),
                       f"{sc.name}.SCHEMA_NAME is {sn!r}: to_writer emits that header, from_reader looks for "
                       f"field {fd.name!r}")
        # a field marked llsd_only is skipped by to_writer: the legacy text form cannot carry it
        for fd in fields.values():
            if fd.owner is c and fd.is_schema:
                lo = kw(fd.call, "llsd_only")
                if isinstance(lo, ast.Constant) and lo.value is True:
                    _ob(ctx, "C20.R3", f"{c.name}.{fd.name}: the legacy text form carries the field", False,
                        ctx.w(c.module, fd.node),
                        f"{fd.name} is declared llsd_only: to_writer never emits it, so a {c.name} whose {fd.name} differs "
                        f"from the field's default does not survive to_str() -> from_str()")
        # text table == field names; renames only under a flavour and only of existing keys
        renames: list = []
        text_keys = _fields_table(ctx, c, None, renames)
        _ob(ctx, "C20.R3", f"{c.name} text table is keyed by field names", text_keys == list(fields), ctx.w(c.module, c.node),
               f"_get_fields_dict() yields {text_keys}")
        for fl in sorted(flavours):
            _fields_table(ctx, c, fl, renames)
        for f, st, fl, old, new, present, clash in renames:
            _ob(ctx, "C20.R3", f"{f.qual}[{fl}] renames existing key {old!r} -> {new!r}", present and not clash,
                   ctx.w(f, st), "key to rename is not in the table" if not present else "new key collides")
    ctx.floor("C20.R3", "nested schema fields", nested, 2)

    # --- model-level dispatch: legacy text
    mfr = repo.fn("InventoryModel.from_reader", INV)
    disp = _reader_dispatch(ctx, mfr)
    for c in node_classes:
        sn = _class_const(repo, c, "SCHEMA_NAME")
        _ob(ctx, "C20.R3", f"InventoryModel.from_reader dispatches {c.name}.SCHEMA_NAME to {c.name}",
               sn is not None and disp.get(sn) == {c.name}, mfr.where,
               f"to_writer emits header {sn!r}; from_reader maps it to {sorted(disp.get(sn, []))}")
        idattr = _class_const(repo, c, "ID_ATTR")
        _ob(ctx, "C20.R3", f"{c.name}.ID_ATTR names a dataclass field", idattr in _dc_fields(repo, c), ctx.w(c.module, c.node),
               f"ID_ATTR={idattr!r}")

    # --- model-level dispatch: LLSD flavours
    mfl = repo.fn("InventoryModel.from_llsd", INV)
    loop = next((n for n in walk(mfl.node) if isinstance(n, ast.For) and ap(n.iter) == "INVENTORY_TYPES"
                 and isinstance(n.target, ast.Name)), None)
    ctx.require(loop is not None, "InventoryModel.from_llsd no longer iterates INVENTORY_TYPES (re-read)")
    tv = loop.target.id
    attrs = set()
    def _with_defs(e, depth=0):
        """e plus the values assigned (anywhere in the function) to the local names it mentions."""
        out = [e]
        if depth < 3:
            for nm in {x.id for x in ast.walk(e) if isinstance(x, ast.Name)} - {tv}:
                for v in assigned_value(mfl.node, nm):
                    out.extend(_with_defs(v, depth + 1))
        return out
    for n in walk(loop):
        if isinstance(n, ast.Compare) and len(n.ops) == 1 and isinstance(n.ops[0], ast.In):
            for x in (y for e in _with_defs(n.left) for y in walk(e)):
                if isinstance(x, ast.Attribute) and ap(x.value) == tv:
                    attrs.add(x.attr)
                if isinstance(x, ast.Call) and ap(x.func) == "getattr" and len(x.args) >= 2 and ap(x.args[0]) == tv \
                        and isinstance(x.args[1], ast.Constant):
                    attrs.add(x.args[1].value)
    ctx.require(attrs, "InventoryModel.from_llsd: no `<class attr> in obj_dict` recognition test found (re-read)")
    for c in node_classes:
        extra = set()
        for k in _mro(repo, c):
            if "to_llsd" in k.methods:
                for st in stores(k.methods["to_llsd"].node, into_defs=False):
                    if st.kind == "setitem" and isinstance(st.target.slice, ast.Constant):
                        extra.add(st.target.slice.value)
        cands = {_class_const(repo, c, a) for a in attrs} - {None}
        for fl in sorted(flavours):
            keys = set(_fields_table(ctx, c, fl)) | extra
            _ob(ctx, "C20.R3", f"InventoryModel.from_llsd recognises {c.name} in flavour {fl}", bool(cands & keys),
                   ctx.w(mfl, loop),
                   f"recognition tests {sorted(cands)} but {c.name}.to_llsd({fl!r}) never emits any of them "
                   f"(its id key there is {sorted(keys - set(_fields_table(ctx, c, 'legacy')))}): the node is dropped")


# =========================================================================== R4 / R5

def _msgtype_sizes(ctx) -> Dict[str, int]:
    tmod = ctx.repo.module(TYPES)
    node = ctx.repo.module_assign(tmod, "TYPE_SIZES")
    ctx.require(node is not None, "TYPE_SIZES vanished from msgtypes.py")
    sizes = ConstEval(ctx.repo, tmod).ev(node)
    ctx.require(isinstance(sizes, dict) and all(isinstance(k, EnumVal) for k in sizes), "TYPE_SIZES is not a literal table")
    return {k.name: v for k, v in sizes.items()}


def _typed_codec_calls(repo, fns: Sequence[FuncInfo], name: str):
    """(fn, call, MsgType member name) for X.pack/unpack(<data>, MsgType.M) calls."""
    out = []
    for f in fns:
        ev = ConstEval(repo, f.module)
        for c in find_calls(f.node, name):
            if len(c.args) == 2:
                v = ev.ev(c.args[1])
                if isinstance(v, EnumVal) and v.cls == "MsgType":
                    out.append((f, c, v.name))
    return out


def _expand(fn_node, e, depth=0):
    """Expand a local name assigned exactly once (hoisted sub-expression)."""
    if isinstance(e, ast.Name) and depth < 8:
        vals = assigned_value(fn_node, e.id)
        if len(vals) == 1:
            return _expand(fn_node, vals[0], depth + 1)
    return e


def _same(fn_node, a, b) -> bool:
    return ast.dump(_expand(fn_node, a)) == ast.dump(_expand(fn_node, b))


def _chunk_stores(fi: FuncInfo):
    return [st for st in stores(fi.node, into_defs=False) if st.kind == "setitem" and st.path.endswith(".chunks")]


def _is_zero_test(fn_node, e, pol, key_expr) -> bool:
    """fact `<key> == 0` (either spelling) holding with polarity True."""
    if isinstance(e, ast.Compare) and len(e.ops) == 1 and isinstance(e.ops[0], (ast.Eq, ast.NotEq)):
        sides = [e.left, e.comparators[0]]
        zero = [s for s in sides if isinstance(s, ast.Constant) and s.value == 0 and not isinstance(s.value, bool)]
        other = [s for s in sides if s not in zero]
        if len(zero) == 1 and len(other) == 1 and _same(fn_node, other[0], key_expr):
            return pol == isinstance(e.ops[0], ast.Eq)
        return False
    return (not pol) and _same(fn_node, e, key_expr)


def _precedes(a: ast.AST, b: ast.AST) -> bool:
    """Statement a (or its enclosing compound) comes before b's in their innermost common block."""
    chain_a = [enclosing_stmt(a)] + [x for x in ancestors(enclosing_stmt(a)) if isinstance(x, ast.stmt)]
    chain_b = [enclosing_stmt(b)] + [x for x in ancestors(enclosing_stmt(b)) if isinstance(x, ast.stmt)]
    for xa in chain_a:
        for xb in chain_b:
            if xa is xb:
                continue
            pa, pb = parent(xa), parent(xb)
            if pa is pb and pa is not None:
                for fld in ("body", "orelse", "finalbody"):
                    blk = getattr(pa, fld, None)
                    if isinstance(blk, list) and any(s is xa for s in blk) and any(s is xb for s in blk):
                        ia = next(i for i, s in enumerate(blk) if s is xa)
                        ib = next(i for i, s in enumerate(blk) if s is xb)
                        return ia < ib
    return False


def r4(ctx):
    repo = ctx.repo
    ctx.rule("C20.R4", "Xfer framing: receiver's length-prefix type/width equal the sender's and TYPE_SIZES, the "
                       "prefix strip depends only on packet 0 and feeds the stored chunk, one chunk size, "
                       "expected chunk count is EOF id + 1")
    sizes = _msgtype_sizes(ctx)
    recv = repo.fn("XferManager._handle_send_xfer_packet", XFER)
    send = repo.fn("Xfer.__init__", XFER)
    recv_fns = class_methods_reachable(repo, recv)
    send_fns = class_methods_reachable(repo, send)
    ups = _typed_codec_calls(repo, recv_fns, "unpack")
    pks = _typed_codec_calls(repo, send_fns, "pack")
    ctx.require(len(ups) == 1 and len(pks) == 1,
                f"C20.R4: expected one typed unpack in the receiver and one typed pack in the sender, "
                f"found {len(ups)}/{len(pks)} (re-read)")
    uf, uc, utype = ups[0]
    pf, pc, ptype = pks[0]
    _ob(ctx, "C20.R4", "Xfer length prefix: receiver unpacks the type the sender packs", utype == ptype, ctx.w(uf, uc),
           f"sender packs {ptype}, receiver unpacks {utype}")
    width = sizes.get(utype)
    ev = ConstEval(repo, uf.module)
    arg = uc.args[0]
    ok_slice = isinstance(arg, ast.Subscript) and isinstance(arg.slice, ast.Slice) and arg.slice.lower is None \
        and arg.slice.upper is not None and arg.slice.step is None
    ctx.require(ok_slice, f"C20.R4: receiver unpacks `{norm(arg)}`, not a `data[:n]` window (re-read)")
    upper = ev.ev(arg.slice.upper)
    _ob(ctx, "C20.R4", "Xfer length prefix: receiver reads TYPE_SIZES[type] bytes", upper == width, ctx.w(uf, uc),
           f"reads {upper!r} bytes for {utype} whose wire width is {width}")
    data_var = ap(arg.value)
    usite = None
    if uf is not recv:
        # the prefix is parsed in a helper: follow the helper's parameter back to the handler's own variable
        sites = [c for c in find_calls(recv.node, uf.name)]
        ctx.require(len(sites) == 1, f"C20.R4: {uf.qual} is called {len(sites)} times from {recv.qual} (re-read)")
        usite = sites[0]
        hp = _first_params(uf)
        if isinstance(usite.func, ast.Attribute) and not any((ap(d) or "").split(".")[-1] == "staticmethod"
                                                             for d in uf.node.decorator_list):
            hp = hp[1:]
        ctx.require(data_var in hp and hp.index(data_var) < len(usite.args),
                    f"C20.R4: cannot map `{data_var}` of {uf.qual} to an argument of its call (re-read)")
        data_var = ap(usite.args[hp.index(data_var)])

    # the stored chunk
    cst = _chunk_stores(recv)
    ctx.require(len(cst) == 1, f"C20.R4: expected one store into xfer.chunks in the receiver, found {len(cst)}")
    T = cst[0]
    key_expr = T.target.slice
    stored = ap(T.value) if T.value is not None else None
    # strips: assignments to the stored variable whose value drops a constant prefix of it
    strips = []
    helper_names = {f.name for f in recv_fns[1:]}
    for st in stores(recv.node, into_defs=False):
        if st.kind != "assign" or st.value is None or st.node is T.node:
            continue
        v = st.value
        low = None
        if isinstance(v, ast.Subscript) and isinstance(v.slice, ast.Slice) and v.slice.upper is None \
                and v.slice.lower is not None:
            low = ev.ev(v.slice.lower)
            src_var = ap(v.value)
        elif isinstance(v, ast.Call) and call_attr(v) in helper_names and any(ap(a) == data_var for a in v.args):
            h = next(f for f in recv_fns[1:] if f.name == call_attr(v))
            lows = [ConstEval(repo, h.module).ev(n.slice.lower) for n in walk(h.node)
                    if isinstance(n, ast.Subscript) and isinstance(n.slice, ast.Slice) and n.slice.lower is not None
                    and n.slice.upper is None]
            low = lows[0] if len(lows) == 1 else None
            src_var = data_var
        else:
            continue
        if src_var == data_var:
            strips.append((st, low))
    ctx.require(len(strips) == 1, f"C20.R4: expected one prefix strip of `{data_var}` in the receiver, found {len(strips)}")
    S, low = strips[0]
    _ob(ctx, "C20.R4", "Xfer length prefix: stripped width equals the width read", low == upper, ctx.w(recv, S.node),
           f"reads {upper!r} bytes but strips {low!r}")
    _ob(ctx, "C20.R4", "Xfer chunk stored is the prefix-stripped data", stored == S.path == data_var and _precedes(S.node, T.node),
           ctx.w(recv, T.node), f"stores `{stored}`, the strip assigns `{S.path}`"
           + ("" if _precedes(S.node, T.node) else " after the store"))
    f_s = {(ast.dump(e), p): e for e, p in facts(S.node, recv.node)}
    f_t = {(ast.dump(e), p) for e, p in facts(T.node, recv.node)}
    zero = [k for k, e in f_s.items() if _is_zero_test(recv.node, e, k[1], key_expr)]
    extra = [norm(e) if k[1] else f"not ({norm(e)})" for k, e in f_s.items() if k not in f_t and k not in zero]
    _ob(ctx, "C20.R4", "Xfer prefix strip is control-dependent on packet id == 0 only", bool(zero) and not extra,
           ctx.w(recv, S.node),
           ("strip is not guarded by `<packet id> == 0`" if not zero else
            f"strip additionally depends on {extra}: a packet 0 for which that does not hold (e.g. a resend) "
            f"is stored with its length prefix"))
    # the prefix read is also only on packet 0
    f_u = [(e, p) for e, p in facts(uc, uf.node)] if uf is recv else \
        [(e, p) for e, p in facts(usite, recv.node)] if usite is not None else None
    if f_u is not None:
        _ob(ctx, "C20.R4", "Xfer length prefix is only read from packet 0",
               any(_is_zero_test(recv.node, e, p, key_expr) for e, p in f_u), ctx.w(recv, uc))

    _sender_chunking(ctx, send, send_fns, pf, pc)
    _expected_plus_one(ctx, "C20.R4", recv, key_expr)


def _lin(fn_node, ev: ConstEval, e, depth=0) -> Optional[Dict[Any, int]]:
    """Linear form {symbol: coeff, 1: const} of an integer expression.  A local is expanded only when its
    single binding in the function is one plain assignment (no augmented assignment, no loop target)."""
    if depth > 10:
        return None
    if isinstance(e, ast.Constant) and isinstance(e.value, int) and not isinstance(e.value, bool):
        return {1: e.value}
    if isinstance(e, ast.BinOp) and isinstance(e.op, (ast.Add, ast.Sub, ast.Mult)):
        a, b = _lin(fn_node, ev, e.left, depth + 1), _lin(fn_node, ev, e.right, depth + 1)
        if a is None or b is None:
            return None
        if isinstance(e.op, ast.Mult):
            if set(a) <= {1}:
                return {k: v * a.get(1, 0) for k, v in b.items()}
            if set(b) <= {1}:
                return {k: v * b.get(1, 0) for k, v in a.items()}
            return None
        sign = 1 if isinstance(e.op, ast.Add) else -1
        out = dict(a)
        for k, v in b.items():
            out[k] = out.get(k, 0) + sign * v
        return out
    if isinstance(e, ast.Name):
        binds = [st for st in stores(fn_node, into_defs=False) if st.path == e.id]
        if len(binds) == 1 and binds[0].kind == "assign" and binds[0].value is not None \
                and not isinstance(binds[0].node, (ast.For, ast.AsyncFor)):
            return _lin(fn_node, ev, binds[0].value, depth + 1)
        if binds:
            return {e.id: 1}
    v = ev.ev(e)
    if isinstance(v, int) and not isinstance(v, bool):
        return {1: v}
    p = ap(e)
    return {p: 1} if p else None


def _nz(d):
    return {k: v for k, v in d.items() if v}


def _range_step(loop, sym: str):
    """If `sym` is bound by this for-loop to the values of a range(...) - directly or as the value part of
    enumerate(range(...)) - the range's step (1, or the step expression); 1 for an enumerate index; else None."""
    tgt, it = loop.target, loop.iter
    if isinstance(it, ast.Call) and ap(it.func) == "enumerate" and it.args and isinstance(tgt, ast.Tuple) and len(tgt.elts) == 2:
        if ap(tgt.elts[0]) == sym:
            return 1
        tgt, it = tgt.elts[1], it.args[0]
    if ap(tgt) != sym or not (isinstance(it, ast.Call) and ap(it.func) == "range" and not it.keywords):
        return None
    return it.args[2] if len(it.args) == 3 else 1 if it.args else None


def _sender_chunking(ctx, send: FuncInfo, send_fns, pf: FuncInfo, pc: ast.Call):
    """One chunk size (take == advance), and the chunking ranges over the *prefixed* buffer: nothing that
    controls which chunks are cut may be derived from the payload before the length prefix was prepended."""
    repo = ctx.repo
    P = enclosing_stmt(pc)
    ctx.require(pf is send and isinstance(P, ast.Assign) and len(P.targets) == 1 and isinstance(P.targets[0], ast.Name)
                and isinstance(P.value, ast.BinOp) and isinstance(P.value.op, ast.Add)
                and P.targets[0].id in {n.id for n in ast.walk(P.value) if isinstance(n, ast.Name)},
                "C20.R4: sender no longer prepends the packed length to the payload variable in Xfer.__init__ (re-read)")
    V = P.targets[0].id
    fn = send.node

    # ---- the "already framed" escape hatch: the type test that elides the prefix must look at the caller's payload.
    #      A builtin constructor (bytes(x), bytearray(x), ...) returns an exact builtin, so after an unconditional
    #      `V = bytes(V)` a test for a repo-defined subclass can never hold and the hatch is dead.
    BUILTIN_CTORS = ("bytes", "bytearray", "memoryview", "str", "list", "tuple", "dict")
    for e, pol in facts(P, fn):
        if not (isinstance(e, ast.Call) and ap(e.func) == "isinstance" and len(e.args) == 2 and ap(e.args[0]) == V):
            continue
        tnames = [ap(x) for x in (e.args[1].elts if isinstance(e.args[1], (ast.Tuple, ast.List)) else [e.args[1]])]
        repo_types = [t for t in tnames if t and repo.resolve_class(t, send.module) is not None]
        if not repo_types:
            continue
        test_facts = {(ast.dump(x), p) for x, p in facts(e, fn)}
        killers = []
        for st in stores(fn, into_defs=False):
            if st.kind == "assign" and st.path == V and st.node is not P and isinstance(st.value, ast.Call) \
                    and ap(st.value.func) in BUILTIN_CTORS and _precedes(st.node, e) \
                    and {(ast.dump(x), p) for x, p in facts(st.node, fn)} <= test_facts:
                killers.append(st)
        _ob(ctx, "C20.R4", f"Xfer sender: the {'/'.join(repo_types)} pass-through test sees the caller's payload",
            not killers, ctx.w(send, e),
            f"`{V}` is unconditionally re-bound by `{norm(killers[0].node) if killers else ''}` before "
            f"`{norm(e)}`: {killers[0].value.func.id if killers else ''}() yields an exact builtin, never a "
            f"{'/'.join(repo_types)}, so an already framed payload gets a second length prefix")

    # ---- chunk productions: (context fn node, evaluator, buffer name there, key, value, loop-likes, statement in
    #      the sender to order against the prefix, expressions of the sender that feed the production)
    prods = []
    for cs in _chunk_stores(send):
        loops = []
        for a in ancestors(cs.node):
            if a is fn:
                break
            if isinstance(a, (ast.For, ast.AsyncFor, ast.While)):
                loops.append(a)
        prods.append(dict(fn=fn, ev=ConstEval(repo, send.module), V=V, key=cs.target.slice, val=cs.value, loops=loops,
                          stmt=cs.node, feeds=[], where=ctx.w(send, cs.node)))
    bulk = [(st, st.node.args[0] if st.kind == "mutcall" and st.node.args else st.value)
            for st in stores(fn, into_defs=False)
            if st.path.endswith(".chunks") and ((st.kind == "mutcall" and st.method == "update") or st.kind == "assign")]
    for st, src_e in bulk:
        if src_e is None:
            continue
        e = _expand(fn, src_e)
        cfn, cV, cev, feeds = fn, V, ConstEval(repo, send.module), []
        # enumerate(to_chunks(V, K)) / dict(enumerate(...)): numbered windows cut by helpers.to_chunks
        inner = e
        while isinstance(inner, ast.Call) and ap(inner.func) in ("dict", "enumerate", "list", "tuple") and inner.args:
            inner = inner.args[0]
        if isinstance(inner, ast.Call) and (ap(inner.func) or "").split(".")[-1] == "to_chunks" and len(inner.args) == 2 \
                and ap(inner.args[0]) == cV:
            tch = repo.fn("to_chunks", HELPERS)
            tp = _first_params(tch)
            takes = [n for n in walk(tch.node) if isinstance(n, ast.Subscript) and isinstance(n.slice, ast.Slice)
                     and ap(n.value) == tp[0]]
            shape = len(tp) == 2 and len(takes) == 2 and \
                any(n.slice.lower is None and ap(n.slice.upper) == tp[1] for n in takes) and \
                any(n.slice.upper is None and ap(n.slice.lower) == tp[1] for n in takes)
            ctx.require(shape, "C20.R4: helpers.to_chunks no longer takes x[:n] and advances by x[n:] (re-read)")
            prods.append(dict(fn=cfn, ev=cev, V=cV, key=None, val=None, loops=[], stmt=st.node,
                              feeds=[inner.args[1]], where=ctx.w(send, st.node), by_helper=inner.args[1]))
            continue
        if isinstance(e, ast.Call) and not isinstance(e, ast.DictComp):
            # a helper (module-level function or self./cls. method) that returns the chunk table of its argument
            g, skip = None, 0
            if isinstance(e.func, ast.Name):
                cands = [h for h in repo.funcs.get(e.func.id, []) if h.module is send.module and h.cls is None and h.parent_fn is None]
                g = cands[0] if len(cands) == 1 else None
            elif isinstance(e.func, ast.Attribute) and isinstance(e.func.value, ast.Name) and e.func.value.id in ("self", "cls") \
                    and send.cls is not None:
                g = _lookup_method(repo, send.cls, e.func.attr)
                if g is not None and not any((ap(d) or "").split(".")[-1] == "staticmethod" for d in g.node.decorator_list):
                    skip = 1
            if g is None:
                continue        # e.g. `self.chunks = {}`-style initialisation through a call: not a production
            rets = [r for r in walk(g.node) if isinstance(r, ast.Return) and r.value is not None]
            params = _first_params(g)[skip:]
            bound = [params[i] for i, a in enumerate(e.args) if i < len(params) and ap(a) == V]
            ctx.require(len(rets) == 1 and isinstance(_expand(g.node, rets[0].value), ast.DictComp) and len(bound) == 1,
                        f"C20.R4: chunk table comes from {g.qual}, which is not a one-argument dict comprehension "
                        f"over the buffer (re-read, extend C20.R4)")
            feeds = [a for a in e.args if ap(a) != V] + [k.value for k in e.keywords]
            cfn, cV, cev, e = g.node, bound[0], ConstEval(repo, g.module), _expand(g.node, rets[0].value)
        if not isinstance(e, ast.DictComp):
            continue            # `self.chunks = {}` and the like
        ctx.require(len(e.generators) == 1, "C20.R4: chunk comprehension with several generators (re-read)")
        prods.append(dict(fn=cfn, ev=cev, V=cV, key=e.key, val=e.value, loops=[e.generators[0]], stmt=st.node,
                          feeds=feeds, where=ctx.w(send, st.node)))
    ctx.require(prods, "C20.R4: sender no longer stores chunks into self.chunks (re-read)")

    sizes = []          # (description, value) of every take / advance width
    control: List[Tuple[ast.AST, ast.AST]] = []   # (expression deciding which chunks are cut, its function node)
    for pr in prods:
        pfn, ev, pV = pr["fn"], pr["ev"], pr["V"]
        if pr.get("by_helper") is not None:
            # to_chunks takes and advances by its one size argument (shape confirmed above)
            control.extend((x, fn) for x in pr["feeds"])
            sizes.append(("take", {1: 1}))
            sizes.append(("advance", {1: 1}))
            continue
        control.append((pr["key"], pfn))
        for lp in pr["loops"]:
            control.append((lp.test if isinstance(lp, ast.While) else lp.iter, pfn))
            for cond in getattr(lp, "ifs", []):
                control.append((cond, pfn))
        control.extend((x, fn) for x in pr["feeds"])
        val = _expand(pfn, pr["val"])
        if isinstance(val, ast.Subscript) and isinstance(val.slice, ast.Slice) and ap(val.value) == pV \
                and val.slice.step is None and val.slice.upper is not None:
            lo, hi = val.slice.lower, val.slice.upper
            control.extend((x, pfn) for x in (lo, hi) if x is not None)
            if lo is None:
                sizes.append(("take", _lin(pfn, ev, hi)))
                drops = [st for st in stores(pfn, into_defs=False) if st.kind == "assign" and st.path == pV
                         and st.node is not P and isinstance(st.value, ast.Subscript)
                         and isinstance(st.value.slice, ast.Slice) and ap(st.value.value) == pV]
                ctx.require(drops and all(d.value.slice.upper is None and d.value.slice.lower is not None for d in drops),
                            f"C20.R4: sender takes `{norm(val)}` but never advances `{pV}` by a `{pV}[n:]` slice (re-read)")
                for d in drops:
                    sizes.append(("advance", _lin(pfn, ev, d.value.slice.lower)))
                    control.append((d.value.slice.lower, pfn))
            else:
                l_lo, l_hi = _lin(pfn, ev, lo), _lin(pfn, ev, hi)
                ctx.require(l_lo is not None and l_hi is not None, f"C20.R4: chunk window `{norm(val)}` is not linear (re-read)")
                width = _nz({k: l_hi.get(k, 0) - l_lo.get(k, 0) for k in set(l_lo) | set(l_hi)})
                sizes.append(("take", width))
                syms = [k for k in _nz(l_lo) if k != 1]
                ctx.require(len(syms) == 1, f"C20.R4: chunk offset `{norm(lo)}` does not depend on one loop variable (re-read)")
                sym, coeff = syms[0], l_lo[syms[0]]
                augs = [st for st in stores(pfn, into_defs=False) if st.path == sym and st.kind == "augassign"]
                binders = [n for n in walk(pfn) if isinstance(n, (ast.For, ast.AsyncFor))] + \
                    [g for n in walk(pfn) if isinstance(n, (ast.DictComp, ast.ListComp, ast.SetComp, ast.GeneratorExp))
                     for g in n.generators]
                steps = [x for x in (_range_step(n, sym) for n in binders) if x is not None]
                if augs and all(isinstance(st.node.op, ast.Add) for st in augs):
                    for st in augs:
                        step = _lin(pfn, ev, st.value)
                        sizes.append(("advance", None if step is None else _nz({k: v * coeff for k, v in step.items()})))
                elif len(steps) == 1:
                    step = {1: 1} if steps[0] == 1 else _lin(pfn, ev, steps[0])
                    if steps[0] != 1:
                        control.append((steps[0], pfn))
                    sizes.append(("advance", None if step is None else _nz({k: v * coeff for k, v in step.items()})))
                else:
                    raise AnalysisError(f"C20.R4: cannot tell how the chunk offset `{sym}` advances (re-read)")
        else:
            tc = [c for lp in pr["loops"] if not isinstance(lp, ast.While) for c in find_calls(lp.iter, "to_chunks")]
            ctx.require(len(tc) == 1 and tc[0].args and ap(tc[0].args[0]) == pV,
                        f"C20.R4: chunk value `{norm(pr['val'])}` is not a window of `{pV}` (re-read, extend C20.R4)")
            sizes.append(("take", _lin(pfn, ev, tc[0].args[1]) if len(tc[0].args) > 1 else None))
    shown = sorted({f"{d}={v}" for d, v in sizes})
    same = all(v is not None for _, v in sizes) and len({repr(sorted(_nz(v).items(), key=repr)) for _, v in sizes}) == 1 \
        and set(_nz(sizes[0][1])) == {1}
    _ob(ctx, "C20.R4", "Xfer sender takes and advances by one chunk size", same, prods[0]["where"],
        f"chunking uses different widths {shown}: bytes are duplicated or lost between chunks")
    # pre-prefix derived names (in the sender itself; a helper only sees what the sender hands it)
    tainted: Dict[str, ast.AST] = {}
    changed = True
    while changed:
        changed = False
        for st in stores(fn, into_defs=False):
            if st.kind not in ("assign", "augassign") or st.value is None or st.node is P or "." in st.path \
                    or st.path in tainted or st.path == V:
                continue
            names = {n.id for n in ast.walk(st.value) if isinstance(n, ast.Name)}
            from_payload = V in names and not _precedes(P, st.node)
            if from_payload or names & set(tainted):
                tainted[st.path] = st.node
                changed = True
    used = sorted({n.id for e, efn in control if efn is fn for n in ast.walk(e) if isinstance(n, ast.Name) and n.id in tainted})
    after = all(_precedes(P, pr["stmt"]) for pr in prods)
    if not after:
        why = f"chunks are cut before the length prefix is prepended to `{V}`"
    elif used:
        why = (f"{used} is computed from `{V}` before the length prefix is prepended (line "
               f"{getattr(tainted[used[0]], 'lineno', '?')}) and then decides which chunks are cut: the prefix bytes "
               f"push the tail of the payload out of the last chunk")
    else:
        why = ""
    _ob(ctx, "C20.R4", "Xfer sender chunks the length-prefixed buffer", after and not used, prods[0]["where"], why)


def _expected_plus_one(ctx, rule, fi: FuncInfo, key_expr):
    repo = ctx.repo
    sts = [st for st in stores(fi.node, into_defs=False) if st.kind == "assign" and st.path.endswith(".expected_chunks")]
    _ob(ctx, rule, f"{fi.qual}: records the expected chunk count from the end-marked packet", bool(sts), fi.where,
        "nothing records how many chunks the end-marked packet announces")
    for st in sts:
        lf = linform(repo, fi.module, fi.node, st.value)
        kf = linform(repo, fi.module, fi.node, key_expr)
        ok = lf is not None and kf is not None and {k: v for k, v in lf.items() if v} == \
            {k: v for k, v in {**kf, 1: kf.get(1, 0) + 1}.items() if v}
        _ob(ctx, rule, f"{fi.qual}: expected chunk count is the end-marked id + 1", ok, ctx.w(fi, st.node),
               f"expected_chunks = {norm(st.value)} with ids counted from 0")
        _ob(ctx, rule, f"{fi.qual}: expected chunk count is set only by the end-marked packet",
               bool(facts(st.node, fi.node)), ctx.w(fi, st.node), "unconditional: every packet would end the transfer")


def _object_method_sites(repo, h: FuncInfo, name: str):
    """(method of the transfer object, call of `name` in it, call site in the handler) for completion logic that was
    moved onto the state object: `xfer.<m>()` in the handler where `xfer` is a parameter annotated with a repo class
    whose method <m> (or a self. helper of it) calls `name`."""
    out = []
    ann = {}
    for a in h.node.args.args:
        if a.annotation is not None:
            ci = repo.resolve_class((ap(a.annotation) or "").split(".")[-1], h.module)
            if ci is not None:
                ann[a.arg] = ci
    for site in calls(h.node):
        if isinstance(site.func, ast.Attribute) and isinstance(site.func.value, ast.Name) and site.func.value.id in ann \
                and site.func.attr != name:
            m = _lookup_method(repo, ann[site.func.value.id], site.func.attr)
            if m is None:
                continue
            for f in class_methods_reachable(repo, m):
                for c in find_calls(f.node, name):
                    out.append((f, c, site))
    return out


def r5(ctx):
    repo = ctx.repo
    ctx.rule("C20.R5", "Xfer and Transfer complete on the number of chunks held (not on the end marker alone), "
                       "after storing the chunk, and assemble chunks in id order")
    sibs = [("Xfer", XFER, repo.fn("XferManager._handle_send_xfer_packet", XFER)),
            ("Transfer", TRANSFER, repo.fn("TransferManager._handle_transfer_packet", TRANSFER))]
    for cname, rel, h in sibs:
        fns = class_methods_reachable(repo, h)
        marks = [(f, c) for f in fns for c in find_calls(f.node, "mark_done")]
        obj_sites = {id(c): site for f, c, site in _object_method_sites(repo, h, "mark_done")}
        marks += [(f, c) for f, c, site in _object_method_sites(repo, h, "mark_done")]
        ctx.require(marks, f"C20.R5: {h.qual} never completes the transfer (mark_done vanished; re-read)")
        cst = [st for f in fns for st in _chunk_stores(f)]
        ctx.require(len(cst) == 1, f"C20.R5: expected one store into .chunks in {h.qual}, found {len(cst)}")
        T = cst[0]
        for i, (f, c) in enumerate(marks):
            fs = facts(c, f.node)
            site_in_h = None
            if id(c) in obj_sites:      # completion moved onto the transfer object: guards at the handler's call count too
                site_in_h = obj_sites[id(c)]
                fs = fs + facts(site_in_h, h.node)
            elif f is not h:      # completion extracted into a helper: the guards at its call sites count too
                sites = [x for g in fns if g is not f for x in find_calls(g.node, f.name)]
                if len(sites) == 1:
                    fs = fs + facts(sites[0], next(g for g in fns if any(x is sites[0] for x in calls(g.node, True))).node)
                    if any(x is sites[0] for x in calls(h.node, True)):
                        site_in_h = sites[0]
            def count_cmp(e, fn_node):
                """the (hoisted-local expanded) comparison of len(<x>.chunks) this condition *requires*, if any:
                a comparison itself, or an `or` every alternative of which is one (an `or` with any other
                alternative lets the transfer complete without the count)."""
                e = _expand(fn_node, e)
                if isinstance(e, ast.BoolOp) and isinstance(e.op, ast.Or):
                    subs = [count_cmp(v, fn_node) for v in e.values]
                    return subs[0] if all(x is not None for x in subs) else None
                if isinstance(e, ast.BoolOp) and isinstance(e.op, ast.And):
                    return next((x for x in (count_cmp(v, fn_node) for v in e.values) if x is not None), None)
                if isinstance(e, ast.Compare) and any(isinstance(x, ast.Call) and ap(x.func) == "len" and x.args
                                                      and (ap(x.args[0]) or "").endswith(".chunks") for x in ast.walk(e)):
                    return e
                return None
            counted = [x for x in (count_cmp(e, f.node) for e, p in fs if p) if x is not None]
            tag = "" if i == 0 else f" #{i + 1}"
            _ob(ctx, "C20.R5", f"{h.qual}: completion{tag} depends on the number of chunks held", bool(counted), ctx.w(f, c),
                   "mark_done() is reached without comparing len(chunks): with the end-marked packet arriving "
                   "early the transfer completes with chunks missing")
            if counted:
                e = counted[0]
                exp_ok = isinstance(e, ast.Compare) and any((ap(x) or "").endswith(".expected_chunks")
                                                            for x in ast.walk(e) if isinstance(x, ast.Attribute))
                _ob(ctx, "C20.R5", f"{h.qual}: completion{tag} compares the count with expected_chunks", exp_ok, ctx.w(f, c),
                       f"count is compared in `{norm(e)}`")
            decided_at = c if f is h else site_in_h
            if decided_at is not None:
                _ob(ctx, "C20.R5", f"{h.qual}: chunk is stored before completion{tag} is decided", _precedes(T.node, decided_at),
                       ctx.w(h, decided_at), "the completion test runs before the arriving chunk is stored: the last "
                                             "chunk to arrive never completes the transfer")
                for st in stores(h.node, into_defs=False):
                    if st.kind == "assign" and st.path.endswith(".expected_chunks"):
                        _ob(ctx, "C20.R5", f"{h.qual}: expected_chunks is recorded before completion{tag} is decided",
                               _precedes(st.node, decided_at), ctx.w(h, st.node))
        if cname == "Transfer":
            _expected_plus_one(ctx, "C20.R5", h, T.target.slice)
        ra = repo.fn(f"{cname}.reassemble_chunks", rel)
        loops = [n for n in walk(ra.node) if isinstance(n, (ast.For, ast.comprehension))]
        srt = [n for n in loops if isinstance(n.iter, ast.Call) and ap(n.iter.func) == "sorted" and n.iter.args
               and (ap(n.iter.args[0]) or "").replace(".items()", "").replace(".keys()", "") == "self.chunks"
               and not n.iter.keywords]
        uns = [n for n in loops if n not in srt and "self.chunks" in src(n.iter)]
        _ob(ctx, "C20.R5", f"{cname}.reassemble_chunks walks chunks sorted by id", bool(srt) and not uns, ra.where,
               "chunks are concatenated in arrival (dict insertion) order")


# =========================================================================== R6

def r6(ctx):
    repo = ctx.repo
    ctx.rule("C20.R6", "versioned animation layout: every ContextSwitch in llanim has the same selector and the same "
                       "version key set, which contains the default version")
    mod = repo.module(ANIM)
    ev = ConstEval(repo, mod)
    def owner_of(node):
        for a in ancestors(node):
            if isinstance(a, (ast.FunctionDef, ast.AsyncFunctionDef)):
                return None
            if isinstance(a, ast.AnnAssign) and isinstance(a.target, ast.Name):
                cls = next((x for x in ancestors(a) if isinstance(x, ast.ClassDef)), None)
                return (cls.name + "." if cls else "") + a.target.id
            if isinstance(a, ast.Assign) and len(a.targets) == 1 and isinstance(a.targets[0], ast.Name):
                return a.targets[0].id
        return None
    sw = []
    for c in find_calls(mod.tree, "ContextSwitch"):
        if not (len(c.args) == 2 and isinstance(c.args[1], ast.Dict)):
            raise AnalysisError(f"C20.R6: ContextSwitch at line {c.lineno} has no literal option table (re-read)")
        keys = []
        for k in c.args[1].keys:
            v = ev.ev(k) if k is not None else Sym("**")
            ctx.require(is_const(v), f"C20.R6: ContextSwitch option key {norm(k)} is not a constant")
            keys.append(v)
        selector = ap(c.args[0]) or norm(c.args[0])
        owner = owner_of(c)
        if owner is not None:
            sw.append((owner, c, selector, keys))
            continue
        # a factory: `def f(...): return ContextSwitch(selector, {K1: a, K2: b})` - every bound call is an instance
        fac = next((a for a in ancestors(c) if isinstance(a, (ast.FunctionDef, ast.AsyncFunctionDef))), None)
        is_ret = fac is not None and any(isinstance(r, ast.Return) and r.value is c for r in walk(fac))
        ctx.require(is_ret and isinstance(getattr(fac, "_parent", None), ast.Module),
                    f"C20.R6: ContextSwitch at line {c.lineno} is not bound to a field or constant, nor returned by a "
                    f"module-level factory (re-read)")
        sites = [x for x in find_calls(mod.tree, fac.name) if isinstance(x.func, ast.Name)]
        ctx.require(sites, f"C20.R6: ContextSwitch factory {fac.name} is never called")
        for x in sites:
            o = owner_of(x)
            ctx.require(o is not None, f"C20.R6: {fac.name}(...) at line {x.lineno} is not bound to a field or constant")
            sw.append((o, x, selector, keys))
    ctx.floor("C20.R6", "ContextSwitch specs in llanim", len(sw), 3)
    anim = repo.cls("Animation", ANIM)
    dflt = []
    for name in ("major_version", "minor_version"):
        st = next((s for s in anim.node.body if isinstance(s, ast.AnnAssign) and ap(s.target) == name), None)
        ctx.require(st is not None and isinstance(st.value, ast.Call), f"Animation.{name} vanished")
        d = kw(st.value, "default")
        dflt.append(ev.ev(d) if d is not None else None)
    sel = repo.fn("_get_version_from_context", ANIM)
    rets = [n for n in walk(sel.node) if isinstance(n, ast.Return)]
    ctx.require(len(rets) == 1 and isinstance(rets[0].value, ast.Tuple), "_get_version_from_context no longer returns a tuple")
    sel_fields = [(ap(e) or "").split(".")[-1] for e in rets[0].value.elts]
    _ob(ctx, "C20.R6", "version selector returns (major_version, minor_version)", sel_fields == ["major_version", "minor_version"],
           sel.where, f"selector returns {sel_fields}; option keys are written as (major, minor)")
    ref_owner, _, ref_sel, ref_keys = next((s for s in sw if s[0] == "VERSIONED_TIME"), sw[0])
    for owner, c, selector, keys in sw:
        where = ctx.w(mod, c)
        _ob(ctx, "C20.R6", f"{owner}: option keys are distinct", len(set(keys)) == len(keys), where, f"keys {keys}")
        _ob(ctx, "C20.R6", f"{owner}: same version keys as {ref_owner}", set(keys) == set(ref_keys), where,
               f"{owner} handles {sorted(map(repr, keys))}, {ref_owner} handles {sorted(map(repr, ref_keys))}: a version "
               f"accepted by one field has no layout in the other")
        _ob(ctx, "C20.R6", f"{owner}: same version selector as {ref_owner}", selector == ref_sel, where,
               f"{selector} vs {ref_sel}")
        _ob(ctx, "C20.R6", f"{owner}: the default Animation version has a layout", tuple(dflt) in keys, where,
               f"default version {tuple(dflt)} not in {keys}")
        _ob(ctx, "C20.R6", f"{owner}: option keys are (major, minor) pairs",
               all(isinstance(k, tuple) and len(k) == len(sel_fields) for k in keys), where)


# =========================================================================== R7

def _cval(repo, ci: ClassInfo, e):
    """Integer value of an expression over literals and the class's own constants (cls.X / self.X / Class.X)."""
    if isinstance(e, ast.Attribute) and isinstance(e.value, ast.Name) and e.value.id in ("cls", "self", ci.name):
        v = _class_const(repo, ci, e.attr)
        return v if isinstance(v, int) and not isinstance(v, bool) else None
    if isinstance(e, ast.BinOp) and isinstance(e.op, (ast.Add, ast.Sub, ast.Mult)):
        a, b = _cval(repo, ci, e.left), _cval(repo, ci, e.right)
        if a is None or b is None:
            return None
        return a + b if isinstance(e.op, ast.Add) else a - b if isinstance(e.op, ast.Sub) else a * b
    v = ConstEval(repo, ci.module).ev(e)
    return v if isinstance(v, int) and not isinstance(v, bool) else None


def _len_cmp(repo, ci, e, var: str):
    """`len(var) <op> const` (either orientation) -> (op class name with len on the left, const) or None."""
    if not (isinstance(e, ast.Compare) and len(e.ops) == 1):
        return None
    l, r = e.left, e.comparators[0]
    flip = {"Lt": "Gt", "Gt": "Lt", "LtE": "GtE", "GtE": "LtE", "Eq": "Eq", "NotEq": "NotEq"}
    op = type(e.ops[0]).__name__
    if op not in flip:
        return None

    def is_len(x):
        return isinstance(x, ast.Call) and ap(x.func) == "len" and len(x.args) == 1 and ap(x.args[0]) == var
    if is_len(l):
        c = _cval(repo, ci, r)
        return (op, c) if c is not None else None
    if is_len(r):
        c = _cval(repo, ci, l)
        return (flip[op], c) if c is not None else None
    return None


_CMP = {"Lt": lambda a, b: a < b, "Gt": lambda a, b: a > b, "LtE": lambda a, b: a <= b, "GtE": lambda a, b: a >= b,
        "Eq": lambda a, b: a == b, "NotEq": lambda a, b: a != b}


def r7(ctx):
    repo = ctx.repo
    ctx.rule("C20.R7", "mesh vertex weights (terminator-or-limit framing): the counts at which the writer omits the "
                       "list terminator are exactly the count at which the reader stops without one")
    ci = repo.cls("VertexWeights", MESH)
    ser, des = _lookup_method(repo, ci, "serialize"), _lookup_method(repo, ci, "deserialize")
    ctx.require(ser is not None and des is not None, "VertexWeights.serialize/deserialize vanished")
    sp, dp = _first_params(ser), _first_params(des)
    ctx.require(len(sp) >= 3 and len(dp) >= 2, "VertexWeights codec signatures changed (re-read)")
    vals, wr, rd = sp[1], sp[2], dp[1]

    # ---- writer: trailing (non-element) writes and the list lengths for which they are skipped
    def in_element_loop(n):
        for a in ancestors(n):
            if a is ser.node:
                return False
            if isinstance(a, (ast.For, ast.AsyncFor)) and vals in {x.id for x in ast.walk(a.iter) if isinstance(x, ast.Name)}:
                return True
            if isinstance(a, ast.comprehension):
                return True
        return False
    w_calls = [c for c in calls(ser.node) if isinstance(c.func, ast.Attribute) and ap(c.func.value) == wr
               and c.func.attr.startswith("write")]
    elem = [c for c in w_calls if in_element_loop(c)]
    trail = [c for c in w_calls if not in_element_loop(c)]
    ctx.require(elem, "C20.R7: VertexWeights.serialize has no per-influence write loop (re-read)")
    ctx.require(len(trail) == 1, f"C20.R7: expected one terminator write after the influence loop, found {len(trail)} (re-read)")
    tw = trail[0]
    guards, consts = [], []
    for cd in conditions(tw, ser.node):
        for e, pol in atoms(cd.test, cd.polarity):
            lc = _len_cmp(repo, ci, e, vals)
            if lc is None:
                raise AnalysisError(f"C20.R7: terminator write depends on `{norm(e)}`, not on the list length (re-read)")
            guards.append((cd.kind == "early-exit", lc[0], lc[1], pol))
            consts.append(lc[1])
    top = (max(consts) + 2) if consts else 2
    elided = []
    for n in range(0, top + 1):
        if not all(_CMP[op](n, c) == pol for early, op, c, pol in guards if early):
            continue            # the writer rejects this length before writing anything
        if not all(_CMP[op](n, c) == pol for early, op, c, pol in guards if not early):
            elided.append(n)

    # ---- reader: the loop that consumes influences and its count bound
    def reads(n) -> bool:
        return any(isinstance(c.func, ast.Attribute) and ap(c.func.value) == rd for c in calls(n, into_defs=True))
    read_names = set()
    for n in ast.walk(des.node):
        if isinstance(n, ast.NamedExpr) and reads(n.value):
            read_names.add(n.target.id)
    for st in stores(des.node, into_defs=False):
        if st.kind == "assign" and st.value is not None and reads(st.value):
            read_names.add(st.path)
    LOOPY = (ast.For, ast.While, ast.ListComp, ast.SetComp, ast.GeneratorExp, ast.DictComp)

    def iter_of(n):
        it = n.iter if isinstance(n, ast.For) else n.generators[0].iter if not isinstance(n, ast.While) else None
        return _expand(des.node, it) if it is not None else None

    def loop_reads(n) -> bool:
        return reads(n) or (iter_of(n) is not None and reads(iter_of(n)))
    loops = [n for n in walk(des.node) if isinstance(n, LOOPY) and loop_reads(n)
             and not any(isinstance(a, LOOPY) and loop_reads(a) for a in ancestors(n) if a is not des.node
                         and not isinstance(a, (ast.FunctionDef, ast.AsyncFunctionDef)))]
    ctx.require(len(loops) == 1, f"C20.R7: expected one influence-reading loop in deserialize, found {len(loops)} (re-read)")
    lp = loops[0]

    def count_bound(e, pol):
        """count bound expressed by a condition under which the loop continues (pol) / stops (not pol)."""
        if not (isinstance(e, ast.Compare) and len(e.ops) == 1):
            return None
        sides = [e.left, e.comparators[0]]
        if any(isinstance(x, ast.NamedExpr) or reads(x) or (ap(x) in read_names) for x in sides):
            return None         # comparison of the value just read (terminator test), not a count
        cs = [(i, _cval(repo, ci, x)) for i, x in enumerate(sides)]
        cs = [(i, c) for i, c in cs if c is not None]
        if len(cs) != 1:
            return None
        i, c = cs[0]
        op = type(e.ops[0]).__name__
        if i == 0:
            op = {"Lt": "Gt", "Gt": "Lt", "LtE": "GtE", "GtE": "LtE"}.get(op, op)
        if not pol:
            op = {"Lt": "GtE", "GtE": "Lt", "Gt": "LtE", "LtE": "Gt", "Eq": "NotEq", "NotEq": "Eq"}[op]
        # loop continues while count <op> c
        return {"Lt": c, "NotEq": c, "LtE": c + 1}.get(op)
    bounds = []
    if not isinstance(lp, ast.While):
        it = iter_of(lp)
        callee = (ap(it.func) or "").split(".")[-1] if isinstance(it, ast.Call) else None
        if callee == "range" and len(it.args) == 1:
            b = _cval(repo, ci, it.args[0])
            ctx.require(b is not None, f"C20.R7: reader loop bound `{norm(it.args[0])}` is not a constant (re-read)")
            bounds.append(b)
        elif callee == "islice" and len(it.args) == 2:
            # at most B items are pulled from the underlying (sentinel-terminated) reader iterator
            b = _cval(repo, ci, it.args[1])
            ctx.require(b is not None, f"C20.R7: reader islice bound `{norm(it.args[1])}` is not a constant (re-read)")
            bounds.append(b)
        elif callee == "iter" and len(it.args) == 2:
            pass        # iter(callable, sentinel): stops at the terminator only - no count bound from the iterator
        else:
            raise AnalysisError(f"C20.R7: reader iterates `{norm(it)}`: unsupported loop shape (re-read)")
    else:
        for e, pol in atoms(lp.test, True):
            b = count_bound(e, pol)
            if b is not None:
                bounds.append(b)
    for n in walk(lp):
        if isinstance(n, ast.If) and n is not lp and always_exits(n.body) and \
                any(isinstance(x, (ast.Break, ast.Return)) for x in walk(ast.Module(body=n.body, type_ignores=[]))):
            for e, pol in atoms(n.test, True):
                b = count_bound(e, not pol)      # the loop continues while the exit test is false
                if b is not None:
                    bounds.append(b)
    ctx.require(len(set(bounds)) <= 1, f"C20.R7: reader has several count bounds {bounds} (re-read)")
    want = sorted(set(bounds))
    _ob(ctx, "C20.R7", "VertexWeights: writer omits the terminator exactly at the reader's count bound",
        elided == want, ctx.w(des, lp),
        f"writer omits the terminator for lists of length {elided or 'none'}; reader stops without a terminator "
        f"after {want or 'no fixed number of'} influences: "
        + ("a full vertex is followed by the next vertex's bytes, which the reader keeps consuming"
           if elided and not want else "the two sides frame a full vertex differently"))


# =========================================================================== R8

def _field_domain(repo, ci: ClassInfo, fd: _Field):
    """(kind, values, optional): what a parsed value of this schema field can be."""
    optional = fd.call is not None and isinstance(kw(fd.call, "default"), ast.Constant) and kw(fd.call, "default").value is None
    spec = fd.spec
    if isinstance(spec, ast.Call) and call_attr(spec) == "SchemaEnumField" and spec.args:
        ec = repo.resolve_class(ap(spec.args[0]) or "", ci.module)
        if ec is None:
            raise AnalysisError(f"C20.R8: enum of {ci.name}.{fd.name} does not resolve")
        return "enum", set(enum_members(repo, ec).values()), optional
    name = (ap(spec) or "").split(".")[-1]
    if name in ("SchemaInt", "SchemaHexInt", "SchemaFlagField"):
        return "int", None, optional
    if name in ("SchemaStr", "SchemaMultilineStr"):
        return "str", None, optional
    return "other", None, optional


def _domain_hits(dom, v) -> bool:
    kind, values, optional = dom
    if v is None:
        return optional
    if isinstance(v, bool):
        return False
    if isinstance(v, int):
        return kind == "int" or (kind == "enum" and v in values)
    if isinstance(v, str):
        return kind == "str"
    return False


def r8(ctx):
    repo = ctx.repo
    ctx.rule("C20.R8", "reader totality: no parse-side skip (return None) is conditioned on a parsed field value "
                       "that the writer can emit for that field")
    sbase = repo.cls("SchemaBase", SCHEMA)
    classes = _subclasses(repo, sbase, strict=False)
    seen = set()
    examined = 0
    for ci in classes:
        for mname, m in ci.methods.items():
            if m.full in seen:
                continue
            seen.add(m.full)
            parsed = set()
            if m.name == "_obj_from_dict" and len(_first_params(m)) >= 2:
                parsed.add(_first_params(m)[1])
            for c in find_calls(m.node, "_obj_from_dict"):
                parsed |= {ap(a) for a in c.args if isinstance(a, ast.Name)}
            if not parsed:
                continue
            ev = ConstEval(repo, m.module)
            users = [c for c in classes if _is_dataclass(c) and _lookup_method(repo, c, m.name) == m] \
                if m.name == "_obj_from_dict" else [c for c in classes if _is_dataclass(c) and any(k == ci for k in _mro(repo, c))]
            for r in walk(m.node):
                if not (isinstance(r, ast.Return) and (r.value is None or (isinstance(r.value, ast.Constant)
                                                                            and r.value.value is None))):
                    continue
                for e, pol in facts(r, m.node):
                    if not (isinstance(e, ast.Compare) and len(e.ops) == 1):
                        continue
                    sides = [e.left, e.comparators[0]]
                    reads = []
                    for i, x in enumerate(sides):
                        k = None
                        if isinstance(x, ast.Call) and call_attr(x) == "get" and isinstance(x.func, ast.Attribute) \
                                and ap(x.func.value) in parsed and x.args and isinstance(x.args[0], ast.Constant):
                            k = x.args[0].value
                        elif isinstance(x, ast.Subscript) and ap(x.value) in parsed and isinstance(x.slice, ast.Constant):
                            k = x.slice.value
                        if isinstance(k, str):
                            reads.append((i, k))
                    if len(reads) != 1:
                        continue
                    i, key = reads[0]
                    other = sides[1 - i]
                    op = type(e.ops[0]).__name__
                    if op in ("Eq", "NotEq", "Is", "IsNot"):
                        cands = [other]
                        equal = (op in ("Eq", "Is")) == pol
                    elif op in ("In", "NotIn") and i == 0 and isinstance(other, (ast.Tuple, ast.List, ast.Set)):
                        cands = list(other.elts)
                        equal = (op == "In") == pol
                    else:
                        raise AnalysisError(f"C20.R8: {m.qual}: unsupported skip condition `{norm(e)}` (re-read)")
                    vals = []
                    for cnode in cands:
                        v = ev.ev(cnode)
                        if isinstance(v, EnumVal):
                            v = v.value
                        if not (v is None or isinstance(v, (int, str))):
                            raise AnalysisError(f"C20.R8: {m.qual}: skip compares `{key}` with non-constant `{norm(cnode)}`")
                        vals.append(v)
                    for c in sorted(users, key=lambda k: k.name):
                        fd = _dc_fields(repo, c).get(key)
                        if fd is None or not fd.is_schema:
                            continue
                        examined += 1
                        dom = _field_domain(repo, c, fd)
                        if equal:
                            hit = [v for v in vals if _domain_hits(dom, v)]
                        else:   # skipped unless the field equals one of vals: every other emitted value is dropped
                            hit = ["<any other value>"]
                        _ob(ctx, "C20.R8", f"{m.qual}: skip when {key} {'==' if equal else '!='} {norm(other)} drops nothing "
                                           f"{c.name} can serialise", not hit, ctx.w(m, r),
                            f"{c.name}.{key} can legitimately be {hit} (the writer emits it), but the reader then returns "
                            f"None: such a node is silently dropped on parse")
    ctx.stats["C20.R8.skip guards x classes"] = examined
    # both writers leave a field whose value is None out; a field declared Optional[...] WITHOUT a default is then
    # missing from the constructor call unless the shared constructor tail (_obj_from_dict) defaults it
    done = set()
    for c in sorted((k for k in classes if _is_dataclass(k) and k.module.rel == INV), key=lambda k: k.name):
        for fd in _dc_fields(repo, c).values():
            if not fd.is_schema or (fd.owner.name, fd.name) in done:
                continue
            ann = fd.node.annotation
            optional = isinstance(ann, ast.Subscript) and (ap(ann.value) or "").split(".")[-1] == "Optional"
            if not optional or kw(fd.call, "default") is not None or kw(fd.call, "default_factory") is not None:
                continue
            done.add((fd.owner.name, fd.name))
            tail = _lookup_method(repo, fd.owner, "_obj_from_dict")
            defaulted = False
            if tail is not None and len(_first_params(tail)) >= 2:
                dname = _first_params(tail)[1]
                for call in calls(tail.node):
                    if call_attr(call) == "setdefault" and isinstance(call.func, ast.Attribute) and ap(call.func.value) == dname \
                            and call.args and isinstance(call.args[0], ast.Constant) and call.args[0].value == fd.name \
                            and not facts(call, tail.node):
                        defaulted = True
                for st in stores(tail.node, into_defs=False):
                    # `if "f" not in d: d["f"] = None`
                    if st.kind == "setitem" and st.path == dname and isinstance(st.target.slice, ast.Constant) \
                            and st.target.slice.value == fd.name:
                        fs = facts(st.node, tail.node)
                        if len(fs) == 1 and isinstance(fs[0][0], ast.Compare) and len(fs[0][0].ops) == 1 \
                                and isinstance(fs[0][0].left, ast.Constant) and fs[0][0].left.value == fd.name \
                                and ap(fs[0][0].comparators[0]) == dname \
                                and isinstance(fs[0][0].ops[0], ast.NotIn if fs[0][1] else ast.In):
                            defaulted = True
                    # `d = {"f": None, **d}`
                    if st.kind == "assign" and st.path == dname and isinstance(st.value, ast.Dict) and not facts(st.node, tail.node) \
                            and any(k is None and ap(v) == dname for k, v in zip(st.value.keys, st.value.values)) \
                            and any(isinstance(k, ast.Constant) and k.value == fd.name for k in st.value.keys if k is not None):
                        pos = [i for i, k in enumerate(st.value.keys) if k is None and ap(st.value.values[i]) == dname][0]
                        kpos = [i for i, k in enumerate(st.value.keys) if isinstance(k, ast.Constant) and k.value == fd.name][0]
                        defaulted = defaulted or kpos < pos
            _ob(ctx, "C20.R8", f"{fd.owner.name}.{fd.name}: a field the writers omit when None can be constructed when absent",
                defaulted, ctx.w(fd.owner.module, fd.node),
                f"`{fd.name}` is Optional without a default: to_writer / to_llsd skip a None value, and the reader then "
                f"calls the constructor without it (TypeError: missing required argument) in every flavour")


# =========================================================================== R9

def r9(ctx):
    repo = ctx.repo
    ctx.rule("C20.R9", "mesh segments: the raw-bytes cache is only a fallback - every lookup of it while serialising "
                       "is conditioned on the parsed segment being absent")
    ser = repo.fn("LLMeshSerializer.serialize", MESH)
    des = repo.fn("LLMeshSerializer.deserialize", MESH)
    # which MeshAsset attribute holds bytes as read, which the parsed value: from the reader's stores
    raw_attr = parsed_attr = None
    byte_names = {st.path for st in stores(des.node, into_defs=False) if st.kind == "assign" and st.value is not None
                  and any(call_attr(c) == "read_bytes" for c in calls(st.value))}
    for st in stores(des.node, into_defs=False):
        if st.kind == "setitem" and "." in st.path and st.value is not None:
            attr = st.path.split(".")[-1]
            if ap(st.value) in byte_names:
                raw_attr = attr
            else:
                parsed_attr = attr
    ctx.require(raw_attr and parsed_attr and raw_attr != parsed_attr,
                "C20.R9: cannot tell the raw and the parsed segment tables apart in LLMeshSerializer.deserialize (re-read)")

    def lookups(fn_node, attr):
        out = []
        for n in walk(fn_node, into_defs=True):
            if isinstance(n, ast.Call) and call_attr(n) == "get" and isinstance(n.func, ast.Attribute) \
                    and (ap(n.func.value) or "").endswith("." + attr):
                out.append(n)
            elif isinstance(n, ast.Subscript) and isinstance(n.ctx, ast.Load) and (ap(n.value) or "").endswith("." + attr):
                out.append(n)
        return out
    fns = class_methods_reachable(repo, ser)
    n_raw = 0
    n_parsed = sum(len(lookups(f.node, parsed_attr)) for f in fns)
    ctx.require(n_parsed > 0, f"C20.R9: serialize never looks a segment up in `.{parsed_attr}` (re-read)")
    for f in fns:
        parsed_names = {st.path for st in stores(f.node, into_defs=False) if st.kind == "assign" and st.value is not None
                        and lookups(st.value, parsed_attr) and not lookups(st.value, raw_attr)}

        def absent(e, pol) -> bool:
            if isinstance(e, ast.Compare) and len(e.ops) == 1 and isinstance(e.ops[0], (ast.In, ast.NotIn)) \
                    and (ap(e.comparators[0]) or "").endswith("." + parsed_attr):
                return isinstance(e.ops[0], ast.NotIn) == pol
            nt = is_none_test(e)
            if nt is not None:
                tgt = e.left
                if nt[0] in parsed_names or (lookups(tgt, parsed_attr) and not lookups(tgt, raw_attr)):
                    return pol == nt[1]
                return False
            if (ap(e) in parsed_names) or (isinstance(e, (ast.Call, ast.Subscript)) and e in lookups(e, parsed_attr)):
                return not pol
            return False
        for i, n in enumerate(lookups(f.node, raw_attr)):
            n_raw += 1
            ok = False
            cur = n
            for a in ancestors(n):
                if isinstance(a, ast.Call) and call_attr(a) == "get" and isinstance(a.func, ast.Attribute) \
                        and (ap(a.func.value) or "").endswith("." + parsed_attr) and len(a.args) > 1 \
                        and any(x is cur for x in a.args[1:]):
                    ok = True
                if isinstance(a, ast.stmt):
                    break
                cur = a
            ok = ok or any(absent(e, pol) for e, pol in facts(n, f.node))
            _ob(ctx, "C20.R9", f"{f.qual}: raw segment lookup{'' if i == 0 else f' #{i + 1}'} is a fallback of the parsed lookup",
                ok, ctx.w(f, n),
                f"`{norm(n)}` is consulted without the parsed `.{parsed_attr}` entry being known absent: edits to a "
                f"parsed segment are discarded in favour of the stale bytes it was parsed from")
    ctx.floor("C20.R9", "raw segment lookups in LLMeshSerializer.serialize", n_raw, 1)


# =========================================================================== R10

def _class_invariant(repo, c: ClassInfo, rd: Optional[FuncInfo], key: str) -> Tuple[bool, str]:
    """An elided field whose reader restores the constant K is not lossy when the tree itself evidences the class
    invariant `field == K`: every construction site of the class (ClassName(...) anywhere, cls(...) in its own
    methods) that passes the field explicitly passes that same constant, and at least one such site exists."""
    if rd is None:
        return False, "no sibling from_llsd restores the field"
    restored = []
    rev = ConstEval(repo, rd.module)
    for st in stores(rd.node, into_defs=False):
        if st.kind == "setitem" and isinstance(st.target.slice, ast.Constant) and st.target.slice.value == key \
                and st.value is not None:
            v = rev.ev(st.value)
            restored.append(v if is_const(v) else None)
    if not restored or any(v is None for v in restored) or len({repr(v) for v in restored}) != 1:
        return False, "the reader does not restore one constant"
    k = restored[0]
    fields = list(_dc_fields(repo, c))
    if key not in fields:
        return False, f"{key!r} is not a dataclass field of {c.name}"
    idx = fields.index(key)
    passed = []
    for mod in repo.modules.values():
        ev = ConstEval(repo, mod)
        for call in calls(mod.tree, into_defs=True):
            fn = call.func
            is_ctor = False
            if isinstance(fn, (ast.Name, ast.Attribute)) and (ap(fn) or "").split(".")[-1] == c.name:
                is_ctor = repo.resolve_class(ap(fn), mod) == c
            elif isinstance(fn, ast.Name) and fn.id == "cls":
                owner = next((a for a in ancestors(call) if isinstance(a, ast.ClassDef)), None)
                is_ctor = owner is c.node
            if not is_ctor:
                continue
            arg = kw(call, key)
            if arg is None and len(call.args) > idx and not any(isinstance(a, ast.Starred) for a in call.args):
                arg = call.args[idx]
            if arg is not None:
                passed.append((mod, call, ev.ev(arg)))
    if not passed:
        return False, f"no construction of {c.name} passes {key!r} explicitly, so nothing evidences the invariant"
    bad = [f"{mod.rel}:{call.lineno}" for mod, call, v in passed if repr(v) != repr(k)]
    if bad:
        return False, f"reader restores {k!r} but the construction(s) at {', '.join(bad)} pass another value"
    return True, ""


def r10(ctx):
    repo = ctx.repo
    ctx.rule("C20.R10", "LLSD writer overrides do not lose schema fields: a key popped from the payload is either "
                        "re-emitted under a name the sibling from_llsd maps back, or (per field, flavour and type) "
                        "reported as a lossy elision")
    sbase = repo.cls("SchemaBase", SCHEMA)
    n = 0
    for c in sorted(_subclasses(repo, sbase), key=lambda k: k.name):
        m = c.methods.get("to_llsd")
        if m is None:
            continue
        payload = {st.path for st in stores(m.node, into_defs=False) if st.kind == "assign" and st.value is not None
                   and isinstance(st.value, ast.Call) and call_attr(st.value) == "to_llsd" and src(st.value.func).startswith("super()")}
        if not payload:
            continue
        params = _first_params(m)[1:]
        ev = ConstEval(repo, m.module)
        rd = c.methods.get("from_llsd")
        for call in calls(m.node):
            if not (call_attr(call) == "pop" and isinstance(call.func, ast.Attribute) and ap(call.func.value) in payload
                    and call.args and isinstance(call.args[0], ast.Constant) and isinstance(call.args[0].value, str)):
                continue
            pv = ap(call.func.value)
            key = call.args[0].value
            flav, types, other = [], None, []
            for e, pol in facts(call, m.node):
                if isinstance(e, ast.Compare) and len(e.ops) == 1:
                    l, r = e.left, e.comparators[0]
                    l = l if ap(l) in params or ap(l) in payload else _expand(m.node, l)
                    r = r if ap(r) in params or ap(r) in payload else _expand(m.node, r)
                    op = e.ops[0]
                    if isinstance(op, (ast.Eq, ast.NotEq)) and any(ap(x) in params for x in (l, r)) and \
                            any(isinstance(x, ast.Constant) and isinstance(x.value, str) for x in (l, r)):
                        cst = next(x.value for x in (l, r) if isinstance(x, ast.Constant))
                        flav.append(cst if isinstance(op, ast.Eq) == pol else f"not {cst}")
                        continue
                    if isinstance(op, (ast.In, ast.NotIn)) and ap(r) == pv and isinstance(l, ast.Constant):
                        continue        # `"key" in payload`: a presence guard, not a condition on the node's content
                    sub = next((x for x in (l, r) if (isinstance(x, ast.Subscript) and ap(x.value) == pv
                                                      and isinstance(x.slice, ast.Constant))
                                or (isinstance(x, ast.Call) and call_attr(x) == "get" and isinstance(x.func, ast.Attribute)
                                    and ap(x.func.value) == pv and x.args and isinstance(x.args[0], ast.Constant))), None)
                    if sub is not None and (pol and isinstance(op, (ast.Eq, ast.In))
                                            or not pol and isinstance(op, (ast.NotEq, ast.NotIn))):
                        o = r if sub is l else l
                        elts = list(o.elts) if isinstance(op, (ast.In, ast.NotIn)) and isinstance(o, (ast.Tuple, ast.List, ast.Set)) else [o]
                        vals = [ev.ev(x) for x in elts]
                        if all(isinstance(v, EnumVal) for v in vals):
                            types = sorted({v.name for v in vals})
                            tfield = sub.slice.value if isinstance(sub, ast.Subscript) else sub.args[0].value
                            continue
                other.append(norm(e) if pol else f"not ({norm(e)})")
            fl = ",".join(flav) or "any flavour"
            st = enclosing_stmt(call)
            n += 1
            rekey = None
            if isinstance(st, ast.Assign) and st.value is call and len(st.targets) == 1:
                t0 = st.targets[0]
                if isinstance(t0, ast.Subscript) and ap(t0.value) == pv and isinstance(t0.slice, ast.Constant):
                    rekey = t0.slice.value
                elif isinstance(t0, ast.Name):      # popped into a local that is stored back under another key
                    for s2 in stores(m.node, into_defs=False):
                        if s2.kind == "setitem" and s2.path == pv and ap(s2.value) == t0.id \
                                and isinstance(s2.target.slice, ast.Constant):
                            rekey = s2.target.slice.value
            if rekey is not None:
                new = rekey
                back = False
                if rd is not None:
                    for s2 in stores(rd.node, into_defs=False):
                        if s2.kind == "setitem" and isinstance(s2.target.slice, ast.Constant) and s2.target.slice.value == key \
                                and isinstance(s2.value, ast.Call) and call_attr(s2.value) == "pop" and s2.value.args \
                                and isinstance(s2.value.args[0], ast.Constant) and s2.value.args[0].value == new:
                            back = True
                _ob(ctx, "C20.R10", f"{c.name}.to_llsd[{fl}] re-keys {key!r} as {new!r} and from_llsd maps it back", back,
                    ctx.w(m, call), f"{c.name}.from_llsd has no `[{key!r}] = <dict>.pop({new!r})`: the value is lost on parse")
                continue
            inv_ok, inv_why = _class_invariant(repo, c, rd, key)
            for t in (types or [None]):
                inst = f"{c.name}.to_llsd[{fl}] keeps {key!r}" + (f" when {tfield} is {t}" if t else "") + \
                    (f" [{'; '.join(other)}]" if other else "")
                _ob(ctx, "C20.R10", inst, inv_ok, ctx.w(m, call),
                    f"the writer drops {key!r} from the payload" + (f" of {t} nodes" if t else "") +
                    "; the sibling reader can only put a constant back, so a node whose field differs from that "
                    f"constant does not survive to_llsd -> from_llsd ({inv_why})")
    ctx.stats["C20.R10.payload pops"] = n
    # the generic writer leaves an unset optional field (default None) out of the payload: post-processing of an
    # override may subscript / pop-without-default such a key only under a presence guard
    for c in sorted(_subclasses(repo, sbase), key=lambda k: k.name):
        m = c.methods.get("to_llsd")
        if m is None:
            continue
        payload = {st.path for st in stores(m.node, into_defs=False) if st.kind == "assign" and st.value is not None
                   and isinstance(st.value, ast.Call) and call_attr(st.value) == "to_llsd" and src(st.value.func).startswith("super()")}
        if not payload:
            continue
        fields = _dc_fields(repo, c)
        seen_keys: Dict[str, int] = {}
        for x in walk(m.node):
            key = None
            if isinstance(x, ast.Subscript) and isinstance(x.ctx, ast.Load) and ap(x.value) in payload \
                    and isinstance(x.slice, ast.Constant) and isinstance(x.slice.value, str):
                key, pv = x.slice.value, ap(x.value)
            elif isinstance(x, ast.Call) and call_attr(x) == "pop" and isinstance(x.func, ast.Attribute) \
                    and ap(x.func.value) in payload and len(x.args) == 1 and isinstance(x.args[0], ast.Constant):
                key, pv = x.args[0].value, ap(x.func.value)
            if key is None:
                continue
            fd = fields.get(key) or next((f for f in fields.values() if f.llsd_name == key), None)
            if fd is None or not fd.is_schema:
                continue
            d = kw(fd.call, "default")
            if not (isinstance(d, ast.Constant) and d.value is None):
                continue        # a required field is always in the payload
            guarded = any(isinstance(e, ast.Compare) and len(e.ops) == 1
                          and isinstance(e.ops[0], ast.In if pol else ast.NotIn)
                          and ap(e.comparators[0]) == pv and isinstance(e.left, ast.Constant) and e.left.value == key
                          for e, pol in facts(x, m.node))
            seen_keys[key] = seen_keys.get(key, 0) + 1
            tag = "" if seen_keys[key] == 1 else f" #{seen_keys[key]}"
            _ob(ctx, "C20.R10", f"{c.name}.to_llsd: reads optional payload key {key!r}{tag} only when it is present", guarded,
                ctx.w(m, x),
                f"`{norm(x)}` raises KeyError for a {c.name} whose optional `{fd.name}` is unset: the generic writer leaves "
                f"unset optional fields out of the payload, so such a node cannot be serialised in this flavour at all")


# =========================================================================== R11

def _expand_predicate(repo, cls: Optional[ClassInfo], e, pol, depth=0):
    """A condition that is a call of a self./cls. predicate method whose body is one `return <expr>` stands for that
    expression (predicate extracted into a helper): its atoms, else the condition itself."""
    if depth < 3 and cls is not None and isinstance(e, ast.Call) and isinstance(e.func, ast.Attribute) \
            and isinstance(e.func.value, ast.Name) and e.func.value.id in ("self", "cls"):
        m = _lookup_method(repo, cls, e.func.attr)
        if m is not None:
            body = [st for st in m.node.body if not (isinstance(st, ast.Expr) and isinstance(st.value, ast.Constant))]
            if len(body) == 1 and isinstance(body[0], ast.Return) and body[0].value is not None:
                return [y for a, p in atoms(body[0].value, pol) for y in _expand_predicate(repo, cls, a, p, depth + 1)]
    return [(e, pol)]


def r11(ctx):
    repo = ctx.repo
    ctx.rule("C20.R11", "mesh SegmentSerializer: the reader unpacks a templated binary field whenever the writer packs "
                        "one - its unpack condition is template membership only, never the wire value")
    wr = repo.fn("SegmentSerializer.serialize", MESH)
    rd = repo.fn("SegmentSerializer.deserialize", MESH)

    def spec_calls(fns, opname):
        """(function, node whose guards count, table path, key path) for every `self.<table>[key]` spec that reaches
        a `<stream>.<opname>(spec, ..)` call: directly, or handed to a self. helper that passes its parameter on."""
        out = []
        for f in fns:
            for a in walk(f.node, into_defs=True):
                if not (isinstance(a, ast.Subscript) and isinstance(a.ctx, ast.Load) and (ap(a.value) or "").startswith("self.")):
                    continue
                c = parent(a)
                if not (isinstance(c, ast.Call) and any(x is a for x in c.args)):
                    continue
                if call_attr(c) == opname and not (isinstance(c.func, ast.Attribute) and isinstance(c.func.value, ast.Name)
                                                   and c.func.value.id in ("self", "cls")):
                    out.append((f, c, ap(a.value), ap(a.slice)))
                elif isinstance(c.func, ast.Attribute) and isinstance(c.func.value, ast.Name) and c.func.value.id in ("self", "cls") \
                        and f.cls is not None:
                    h = _lookup_method(repo, f.cls, c.func.attr)
                    if h is None:
                        continue
                    hp = _first_params(h)
                    if not any((ap(d) or "").split(".")[-1] == "staticmethod" for d in h.node.decorator_list):
                        hp = hp[1:]
                    idx = next(i for i, x in enumerate(c.args) if x is a)
                    if idx < len(hp) and any(call_attr(hc) == opname and any(ap(x) == hp[idx] for x in hc.args)
                                             for hc in calls(h.node)):
                        out.append((f, c, ap(a.value), ap(a.slice)))
        return out
    ws = spec_calls(class_methods_reachable(repo, wr), "write")
    rs = spec_calls(class_methods_reachable(repo, rd), "read")
    ctx.require(len(ws) == 1 and len(rs) == 1, f"C20.R11: expected one templated write and one templated read in "
                                               f"SegmentSerializer, found {len(ws)}/{len(rs)} (re-read)")
    (wf, wc, wtab, _), (rf, rc, rtab, _) = ws[0], rs[0]
    _ob(ctx, "C20.R11", "SegmentSerializer: reader and writer index the same template table", wtab == rtab, ctx.w(rf, rc),
        f"writer uses {wtab}, reader {rtab}")

    def classify(f, c, tab, anchor, fns):
        member, extra = False, []
        fs = facts(c, f.node)
        if f is not anchor:      # packing / unpacking extracted into a helper: its call site's guards count
            sites = [x for g in fns if g is not f for x in find_calls(g.node, f.name)]
            if len(sites) == 1:
                host = next(g for g in fns if any(x is sites[0] for x in calls(g.node, True)))
                fs = fs + facts(sites[0], host.node)
        fs = [x for e, pol in fs for x in _expand_predicate(repo, f.cls, e, pol)]
        for e, pol in fs:
            if isinstance(e, ast.Compare) and len(e.ops) == 1 and isinstance(e.ops[0], (ast.In, ast.NotIn)) \
                    and ap(e.comparators[0]) == tab:
                if isinstance(e.ops[0], ast.In) == pol:
                    member = True
                    continue
            if isinstance(e, ast.Constant) or (isinstance(e, ast.Call) and ap(e.func) == "isinstance"):
                continue        # constant, or type guard on the model / wire value: not value dependent
            extra.append(norm(e) if pol else f"not ({norm(e)})")
        return member, extra
    wm, _ = classify(wf, wc, wtab, wr, class_methods_reachable(repo, wr))
    rm, rextra = classify(rf, rc, rtab, rd, class_methods_reachable(repo, rd))
    _ob(ctx, "C20.R11", "SegmentSerializer: packing and unpacking are both keyed on template membership", wm and rm,
        ctx.w(rf, rc), f"membership test present: writer {wm}, reader {rm}")
    _ob(ctx, "C20.R11", "SegmentSerializer: reader unpacks every templated field regardless of its wire value", not rextra,
        ctx.w(rf, rc),
        f"the reader additionally requires {rextra}: a templated field the writer packed to a value failing that "
        f"(e.g. an empty list, packed to zero bytes) is passed through as raw bytes instead of being unpacked")


# =========================================================================== R12 / R13

def _packet_handlers(repo):
    """(manager class, pump method, handler) for every self.<handler>(...) call made from inside a loop of a
    method of the two transfer managers: code that runs once per arriving message, duplicates included."""
    out = []
    for cname, rel in (("XferManager", XFER), ("TransferManager", TRANSFER)):
        ci = repo.cls(cname, rel)
        for m in ci.methods.values():
            for lp in (n for n in walk(m.node) if isinstance(n, (ast.While, ast.For, ast.AsyncFor))):
                # every method of the manager referenced through `self.` inside the loop - called directly, or named
                # in a dispatch table built by a helper the loop calls (bound methods as values)
                frontier, seen_nodes = [lp], set()
                for _ in range(3):
                    nxt = []
                    for node in frontier:
                        for x in walk(node, into_defs=True):
                            if isinstance(x, ast.Attribute) and isinstance(x.value, ast.Name) and x.value.id == "self":
                                h = _lookup_method(repo, ci, x.attr)
                                if h is not None and h is not m and h.full not in seen_nodes:
                                    seen_nodes.add(h.full)
                                    nxt.append(h.node)
                                    if (ci, m, h) not in out:
                                        out.append((ci, m, h))
                    frontier = nxt
    return out


def r12(ctx):
    repo = ctx.repo
    ctx.rule("C20.R12", "per-message transfer handlers resolve a future at most once: every direct set_result() is "
                        "guarded by `not <that future>.done()` (a duplicated message must not raise InvalidStateError)")
    hs = _packet_handlers(repo)
    ctx.floor("C20.R12", "per-message handlers of the transfer managers", len(hs), 3)
    n = 0
    seen = set()
    for ci, pump, h in hs:
        for f in class_methods_reachable(repo, h):
            if f.full in seen:
                continue
            seen.add(f.full)
            for c in find_calls(f.node, "set_result"):
                if not isinstance(c.func, ast.Attribute):
                    continue
                recv = ap(c.func.value)
                n += 1
                ok = any((not pol) and isinstance(e, ast.Call) and ap(e.func) == f"{recv}.done" for e, pol in facts(c, f.node))
                _ob(ctx, "C20.R12", f"{f.qual}: {recv}.set_result() only while {recv} is unresolved", ok, ctx.w(f, c),
                    f"{f.qual} runs for every matching message; a repeated one (resend / duplicate) reaches "
                    f"`{norm(c)}` a second time, which raises InvalidStateError inside the reply pump")
    ctx.floor("C20.R12", "set_result sites in per-message handlers", n, 2)


def r13(ctx):
    repo = ctx.repo
    ctx.rule("C20.R13", "chunk handlers reach the chunk store, the end-marker bookkeeping and the completion test on "
                        "every normal path: an early return before them is only for a finished transfer or a held chunk")
    sibs = [repo.fn("XferManager._handle_send_xfer_packet", XFER),
            repo.fn("TransferManager._handle_transfer_packet", TRANSFER)]
    for h in sibs:
        fns = class_methods_reachable(repo, h)
        marks = [c for c in find_calls(h.node, "mark_done")] or \
            [c for f in fns[1:] if find_calls(f.node, "mark_done") for c in find_calls(h.node, f.name)] or \
            [site for _, _, site in _object_method_sites(repo, h, "mark_done")]
        ctx.require(marks, f"C20.R13: {h.qual}: completion decision not found in the handler (re-read)")
        last = marks[-1]
        early = [r for r in walk(h.node) if isinstance(r, ast.Return) and _precedes(r, last)]
        bad = []
        for r in early:
            fs = facts(r, h.node)
            justified = any(
                (pol and isinstance(e, ast.Call) and (ap(e.func) or "").endswith(".done")) or
                (isinstance(e, ast.Compare) and len(e.ops) == 1 and (ap(e.comparators[0]) or "").endswith(".chunks")
                 and isinstance(e.ops[0], ast.In if pol else ast.NotIn))
                for e, pol in fs)
            if not justified:
                bad.append(r)
                why = " and ".join(norm(e) if pol else f"not ({norm(e)})" for e, pol in fs) or "unconditionally"
                _ob(ctx, "C20.R13", f"{h.qual}: early return when {why} still stores the chunk and decides completion",
                    False, ctx.w(h, r),
                    "the arriving packet is dropped before it is stored / before the end marker is recorded / before "
                    "completion is decided, on a condition that says nothing about the chunk being held already")
        _ob(ctx, "C20.R13", f"{h.qual}: every normal path reaches store, end-marker bookkeeping and completion test",
            not bad, h.where, f"{len(bad)} unjustified early return(s)")


# =========================================================================== R14

def r14(ctx):
    repo = ctx.repo
    ctx.rule("C20.R14", "the subscription the transfer pumps read from is lossless: subscribe_async's queue is unbounded "
                        "and its handler enqueues every message it is handed, on every normal path")
    sa = repo.fn("MessageHandler.subscribe_async", MSGHANDLER)
    # the pumps really go through it
    users = [f for f in (repo.fn("XferManager._pump_xfer_replies", XFER), repo.fn("TransferManager._pump_transfer_replies", TRANSFER))
             if find_calls(f.node, "subscribe_async")]
    ctx.floor("C20.R14", "transfer pumps reading through subscribe_async", len(users), 2)
    # the handler subscribed for the block: a closure of subscribe_async, or an instance of a same-module callable
    # class created there (then its __call__ is the handler and the queue lives on the instance)
    subs = [c for c in calls(sa.node) if call_attr(c) in ("_subscribe_all", "subscribe") and len(c.args) >= 1]
    ctx.require(subs, "C20.R14: subscribe_async no longer subscribes a handler (re-read)")
    hnode = subs[0].args[1] if call_attr(subs[0]) == "_subscribe_all" and len(subs[0].args) > 1 else \
        (kw(subs[0], "handler") or subs[0].args[0])
    scope_fns: List[FuncInfo] = [sa]
    w_fixed: Optional[FuncInfo] = None
    if isinstance(hnode, ast.Name):
        for v in assigned_value(sa.node, hnode.id):
            if isinstance(v, ast.Call):
                hc = repo.resolve_class(ap(v.func) or "", sa.module)
                if hc is not None and _lookup_method(repo, hc, "__call__") is not None:
                    w_fixed = _lookup_method(repo, hc, "__call__")
                    scope_fns = [m for k in _mro(repo, hc) for m in k.methods.values()]
    queues = [st for f in scope_fns for st in stores(f.node, into_defs=False)
              if st.kind == "assign" and isinstance(st.value, ast.Call)
              and (ap(st.value.func) or "").split(".")[-1] in ("Queue", "LifoQueue", "PriorityQueue", "deque")]
    ctx.require(len(queues) == 1, f"C20.R14: expected one message queue behind subscribe_async, found {len(queues)} (re-read)")
    q = queues[0]
    qcall = q.value
    ev = ConstEval(repo, sa.module)
    bound = None
    if (ap(qcall.func) or "").endswith("deque"):
        bnode = kw(qcall, "maxlen") or (qcall.args[1] if len(qcall.args) > 1 else None)
    else:
        bnode = kw(qcall, "maxsize") or (qcall.args[0] if qcall.args else None)
    if bnode is not None:
        bv = ev.ev(bnode)
        bound = bv if is_const(bv) else norm(bnode)
    unbounded = bnode is None or bound is None or (isinstance(bound, int) and bound <= 0)
    _ob(ctx, "C20.R14", "subscribe_async queue is unbounded", unbounded, ctx.w(sa, qcall),
        f"queue is limited to {bound!r} entries: messages matched beyond that are not delivered to the subscriber - a "
        f"transfer with more outstanding chunks than that never completes")
    wrappers = [w_fixed] if w_fixed is not None else \
        [f for f in repo.all_funcs if f.parent_fn is not None and f.parent_fn.full == sa.full
                and any(isinstance(c.func, ast.Attribute) and ap(c.func.value) == q.path and c.func.attr in ("put_nowait", "put", "append")
                        for c in calls(f.node))]
    ctx.require(len(wrappers) == 1, f"C20.R14: expected one enqueueing handler closure in subscribe_async, found {len(wrappers)} (re-read)")
    w = wrappers[0]
    cfg = CFG(w.node)
    puts = set()
    for c in calls(w.node):
        if isinstance(c.func, ast.Attribute) and ap(c.func.value) == q.path and c.func.attr in ("put_nowait", "put", "append"):
            puts |= set(cfg.stmt_nodes_containing(c))
    reach = cfg.reachable([cfg.entry], avoid=lambda n: n in puts, exc=False)
    skip = cfg.exit in reach
    path = None
    if skip:
        wp = cfg.witness_path(cfg.entry, lambda n: n is cfg.exit, avoid=lambda n: n in puts, exc=False)
        path = cfg.describe_path(wp) if wp else None
    ctx.ob("C20.R14", f"{w.qual}: every handed message is enqueued", not skip, ctx.w(w, w.node),
           "" if not skip else "a normal path through the handler returns without putting the message on the queue: the "
                               "subscriber (the transfer pump) never sees that chunk", path)


# =========================================================================== R15

def r15(ctx):
    repo = ctx.repo
    ctx.rule("C20.R15", "wearable text form: the reader takes the name from the line right after the version line, where "
                        "the writer puts it - without skipping blank lines first, because the name may be empty")
    rd = repo.fn("Wearable.from_reader", WEARABLES)
    wr = repo.fn("Wearable.to_writer", WEARABLES)
    # writer: the name is written by the statement right after the version line, with nothing in between
    writes = [c for c in calls(wr.node) if call_attr(c) == "write" and c.args]
    ctx.require(len(writes) >= 2, "C20.R15: Wearable.to_writer shape changed (re-read)")
    w_name_second = any(isinstance(v, ast.FormattedValue) and (ap(v.value) or "").endswith(".name")
                        for v in ast.walk(writes[1].args[0]))
    ctx.require(w_name_second, "C20.R15: Wearable.to_writer no longer writes the name as its second line (re-read)")

    # reader: the sequence of line reads in evaluation order, helpers that are handed the reader inlined;
    # a readline inside a loop is a "skip blank lines" scan, a plain one consumes exactly one line
    def ops_of(f: FuncInfo, rname: str, depth: int, in_loop: bool, env: Optional[Dict[str, Any]] = None):
        """env: parameters of f bound to constants at the call site (or by their defaults): a step guarded by the
        truth of such a parameter is only taken when the constant says so (`skip_blank=False`)."""
        out = []
        env = env or {}
        for c in (x for x in walk(f.node) if isinstance(x, ast.Call)):
            dead = False
            for e, pol in facts(c, f.node):
                if isinstance(e, ast.Name) and e.id in env and bool(env[e.id]) != pol:
                    dead = True
            if dead:
                continue
            looped = in_loop or any(isinstance(a, (ast.While, ast.For, ast.AsyncFor)) for a in ancestors(c) if a is not f.node)
            if isinstance(c.func, ast.Attribute) and ap(c.func.value) == rname and c.func.attr == "readline":
                out.append(("scan" if looped else "line", f, c, dict(env)))
            elif depth < 3 and isinstance(c.func, ast.Attribute) and isinstance(c.func.value, ast.Name) \
                    and c.func.value.id in ("cls", "self") and f.cls is not None and any(ap(a) == rname for a in c.args):
                h = _lookup_method(repo, f.cls, c.func.attr)
                if h is not None:
                    hp = _first_params(h)
                    if not any((ap(d) or "").split(".")[-1] == "staticmethod" for d in h.node.decorator_list):
                        hp = hp[1:]
                    idx = next(i for i, a in enumerate(c.args) if ap(a) == rname)
                    if idx < len(hp):
                        # constants the helper's other parameters are bound to: defaults, then the call's arguments
                        henv: Dict[str, Any] = {}
                        hargs = h.node.args
                        pos = [a.arg for a in list(hargs.posonlyargs) + list(hargs.args)]
                        for pname, dflt in zip(pos[len(pos) - len(hargs.defaults):], hargs.defaults):
                            if isinstance(dflt, ast.Constant):
                                henv[pname] = dflt.value
                        for ka, kd in zip(hargs.kwonlyargs, hargs.kw_defaults):
                            if isinstance(kd, ast.Constant):
                                henv[ka.arg] = kd.value
                        for i, a in enumerate(c.args):
                            if i < len(hp):
                                if isinstance(a, ast.Constant):
                                    henv[hp[i]] = a.value
                                else:
                                    henv.pop(hp[i], None)
                        for k in c.keywords:
                            if k.arg:
                                if isinstance(k.value, ast.Constant):
                                    henv[k.arg] = k.value.value
                                else:
                                    henv.pop(k.arg, None)
                        out.extend(ops_of(h, hp[idx], depth + 1, looped, henv))
        return out
    seq = ops_of(rd, _first_params(rd)[1], 0, False)
    lines = [i for i, o in enumerate(seq) if o[0] == "line"]
    ctx.require(len(lines) >= 2, "C20.R15: Wearable.from_reader no longer reads a version line and a name line (re-read)")
    between = [o for o in seq[lines[0] + 1:lines[1]] if o[0] == "scan"]
    # the name has a line of its own and the writer emits it verbatim: the reader may take the line terminator off,
    # nothing else (a bare rstrip() also removes every trailing blank of the name)
    _, nf, ncall, nenv = seq[lines[1]]
    strips = []
    up = parent(ncall)
    if isinstance(up, ast.Attribute) and isinstance(parent(up), ast.Call) and parent(up).func is up:
        strips.append(parent(up))
    else:
        st = enclosing_stmt(ncall)
        held = {t.id for t in getattr(st, "targets", []) if isinstance(t, ast.Name)} if isinstance(st, ast.Assign) else set()
        for c in calls(nf.node):
            if isinstance(c.func, ast.Attribute) and isinstance(c.func.value, ast.Name) and c.func.value.id in held \
                    and c.func.attr in ("strip", "rstrip", "lstrip", "removesuffix", "splitlines"):
                strips.append(c)
    nev = ConstEval(repo, nf.module)

    def terminator_only(c) -> bool:
        if c.func.attr not in ("rstrip", "removesuffix"):
            return False
        chars = nev.ev(c.args[0]) if len(c.args) == 1 and not c.keywords else None
        if len(c.args) == 1 and isinstance(c.args[0], ast.Name) and c.args[0].id in nenv:
            chars = nenv[c.args[0].id]      # a helper parameter bound to a constant at the call site
        return isinstance(chars, str) and chars != "" and set(chars) <= {"\r", "\n"}
    ok_strip = bool(strips) and all(terminator_only(c) for c in strips)
    _ob(ctx, "C20.R15", "Wearable.from_reader: only the line terminator is taken off the name line", ok_strip,
        ctx.w(nf, strips[0] if strips else ncall),
        (f"`{norm(strips[0])}` removes more than the line terminator: a name ending in a blank (ASCII or U+3000 / U+00A0) "
         f"comes back without it, and a name that is only blanks becomes the empty name") if strips else
        "the name line is used with its line terminator")
    _ob(ctx, "C20.R15", "Wearable.from_reader: the name is the line right after the version line", not between,
        ctx.w(between[0][1], between[0][2]) if between else rd.where,
        f"`{norm(between[0][2]) if between else ''}` (a blank-line scan) runs between reading the version line and reading "
        f"the name line: an empty name (a legal value, written as an empty line) is skipped and the permissions header "
        f"is taken for the name")


# =========================================================================== R16

def r16(ctx):
    repo = ctx.repo
    ctx.rule("C20.R16", "message-block constructors of the inventory nodes: a field that one direction converts through a "
                        "schema field serializer is converted back by the sibling (same serializer, same flavour)")
    fbase = repo.cls("SchemaFieldSerializer", SCHEMA)
    ser_names = {c.name for c in _subclasses(repo, fbase)}
    sbase = repo.cls("SchemaBase", SCHEMA)
    pairs = 0
    convs = 0
    for c in sorted(_subclasses(repo, sbase), key=lambda k: k.name):
        for wname, rname in (("to_inventory_data", "from_inventory_data"), ("to_folder_data", "from_folder_data")):
            wm, rm = c.methods.get(wname), c.methods.get(rname)
            if wm is None or rm is None:
                continue
            pairs += 1
            fields = _dc_fields(repo, c)

            def conv_of(e, want):
                """(serializer class, flavour constant or None, inner argument) of a X.<want>(arg[, flavour]) call."""
                if isinstance(e, ast.Call) and isinstance(e.func, ast.Attribute) and e.func.attr in want and e.args:
                    x = (ap(e.func.value) or "").split(".")[-1]
                    if x in ser_names:
                        fl = e.args[1].value if len(e.args) > 1 and isinstance(e.args[1], ast.Constant) else None
                        return x, fl, e.args[0]
                return None
            # writer: Block(..., Key=<expr over self.field>)
            w_rows: Dict[str, tuple] = {}
            for b in calls(wm.node):
                if (ap(b.func) or "").split(".")[-1] != "Block":
                    continue
                for k in b.keywords:
                    if k.arg is None:
                        continue
                    wval = _expand(wm.node, k.value)
                    cv = conv_of(wval, ("to_llsd", "serialize"))
                    inner = cv[2] if cv else wval
                    fname = next((ap(n).split(".", 1)[1] for n in ast.walk(inner) if isinstance(n, ast.Attribute)
                                  and isinstance(n.value, ast.Name) and n.value.id == "self" and n.attr in fields), None)
                    if fname:
                        w_rows[fname] = (k.arg, cv, k.value)
            # reader: cls(field=<expr over block["Key"]>)
            bparam = _first_params(rm)[1] if len(_first_params(rm)) > 1 else None
            r_rows: Dict[str, tuple] = {}
            for b in calls(rm.node):
                if not (isinstance(b.func, ast.Name) and b.func.id in ("cls", c.name)):
                    continue
                for k in b.keywords:
                    if k.arg in fields:
                        rval = _expand(rm.node, k.value)
                        r_rows[k.arg] = (conv_of(rval, ("from_llsd", "deserialize")), rval)
            for fname in sorted(set(w_rows) & set(r_rows)):
                key, wcv, wexpr = w_rows[fname]
                rcv, rexpr = r_rows[fname]
                if wcv is None and rcv is None:
                    continue
                convs += 1
                ok = wcv is not None and rcv is not None and wcv[0] == rcv[0] and wcv[1] == rcv[1] and \
                    any(isinstance(n, ast.Subscript) and ap(n.value) == bparam and isinstance(n.slice, ast.Constant)
                        and n.slice.value == key for n in ast.walk(rcv[2]))
                _ob(ctx, "C20.R16", f"{c.name}.{wname} / {rname}: {key} is converted in both directions", ok,
                    ctx.w(rm, rexpr),
                    f"writer puts `{norm(wexpr)}` into the block, reader builds the field from `{norm(rexpr)}`: the value "
                    f"{rname}() stores is not of the field's type, so the node it returns cannot be written by any codec "
                    f"(and {wname}() of it raises)")
    ctx.floor("C20.R16", "message-block constructor pairs", pairs, 2)
    ctx.floor("C20.R16", "converted block fields", convs, 1)


def run(ctx):
    r1(ctx)
    r2(ctx)
    r3(ctx)
    r4(ctx)
    r5(ctx)
    r6(ctx)
    r7(ctx)
    r8(ctx)
    r9(ctx)
    r10(ctx)
    r11(ctx)
    r12(ctx)
    r13(ctx)
    r14(ctx)
    r15(ctx)
    r16(ctx)
