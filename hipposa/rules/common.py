"""Helpers shared by rule modules."""
from __future__ import annotations

import ast
import re
from typing import Callable, Iterable, List, Optional, Sequence, Set, Tuple

from ..consteval import CallVal, ConstEval, Sym
from ..core import (AnalysisError, FuncInfo, Repo, ap, ancestors, atoms, call_attr, calls, conditions,
                    enclosing_stmt, facts, find_calls, norm, parent, src, stores, walk, FUNC_TYPES,
                    try_contexts, handler_catches_all, handler_reraises)


def class_methods_reachable(repo: Repo, start: FuncInfo, depth=3) -> List[FuncInfo]:
    """`start` plus methods of the same class hierarchy reachable via self./cls. calls
    (helper extraction does not blind a rule)."""
    out = [start]
    frontier = [start]
    for _ in range(depth):
        nxt = []
        for f in frontier:
            if f.cls is None:
                continue
            for c in calls(f.node, into_defs=True):
                fn = c.func
                if isinstance(fn, ast.Attribute) and isinstance(fn.value, ast.Name) and fn.value.id in ("self", "cls"):
                    m = repo.lookup_method(f.cls, fn.attr)
                    if m is not None and m not in out:
                        out.append(m)
                        nxt.append(m)
                elif isinstance(fn, ast.Attribute):
                    # a collaborator object the class delegates to: ClassName(..).m(..), a local bound to
                    # ClassName(..), or self.<attr> that a constructor of the class binds to ClassName(..)
                    kci = delegate_class(repo, f, fn.value)
                    if kci is not None:
                        m = repo.lookup_method(kci, fn.attr)
                        if m is not None and m not in out:
                            out.append(m)
                            nxt.append(m)
        frontier = nxt
    return out


def delegate_class(repo: Repo, f: FuncInfo, recv: ast.AST):
    """Repo class of the object a method is called on, when that object is constructed in plain sight."""
    def ctor_class(v):
        if isinstance(v, ast.Call) and ap(v.func):
            ci = repo.resolve_class(ap(v.func), f.module)
            if ci is not None and (ap(v.func) or "").split(".")[-1] == ci.name:
                return ci
        return None
    ci = ctor_class(recv)
    if ci is not None:
        return ci
    if isinstance(recv, ast.Name) and recv.id not in ("self", "cls"):
        vals = [s.value for s in stores(f.node, into_defs=False) if s.path == recv.id and s.kind == "assign"]
        cis = {ctor_class(v) for v in vals}
        if len(vals) >= 1 and len(cis) == 1 and None not in cis:
            return next(iter(cis))
    if isinstance(recv, ast.Attribute) and isinstance(recv.value, ast.Name) and recv.value.id == "self" and f.cls is not None:
        found = set()
        for c in repo.mro(f.cls):
            for ctor in ("__init__", "__post_init__"):
                m = c.methods.get(ctor)
                if m is None:
                    continue
                for s in stores(m.node, into_defs=False):
                    if s.kind == "assign" and s.path == f"self.{recv.attr}":
                        found.add(ctor_class(s.value))
        if len(found) == 1 and None not in found:
            return next(iter(found))
    return None


def module_funcs_reachable(repo: Repo, start: FuncInfo, depth=3) -> List[FuncInfo]:
    """start plus same-class methods and same-module functions reachable by name."""
    out = [start]
    frontier = [start]
    for _ in range(depth):
        nxt = []
        for f in frontier:
            for c in calls(f.node, into_defs=True):
                fn = c.func
                cand = None
                if isinstance(fn, ast.Attribute) and isinstance(fn.value, ast.Name) and fn.value.id in ("self", "cls") \
                        and f.cls is not None:
                    cand = repo.lookup_method(f.cls, fn.attr)
                elif isinstance(fn, ast.Name):
                    for g in repo.funcs.get(fn.id, []):
                        if g.module is f.module and g.cls is None and g.parent_fn is None:
                            cand = g
                if cand is not None and cand not in out:
                    out.append(cand)
                    nxt.append(cand)
        frontier = nxt
    return out


def loops_over(fns: Sequence[FuncInfo], suffix: str) -> List[Tuple[FuncInfo, ast.For]]:
    out = []
    for f in fns:
        for n in walk(f.node, into_defs=True):
            if isinstance(n, (ast.For, ast.AsyncFor)):
                it = n.iter
                text = src(it)
                base = it
                # unwrap wrappers so that reversed(x.blocks) is still found (and then reported)
                while isinstance(base, ast.Call) and base.args:
                    base = base.args[0]
                while isinstance(base, ast.Subscript):
                    base = base.value
                p = alias_path(f.node, base)
                if p and p.endswith(suffix):
                    out.append((f, n))
    return out


def alias_path(fn_node, expr) -> Optional[str]:
    """Access path of an expression; a bare local that is assigned exactly once from an access path stands for it."""
    p = ap(expr)
    if p and "." not in p and fn_node is not None:
        vals = [s_.value for s_ in stores(fn_node, into_defs=False) if s_.path == p and s_.kind == "assign"]
        if len(vals) == 1 and vals[0] is not None and ap(vals[0]) and "." in ap(vals[0]):
            return ap(vals[0])
    return p


def spec_symbol(node) -> Optional[str]:
    """Normalised name of a serialization spec expression (se.U8 -> U8; self._len_spec kept)."""
    p = ap(node)
    if p is None:
        return None
    if re.fullmatch(r"(se\.|serialization\.)?[USF](8|16|32|64)", p):
        return p.split(".")[-1]
    return None


def spec_path(node) -> Optional[str]:
    """Like spec_symbol but also accepts arbitrary access paths (self._len_spec, cls.ELEM_SPEC)."""
    s = spec_symbol(node)
    if s:
        return s
    p = ap(node)
    if p and p.startswith(("se.", "serialization.")):
        return p.split(".", 1)[1]
    return p


def struct_fmt_of_prim(repo: Repo, name: str) -> Optional[str]:
    """'U32' -> 'I' from serialization.py's `U32 = SerializablePrimitive("I", 0)`."""
    mod = repo.module("hippolyzer/lib/base/serialization.py")
    v = repo.module_assign(mod, name)
    if isinstance(v, ast.Call) and v.args and isinstance(v.args[0], ast.Constant) and isinstance(v.args[0].value, str):
        return v.args[0].value
    return None


def fmt_count(fmt: str) -> int:
    """Number of values a struct format packs."""
    n = 0
    for cnt, ch in re.findall(r"(\d*)([a-zA-Z?])", fmt.lstrip("<>!=@")):
        if ch in "sp":
            n += 1
        elif ch == "x":
            continue
        else:
            n += int(cnt) if cnt else 1
    return n


def const_of(repo, mod, node):
    return ConstEval(repo, mod).ev(node)


def has_eq_fact(node, left_suffix: str, right_text: str, stop=None, polarity=True) -> bool:
    """A dominating condition `<...left_suffix> == <right_text>` (polarity) holds at node."""
    fn = stop
    if fn is None:
        from ..core import enclosing_fn
        fn = enclosing_fn(node)

    def through_alias(p_):
        """a bare local that is assigned exactly once from an access path stands for that path"""
        if p_ and "." not in p_ and fn is not None:
            vals = [s_.value for s_ in stores(fn, into_defs=False) if s_.path == p_ and s_.kind == "assign"]
            if len(vals) == 1 and vals[0] is not None and ap(vals[0]) and "." in ap(vals[0]):
                return ap(vals[0])
        return p_
    for e, pol in facts(node, stop):
        if isinstance(e, ast.Compare) and len(e.ops) == 1:
            l, r = through_alias(ap(e.left) or ""), through_alias(ap(e.comparators[0]) or "")
            if isinstance(e.ops[0], ast.Eq) and pol == polarity or isinstance(e.ops[0], ast.NotEq) and pol != polarity:
                if (l.endswith(left_suffix) and r.endswith(right_text)) or (r.endswith(left_suffix) and l.endswith(right_text)):
                    return True
    return False


def has_path_fact(node, path_suffix: str, polarity: bool, stop=None) -> bool:
    """A dominating condition that is exactly the truthiness of an access path ending in suffix."""
    for e, pol in facts(node, stop):
        p = ap(e)
        if p and p.endswith(path_suffix) and pol == polarity:
            return True
    return False


def writers_of(repo: Repo, attr: str, recv_filter: Optional[Callable[[str], bool]] = None,
               kinds=("assign", "augassign", "setitem", "augsetitem", "delitem", "del", "mutcall")):
    """All (FuncInfo, Store) that store to an access path whose last attribute is `attr`
    (container mutation included) anywhere in the tree.  Module-level stores have FuncInfo None."""
    out = []
    for f in repo.all_funcs:
        if f.parent_fn is not None:
            continue  # nested defs are covered when walking their parent with into_defs
        for st in stores(f.node, into_defs=True):
            last = st.path.split(".")[-1].replace("[]", "")
            if last == attr and "." in st.path and st.kind in kinds:
                if recv_filter is None or recv_filter(st.path):
                    out.append((f, st))
    return out


def top_fn(f: FuncInfo) -> FuncInfo:
    while f.parent_fn is not None:
        f = f.parent_fn
    return f


def callers_of(repo: Repo, name: str) -> List[Tuple[FuncInfo, ast.Call]]:
    """Every call site whose callee's last component is `name` (by-name, over-approximate)."""
    out = []
    for f in repo.all_funcs:
        if f.parent_fn is not None:
            continue
        for c in find_calls(f.node, name, into_defs=True):
            out.append((f, c))
    return out


def guarded_catch_all(node, stop=None, allow_conditional_reraise=False) -> bool:
    """node lies in the body of a try with a catch-all handler that never re-raises
    (or only conditionally when allowed)."""
    for tc in try_contexts(node, stop):
        if tc.section != "body":
            continue
        for h in tc.node.handlers:
            if handler_catches_all(h):
                rr = handler_reraises(h)
                if rr == "never" or (rr == "conditional" and allow_conditional_reraise):
                    return True
    return False


def returns_of(fn_node) -> List[ast.Return]:
    return [n for n in walk(fn_node) if isinstance(n, ast.Return)]


def assigned_value(fn_node, name: str) -> List[ast.AST]:
    return [s.value for s in stores(fn_node, into_defs=False) if s.path == name and s.kind == "assign" and s.value is not None]


def linform(repo: Repo, mod, fn_node, expr, depth=0):
    """Linear form of an integer expression: {symbol_path: coeff, 1: const}; None if not linear.
    Local names assigned exactly once from an expression are expanded; module/class constants
    are evaluated."""
    if depth > 12:
        return None
    ev = ConstEval(repo, mod)
    if isinstance(expr, ast.Constant) and isinstance(expr.value, int):
        return {1: expr.value}
    if isinstance(expr, ast.BinOp):
        a = linform(repo, mod, fn_node, expr.left, depth + 1)
        b = linform(repo, mod, fn_node, expr.right, depth + 1)
        if a is None or b is None:
            return None
        if isinstance(expr.op, (ast.Add, ast.Sub)):
            sign = 1 if isinstance(expr.op, ast.Add) else -1
            out = dict(a)
            for k, v in b.items():
                out[k] = out.get(k, 0) + sign * v
            return out
        if isinstance(expr.op, ast.Mult):
            if set(a) <= {1}:
                return {k: v * a.get(1, 0) for k, v in b.items()}
            if set(b) <= {1}:
                return {k: v * b.get(1, 0) for k, v in a.items()}
            return None
        return None
    if isinstance(expr, ast.UnaryOp) and isinstance(expr.op, ast.USub):
        a = linform(repo, mod, fn_node, expr.operand, depth + 1)
        return None if a is None else {k: -v for k, v in a.items()}
    if isinstance(expr, ast.Name):
        vals = assigned_value(fn_node, expr.id)
        if len(vals) == 1:
            return linform(repo, mod, fn_node, vals[0], depth + 1)
        if len(vals) > 1:
            return None
    if isinstance(expr, ast.Attribute) and isinstance(expr.value, ast.Name) and fn_node is not None:
        # `layout = PacketLayout` ... `layout.PHL_NAME`: a local alias of a class / module is looked through
        al = assigned_value(fn_node, expr.value.id)
        if len(al) == 1 and isinstance(al[0], (ast.Name, ast.Attribute)) and ap(al[0]):
            return linform(repo, mod, fn_node, ast.copy_location(ast.Attribute(value=al[0], attr=expr.attr, ctx=ast.Load()), expr),
                           depth + 1)
    v = ev.ev(expr)
    if isinstance(v, bool):
        return None
    if isinstance(v, int):
        return {1: v}
    p = ap(expr)
    if p:
        return {p: 1}
    return None


# ---- CFG helpers with a refined "may raise" notion (appended for C07/C15; usable by any rule) ----

_LOG_METHODS = {"debug", "info", "warning", "warn", "error", "exception", "critical", "log"}
_LOG_RECEIVERS = {"LOG", "logging", "logger", "log", "_LOG", "_logger", "LOGGER"}
_BENIGN_BUILTINS = {"len", "isinstance", "issubclass", "bool", "tuple", "list", "dict", "set", "frozenset", "str",
                    "repr", "id", "type", "callable", "print", "hasattr", "format"}


def is_logging_call(c: ast.Call) -> bool:
    """LOG.x(...) / logging.x(...) / self.logger.x(...) with x a logging method."""
    p = (ap(c.func) or "").split(".")
    return len(p) >= 2 and p[-1] in _LOG_METHODS and p[-2] in _LOG_RECEIVERS


def is_benign_call(c: ast.Call) -> bool:
    """Calls that rules about exceptional exits ignore (diagnostics and total builtins)."""
    if is_logging_call(c):
        return True
    return isinstance(c.func, ast.Name) and c.func.id in _BENIGN_BUILTINS


def cfg_node_expr(cfg, n):
    """The AST evaluated at a CFG node (statement, or the head expression of if/loop/with)."""
    if n.ast is None or n.kind in ("handler", "entry", "exit", "raise"):
        return None
    if n.kind == "stmt":
        return None if isinstance(n.ast, FUNC_TYPES + (ast.ClassDef,)) else n.ast
    if n.kind == "loop" and isinstance(n.ast, ast.While):
        return n.ast.test
    return cfg._head_expr(n.ast)


def cfg_node_calls(cfg, n) -> List[ast.Call]:
    e = cfg_node_expr(cfg, n)
    return [] if e is None else [x for x in walk(e) if isinstance(x, ast.Call)]


def cfg_node_fallible(cfg, n, benign: Callable[[ast.Call], bool] = is_benign_call) -> bool:
    """The node can complete abruptly for a reason rules care about: raise/assert/await/yield or a
    call that is not benign."""
    e = cfg_node_expr(cfg, n)
    if e is None:
        return False
    for x in walk(e):
        if isinstance(x, (ast.Raise, ast.Assert, ast.Await, ast.Yield, ast.YieldFrom)):
            return True
        if isinstance(x, ast.Call) and not benign(x):
            return True
    return False


def cfg_search(cfg, starts, target: Callable, avoid: Callable = lambda n: False,
               follow_exc: Callable = lambda n: True, start_edges: str = "all"):
    """Breadth-first witness path from the successors of `starts` to a node satisfying `target`,
    never entering `avoid` nodes; exceptional edges of an intermediate node are followed only when
    follow_exc(node).  start_edges: 'all' | 'normal' | 'exc' selects which edges leave the start nodes.
    Returns the node list (start first) or None."""
    from collections import deque
    prev = {}
    dq = deque()
    for s in starts:
        nxt = []
        if start_edges in ("all", "normal"):
            nxt += s.succs
        if start_edges in ("all", "exc"):
            nxt += s.exc_succs
        for t in nxt:
            if t not in prev and not avoid(t):
                prev[t] = s
                dq.append(t)
    start_set = set(starts)
    while dq:
        n = dq.popleft()
        if target(n):
            path = [n]
            while path[-1] in prev and path[-1] not in start_set:
                path.append(prev[path[-1]])
                if len(path) > len(cfg.nodes) + 2:
                    break
            return list(reversed(path))
        for t in n.succs + (n.exc_succs if follow_exc(n) else []):
            if t not in prev and not avoid(t):
                prev[t] = n
                dq.append(t)
    return None


# ---- statement-level inlining of same-class helpers + small dataflow helpers (appended for C14/C17) ----

def clone_ast(node, src_mod=None):
    """Structural copy of an AST without the _parent back-links (copy.deepcopy would drag the whole
    module along).  Copied nodes remember the module they came from in `_src_mod`."""
    if isinstance(node, ast.AST):
        new = type(node)()
        for f, v in ast.iter_fields(node):
            setattr(new, f, clone_ast(v, src_mod))
        for a in ("lineno", "col_offset", "end_lineno", "end_col_offset"):
            if hasattr(node, a):
                setattr(new, a, getattr(node, a))
        sm = getattr(node, "_src_mod", None) or src_mod
        if sm:
            new._src_mod = sm
        return new
    if isinstance(node, list):
        return [clone_ast(x, src_mod) for x in node]
    return node


def where_of(fi: FuncInfo, node) -> str:
    """file:line of a node of an (inlined) function tree."""
    return f"{getattr(node, '_src_mod', None) or fi.module.rel}:{getattr(node, 'lineno', 0)}"


class _InlineSubst(ast.NodeTransformer):
    def __init__(self, mapping, rename):
        self.mapping, self.rename = mapping, rename

    def visit_Name(self, n):
        if n.id in self.mapping and isinstance(n.ctx, ast.Load):
            return clone_ast(self.mapping[n.id])
        if n.id in self.rename:
            n.id = self.rename[n.id]
        return n

    def visit_arg(self, a):
        if a.arg in self.rename:
            a.arg = self.rename[a.arg]
        return a

    def visit_ExceptHandler(self, h):
        if h.name in self.rename:
            h.name = self.rename[h.name]
        self.generic_visit(h)
        return h


def _simple_arg(e) -> bool:
    if isinstance(e, (ast.Name, ast.Constant)):
        return True
    return isinstance(e, ast.Attribute) and _simple_arg(e.value)


_INLINE_CACHE = {}


def always_exits_(stmts) -> bool:
    from ..core import always_exits
    return always_exits(stmts)


def _contains_return(st) -> bool:
    return any(isinstance(x, ast.Return) for x in walk(st))


def _returns_only_under_ifs(stmts) -> bool:
    for st in stmts:
        if isinstance(st, ast.Return):
            continue
        if isinstance(st, ast.If):
            if not (_returns_only_under_ifs(st.body) and _returns_only_under_ifs(st.orelse)):
                return False
        elif _contains_return(st):
            return False
    return True


def _eliminate_returns(stmts, on_return):
    """Restructure a statement list whose `return`s sit only under ifs into return-free code: what followed
    an `if` that returned on one branch moves into the other branch.  Returns (statements, always_returned)."""
    out = []
    for i, st in enumerate(stmts):
        if isinstance(st, ast.Return):
            out.extend(on_return(st))
            return out, True
        if isinstance(st, ast.If) and _contains_return(st):
            rest = stmts[i + 1:]
            body, b_exit = _eliminate_returns(st.body, on_return)
            orelse, o_exit = _eliminate_returns(st.orelse, on_return)
            if not b_exit:
                more, b_exit = _eliminate_returns(clone_ast(rest) if not o_exit else rest, on_return)
                body += more
            if not o_exit:
                more, o_exit = _eliminate_returns(rest, on_return)
                orelse += more
            new_if = ast.copy_location(ast.If(test=st.test, body=body or [ast.copy_location(ast.Pass(), st)],
                                              orelse=orelse), st)
            new_if._src_mod = getattr(st, "_src_mod", None)
            out.append(new_if)
            return out, b_exit and o_exit
        out.append(st)
    return out, False


def collaborator_class(repo: Repo, ci, attr: str):
    """Class of the object a class keeps in `self.<attr>`: the one its __init__ (MRO) constructs there."""
    init = repo.lookup_method(ci, "__init__") if ci is not None else None
    if init is None:
        return None
    found = None
    for st in stores(init.node, into_defs=False):
        if st.kind == "assign" and st.path.endswith("." + attr) and st.path.count(".") == 1 \
                and isinstance(st.value, ast.Call):
            c = repo.resolve_class(ap(st.value.func) or "", init.module)
            if c is not None:
                found = c
    return found


def inline_self_calls(repo: Repo, fi: FuncInfo, depth=2, _stack=(), keep=frozenset(), collaborators=False):
    """Copy of fi.node in which statements `self.m(..)`, `x = self.m(..)`, `return self.m(..)` that call a
    plain method of the same class hierarchy are replaced by the method's body (parameters substituted
    or bound, helper locals renamed `__inlN_x`).  Only helpers without `return` (or with a single
    trailing one) are inlined; anything else stays an opaque call.  The result has parents set, so
    core.conditions/facts and cfg.CFG work on it; use where_of() for locations.
    `keep`: method names that are never inlined (the primitives a rule wants to see as calls).
    `collaborators`: also inline `self.<attr>.m(..)` when __init__ stores an instance of a repo class in
    `<attr>` (delegation to a collaborator object); the callee's self becomes `self.<attr>`."""
    keep = frozenset(keep)
    from ..core import set_parents
    key = (fi.full, depth, keep, collaborators)
    top = not _stack
    cache = repo.__dict__.setdefault("_inline_cache", {})   # per Repo object (id() values are reused after gc)
    if top and key in cache:
        return cache[key]
    fn = clone_ast(fi.node, fi.module.rel)
    if fi.cls is not None and depth > 0 and fn.args.args:
        selfname = fn.args.args[0].arg
        counter = [0]

        def helper_of(call):
            f = call.func
            if collaborators and isinstance(f, ast.Attribute) and isinstance(f.value, ast.Attribute) \
                    and isinstance(f.value.value, ast.Name) and f.value.value.id == selfname:
                cc = collaborator_class(repo, fi.cls, f.value.attr)
                h = repo.lookup_method(cc, f.attr) if cc is not None else None
                if f.attr in keep or h is None or h.full in _stack or h.node.decorator_list or not h.node.args.args:
                    return None
                h._recv_expr = f.value      # noqa: the callee's self is this expression
                return h
            if not (isinstance(f, ast.Attribute) and isinstance(f.value, ast.Name) and f.value.id == selfname):
                return None
            h = repo.lookup_method(fi.cls, f.attr)
            if f.attr in keep or h is None or h == fi or h.full in _stack:
                return None
            decos = [ap(d) for d in h.node.decorator_list]
            if decos and decos != ["staticmethod"]:
                return None
            h._recv_expr = None
            return h

        def try_inline(st):
            val, ctxkind, target = None, None, None
            if isinstance(st, ast.Expr):
                val, ctxkind = st.value, "expr"
            elif isinstance(st, ast.Assign) and len(st.targets) == 1 and isinstance(st.targets[0], ast.Name):
                val, ctxkind, target = st.value, "assign", st.targets[0]
            elif isinstance(st, ast.Return) and st.value is not None:
                val, ctxkind = st.value, "return"
            awaited = isinstance(val, ast.Await)
            if awaited:
                val = val.value
            if not isinstance(val, ast.Call):
                return None
            h = helper_of(val)
            if h is None or isinstance(h.node, ast.AsyncFunctionDef) != awaited:
                return None
            a = h.node.args
            if a.vararg or a.kwarg or any(isinstance(x, ast.Starred) for x in val.args) \
                    or any(k.arg is None for k in val.keywords):
                return None
            for x in walk(h.node, into_defs=True):
                if isinstance(x, (ast.Global, ast.Nonlocal, ast.Import, ast.ImportFrom, ast.Yield, ast.YieldFrom)):
                    return None
            recv_expr = getattr(h, "_recv_expr", None)
            hfn = inline_self_calls(repo, h, depth - 1, _stack + (fi.full,), keep, collaborators)
            body = list(hfn.body)
            if body and isinstance(body[0], ast.Expr) and isinstance(body[0].value, ast.Constant) \
                    and isinstance(body[0].value.value, str):
                body = body[1:]
            rets = [x for b_ in body for x in walk(b_) if isinstance(x, ast.Return)]
            simple = len(rets) <= 1 and (not rets or (body and rets[0] is body[-1]))
            if not simple and not _returns_only_under_ifs(body):
                return None     # a return inside a loop / try / with cannot be restructured
            tail = None
            if simple and body and isinstance(body[-1], ast.Return):
                tail = body[-1].value
                body = body[:-1]
            # parameters
            is_static = [ap(d) for d in h.node.decorator_list] == ["staticmethod"]
            params = [p.arg for p in (hfn.args.posonlyargs + hfn.args.args)][0 if is_static else 1:]
            pos_defaults = dict(zip(reversed(params), reversed(hfn.args.defaults)))
            kwonly = [p.arg for p in hfn.args.kwonlyargs]
            kw_defaults = {p: d for p, d in zip(kwonly, hfn.args.kw_defaults) if d is not None}
            if len(val.args) > len(params):
                return None
            bound = dict(zip(params, val.args))
            for k in val.keywords:
                if k.arg in bound or k.arg not in params + kwonly:
                    return None
                bound[k.arg] = k.value
            for p in params + kwonly:
                if p not in bound:
                    d = pos_defaults.get(p, kw_defaults.get(p))
                    if d is None:
                        return None
                    bound[p] = d
            counter[0] += 1
            pre = f"__inl{len(_stack)}_{counter[0]}_"
            stored = set()
            for b in body:
                for x in ast.walk(b):
                    if isinstance(x, ast.Name) and isinstance(x.ctx, (ast.Store, ast.Del)):
                        stored.add(x.id)
                    elif isinstance(x, ast.arg):
                        stored.add(x.arg)
                    elif isinstance(x, ast.ExceptHandler) and x.name:
                        stored.add(x.name)
            stored.discard(selfname)
            hself = hfn.args.args[0].arg if hfn.args.args and not is_static else selfname
            if not is_static:
                stored.discard(hself)
            mapping, rename, prologue = {}, {n: pre + n for n in stored}, []
            if recv_expr is not None:
                mapping[hself] = recv_expr
            for p, e in bound.items():
                if _simple_arg(e) and p not in stored:
                    mapping[p] = e
                else:
                    rename[p] = pre + p
                    asg = ast.Assign(targets=[ast.Name(id=pre + p, ctx=ast.Store())], value=clone_ast(e))
                    ast.copy_location(asg, st)
                    prologue.append(asg)
            sub = _InlineSubst(mapping, rename)
            new_body = [sub.visit(b) for b in body]
            tail_e = sub.visit(tail) if tail is not None else None
            out = prologue + new_body
            if not simple:
                if ctxkind == "return":     # the helper's own returns leave the caller just the same
                    if not always_exits_(new_body):
                        out.append(ast.copy_location(ast.Return(value=ast.Constant(value=None)), st))
                else:
                    def on_return(r):
                        if ctxkind == "assign":
                            return [ast.copy_location(ast.Assign(
                                targets=[clone_ast(target)],
                                value=r.value if r.value is not None else ast.Constant(value=None)), r)]
                        if r.value is not None and any(isinstance(x, ast.Call) for x in ast.walk(r.value)):
                            return [ast.copy_location(ast.Expr(value=r.value), r)]
                        return []
                    restructured, exited = _eliminate_returns(new_body, on_return)
                    if ctxkind == "assign" and not exited:
                        restructured.append(ast.copy_location(ast.Assign(
                            targets=[clone_ast(target)], value=ast.Constant(value=None)), st))
                    out = prologue + restructured
            elif ctxkind == "expr":
                if tail_e is not None and any(isinstance(x, ast.Call) for x in ast.walk(tail_e)):
                    out.append(ast.copy_location(ast.Expr(value=tail_e), st))
            elif ctxkind == "assign":
                out.append(ast.copy_location(ast.Assign(
                    targets=[target], value=tail_e if tail_e is not None else ast.Constant(value=None)), st))
            else:
                out.append(ast.copy_location(ast.Return(value=tail_e), st))
            if not out:
                out = [ast.copy_location(ast.Pass(), st)]
            for o in out:
                if not getattr(o, "_src_mod", None):
                    o._src_mod = getattr(st, "_src_mod", None)
            return out

        def expand(stmts):
            out = []
            for st in stmts:
                rep = try_inline(st)
                if rep is not None:
                    out.extend(rep)
                    continue
                if not isinstance(st, FUNC_TYPES + (ast.ClassDef,)):
                    for field in ("body", "orelse", "finalbody"):
                        b = getattr(st, field, None)
                        if isinstance(b, list) and b and isinstance(b[0], ast.stmt):
                            setattr(st, field, expand(b))
                    for h in getattr(st, "handlers", None) or []:
                        h.body = expand(h.body)
                out.append(st)
            return out
        fn.body = expand(fn.body)
    if top:
        ast.fix_missing_locations(fn)
        set_parents(fn)
        cache[key] = fn
    return fn


def single_def(fn_node, name: str):
    """Value expression of the only binding of local `name` in the function when that binding is a plain
    `name = expr`; None for parameters, loop/with/unpacking targets, or 0 / several bindings."""
    a = fn_node.args
    if name in [p.arg for p in a.posonlyargs + a.args + a.kwonlyargs] or \
            (a.vararg and a.vararg.arg == name) or (a.kwarg and a.kwarg.arg == name):
        return None
    vals, other = [], 0
    for s in stores(fn_node, into_defs=False):
        if s.path != name or s.kind in ("mutcall", "setitem", "augsetitem", "delitem"):
            continue   # mutations of the bound object do not rebind the name
        if s.kind == "assign" and s.value is not None and isinstance(s.node, (ast.Assign, ast.AnnAssign)) \
                and not isinstance(parent(s.target), (ast.Tuple, ast.List, ast.Starred)):
            vals.append(s.value)
        else:
            other += 1
    return vals[0] if len(vals) == 1 and not other else None


def origin(fn_node, expr, depth=8):
    """Follow local single-definition aliases: the expression a value was computed from."""
    while depth > 0 and isinstance(expr, ast.Name):
        d = single_def(fn_node, expr.id)
        if d is None:
            break
        expr, depth = d, depth - 1
    return expr


def normal_path(cfg, starts, target: Callable, avoid: Callable = lambda n: False, include_start=False):
    """Witness path along normal (non-exceptional) edges only, or None."""
    if include_start:
        for s in starts:
            if not avoid(s) and target(s):
                return [s]
    return cfg_search(cfg, [s for s in starts if include_start is False or not avoid(s)], target, avoid,
                      follow_exc=lambda n: False, start_edges="normal")


def must_pass(cfg, pnodes, starts=None, include_start=False, targets=None):
    """None when every normal path from starts (default: entry) to targets (default: function exit)
    passes a node of `pnodes`; otherwise a witness path that avoids them."""
    pset = set(pnodes)
    tset = set(targets) if targets is not None else {cfg.exit}
    return normal_path(cfg, starts if starts is not None else [cfg.entry], lambda n: n in tset,
                       lambda n: n in pset, include_start=include_start)


# ---- one-pass indexes (cached on the Repo object) for whole-tree ownership rules ----

def call_index(repo: Repo):
    """callee last component -> [(top-level FuncInfo, Call)] over the whole tree (same contents as
    callers_of for every name, computed in one walk)."""
    idx = getattr(repo, "_hsa_call_index", None)
    if idx is None:
        idx = {}
        for f in repo.all_funcs:
            if f.parent_fn is not None:
                continue
            for c in calls(f.node, into_defs=True):
                a = call_attr(c)
                if a is not None:
                    idx.setdefault(a, []).append((f, c))
        repo._hsa_call_index = idx
    return idx


def store_index(repo: Repo):
    """last attribute of the stored-to path -> [(top-level FuncInfo, Store)] (paths with a receiver only)."""
    idx = getattr(repo, "_hsa_store_index", None)
    if idx is None:
        idx = {}
        for f in repo.all_funcs:
            if f.parent_fn is not None:
                continue
            for st in stores(f.node, into_defs=True):
                if "." in st.path:
                    idx.setdefault(st.path.split(".")[-1].replace("[]", ""), []).append((f, st))
        repo._hsa_store_index = idx
    return idx


# ---- inlining of same-module functions as well as same-class methods (appended for C15) ----

def inline_helpers(repo: Repo, fi: FuncInfo, depth=2, _stack=(), keep=frozenset()):
    """Like inline_self_calls, but statements `f(..)`, `x = f(..)`, `return f(..)` calling a plain top-level
    function of the same module are expanded too, and the receiver may be `cls` of a classmethod.  Only
    helpers without `return` or with a single trailing one are inlined.  Result has parents set."""
    from ..core import set_parents
    keep = frozenset(keep)
    fn = clone_ast(fi.node, fi.module.rel)
    selfname = fn.args.args[0].arg if fi.cls is not None and fn.args.args else None
    counter = [0]

    def helper_of(call):
        f = call.func
        if isinstance(f, ast.Attribute) and isinstance(f.value, ast.Name) and selfname and f.value.id == selfname:
            h = repo.lookup_method(fi.cls, f.attr)
            if h is None or any((ap(d) or "") not in ("classmethod", "staticmethod") for d in h.node.decorator_list):
                return None, 0
            static = any((ap(d) or "") == "staticmethod" for d in h.node.decorator_list)
            return (None, 0) if f.attr in keep else (h, 0 if static else 1)
        if isinstance(f, ast.Attribute) and isinstance(f.value, ast.Name) and fi.cls is not None and f.attr.startswith("_") \
                and not f.attr.startswith("__") and f.attr not in keep and len(repo.funcs.get(f.attr, [])) == 1:
            # private helper of the same class invoked on another instance (a copy): the name is unique in the tree
            h = repo.lookup_method(fi.cls, f.attr)
            if h is not None and not h.node.decorator_list:
                return h, 1
        if isinstance(f, ast.Name) and f.id not in keep:
            cands = [g for g in repo.funcs.get(f.id, []) if g.module is fi.module and g.cls is None
                     and g.parent_fn is None and not g.node.decorator_list]
            if len(cands) == 1:
                return cands[0], 0
        return None, 0

    def try_inline(st):
        val, kind, target = None, None, None
        if isinstance(st, ast.Expr):
            val, kind = st.value, "expr"
        elif isinstance(st, (ast.Assign, ast.AnnAssign)) and st.value is not None:
            tg = st.targets[0] if isinstance(st, ast.Assign) and len(st.targets) == 1 else \
                st.target if isinstance(st, ast.AnnAssign) else None
            if isinstance(tg, ast.Name):
                val, kind, target = st.value, "assign", tg
        elif isinstance(st, ast.Return) and st.value is not None:
            val, kind = st.value, "return"
        awaited = isinstance(val, ast.Await)
        if awaited:
            val = val.value
        if not isinstance(val, ast.Call):
            return None
        h, skip = helper_of(val)
        if h is None or h == fi or h.full in _stack or isinstance(h.node, ast.AsyncFunctionDef) != awaited:
            return None
        a = h.node.args
        if a.vararg or a.kwarg or any(isinstance(x, ast.Starred) for x in val.args) or any(k.arg is None for k in val.keywords):
            return None
        for x in walk(h.node, into_defs=True):
            if isinstance(x, (ast.Global, ast.Nonlocal, ast.Import, ast.ImportFrom, ast.Yield, ast.YieldFrom)):
                return None
        rets = [x for x in walk(h.node) if isinstance(x, ast.Return)]
        void_guards = bool(rets) and all(r.value is None for r in rets) and kind == "expr"
        if not void_guards and (len(rets) > 1 or (rets and rets[0] is not h.node.body[-1])):
            return None
        hfn = inline_helpers(repo, h, depth - 1, _stack + (fi.full,), keep) if depth > 1 else clone_ast(h.node, h.module.rel)
        if void_guards:
            stripped = _strip_void_returns(list(hfn.body))
            if stripped is None:
                return None
            hfn.body = stripped or [ast.Pass()]
        body = list(hfn.body)
        if body and isinstance(body[0], ast.Expr) and isinstance(body[0].value, ast.Constant) and isinstance(body[0].value.value, str):
            body = body[1:]
        tail = None
        if body and isinstance(body[-1], ast.Return):
            tail, body = body[-1].value, body[:-1]
        allp = [p.arg for p in (hfn.args.posonlyargs + hfn.args.args)]
        hself, params = (allp[0] if skip and allp else None), allp[skip:]
        pos_defaults = dict(zip(reversed(allp), reversed(hfn.args.defaults)))
        kwonly = [p.arg for p in hfn.args.kwonlyargs]
        kw_defaults = {p: d for p, d in zip(kwonly, hfn.args.kw_defaults) if d is not None}
        if len(val.args) > len(params):
            return None
        bound = dict(zip(params, val.args))
        for k in val.keywords:
            if k.arg in bound or k.arg not in params + kwonly:
                return None
            bound[k.arg] = k.value
        for p in params + kwonly:
            if p not in bound:
                d = pos_defaults.get(p, kw_defaults.get(p))
                if d is None:
                    return None
                bound[p] = d
        counter[0] += 1
        pre = f"__inl{len(_stack)}_{counter[0]}_"
        stored = set()
        for b in body:
            for x in ast.walk(b):
                if isinstance(x, ast.Name) and isinstance(x.ctx, (ast.Store, ast.Del)):
                    stored.add(x.id)
                elif isinstance(x, ast.arg):
                    stored.add(x.arg)
                elif isinstance(x, ast.ExceptHandler) and x.name:
                    stored.add(x.name)
        stored.discard(hself)
        mapping, rename, prologue = {}, {n: pre + n for n in stored}, []
        recv = val.func.value.id if isinstance(val.func, ast.Attribute) and isinstance(val.func.value, ast.Name) else selfname
        if hself and recv and hself != recv:
            mapping[hself] = ast.Name(id=recv, ctx=ast.Load())
            if hself in rename:
                del rename[hself]
        for p, e in bound.items():
            if _simple_arg(e) and p not in stored:
                mapping[p] = e
            else:
                rename[p] = pre + p
                prologue.append(ast.copy_location(ast.Assign(targets=[ast.Name(id=pre + p, ctx=ast.Store())],
                                                             value=clone_ast(e)), st))
        sub = _InlineSubst(mapping, rename)
        out = prologue + [sub.visit(b) for b in body]
        tail_e = sub.visit(tail) if tail is not None else None
        if kind == "expr":
            if tail_e is not None and any(isinstance(x, ast.Call) for x in ast.walk(tail_e)):
                out.append(ast.copy_location(ast.Expr(value=tail_e), st))
        elif kind == "assign":
            out.append(ast.copy_location(ast.Assign(targets=[clone_ast(target)],
                                                    value=tail_e if tail_e is not None else ast.Constant(value=None)), st))
        else:
            out.append(ast.copy_location(ast.Return(value=tail_e), st))
        return out or [ast.copy_location(ast.Pass(), st)]

    def expand(stmts):
        out = []
        for st in stmts:
            rep = try_inline(st) if depth > 0 else None
            if rep is not None:
                out.extend(rep)
                continue
            if depth > 0 and isinstance(st, ast.If):
                # `if helper(..):` / `if not helper(..):` -> tmp = <helper body>; if tmp: ...
                t = st.test.operand if isinstance(st.test, ast.UnaryOp) and isinstance(st.test.op, ast.Not) else st.test
                if isinstance(t, ast.Call) and helper_of(t)[0] is not None:
                    counter[0] += 1
                    tmp = f"__ifc{len(_stack)}_{counter[0]}"
                    asg = ast.copy_location(ast.Assign(targets=[ast.Name(id=tmp, ctx=ast.Store())], value=t), st)
                    rep = try_inline(asg)
                    if rep is not None:
                        nm = ast.copy_location(ast.Name(id=tmp, ctx=ast.Load()), t)
                        if t is st.test:
                            st.test = nm
                        else:
                            st.test.operand = nm
                        out.extend(rep)
            if not isinstance(st, FUNC_TYPES + (ast.ClassDef,)):
                for field in ("body", "orelse", "finalbody"):
                    b = getattr(st, field, None)
                    if isinstance(b, list) and b and isinstance(b[0], ast.stmt):
                        setattr(st, field, expand(b))
                for h in getattr(st, "handlers", None) or []:
                    h.body = expand(h.body)
            out.append(st)
        return out
    fn.body = expand(fn.body)
    if not _stack:
        ast.fix_missing_locations(fn)
        set_parents(fn)
    return fn


def inlined_funcinfo(repo: Repo, fi: FuncInfo, depth=2, keep=frozenset()) -> FuncInfo:
    """FuncInfo whose node is the helper-inlined copy of fi (same qual/module, for keys and locations)."""
    return FuncInfo(fi.name, fi.qual, fi.module, inline_helpers(repo, fi, depth, keep=keep), fi.cls, fi.parent_fn)


def namedtuple_fields(repo, mod, cname):
    """field names of a NamedTuple / dataclass-like class defined in the repo (annotation order)"""
    ci = repo.resolve_class(cname, mod) if cname else None
    if ci is None:
        return None
    if not any(b.split(".")[-1] in ("NamedTuple", "RecordClass") for b in ci.base_names) and \
            not any("dataclass" in ast.unparse(d) for d in ci.node.decorator_list):
        return None
    return [st.target.id for st in ci.node.body if isinstance(st, ast.AnnAssign) and isinstance(st.target, ast.Name)]


def as_pair(repo, mod, node):
    """(first, second) element expressions of a 2-tuple or of a 2-field NamedTuple construction; None otherwise"""
    if isinstance(node, ast.Tuple) and len(node.elts) == 2:
        return node.elts[0], node.elts[1]
    if isinstance(node, ast.Call):
        fields = namedtuple_fields(repo, mod, ap(node.func) or "")
        if fields and len(fields) == 2:
            vals = {}
            for i, a in enumerate(node.args):
                if i < 2 and not isinstance(a, ast.Starred):
                    vals[fields[i]] = a
            for k in node.keywords:
                if k.arg in fields:
                    vals[k.arg] = k.value
            if len(vals) == 2:
                return vals[fields[0]], vals[fields[1]]
    return None


def _strip_void_returns(stmts):
    """Rewrite `if c: ...; return` guard clauses of a value-less helper body into if/else nesting so that the
    body can be spliced into a caller; None when a `return` sits anywhere else (loop, try, with)."""
    out = []
    for i, st in enumerate(stmts):
        if isinstance(st, ast.Return):
            return out if st.value is None else None
        if isinstance(st, ast.If) and any(isinstance(x, ast.Return) for x in ast.walk(st)):
            body = _strip_void_returns(st.body)
            orelse = _strip_void_returns(st.orelse) if st.orelse else []
            if body is None or orelse is None:
                return None
            rest = _strip_void_returns(stmts[i + 1:])
            if rest is None:
                return None
            body_exits = bool(st.body) and isinstance(st.body[-1], ast.Return)
            else_exits = bool(st.orelse) and isinstance(st.orelse[-1], ast.Return)
            if body_exits and not else_exits:
                new = ast.If(test=st.test, body=body or [ast.Pass()], orelse=orelse + rest)
            elif else_exits and not body_exits:
                new = ast.If(test=st.test, body=body + rest or [ast.Pass()], orelse=orelse)
            elif body_exits and else_exits:
                new = ast.If(test=st.test, body=body or [ast.Pass()], orelse=orelse)
            else:
                return None   # return nested deeper than a guard clause
            out.append(ast.copy_location(new, st))
            return out
        if any(isinstance(x, ast.Return) for x in ast.walk(st) if not isinstance(st, FUNC_TYPES)):
            return None
        out.append(st)
    return out



def dealias_class_locals(repo: Repo, f: FuncInfo):
    """Clone of f's function node in which a local bound exactly once to a class (`layout = PacketLayout`) is replaced
    by that class name in attribute reads (`layout.X` -> `PacketLayout.X`), so that constant evaluation / linear forms
    see through the alias.  Line numbers are kept."""
    from ..core import clone_ast, set_parents
    aliases = {}
    counts = {}
    for st in stores(f.node, into_defs=True):
        counts[st.path] = counts.get(st.path, 0) + 1
    for st in stores(f.node, into_defs=True):
        if st.kind == "assign" and isinstance(st.target, ast.Name) and isinstance(st.value, (ast.Name, ast.Attribute)) \
                and counts.get(st.path) == 1 and repo.resolve_class(ap(st.value) or "", f.module) is not None:
            aliases[st.target.id] = st.value
    fn2 = clone_ast(f.node)
    if not aliases:
        set_parents(fn2)
        return fn2

    class T(ast.NodeTransformer):
        def visit_Attribute(self, node):
            self.generic_visit(node)
            if isinstance(node.value, ast.Name) and node.value.id in aliases and isinstance(node.ctx, ast.Load):
                node.value = ast.copy_location(clone_ast(aliases[node.value.id]), node.value)
            return node
    T().visit(fn2)
    ast.fix_missing_locations(fn2)
    set_parents(fn2)
    return fn2
