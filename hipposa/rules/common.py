"""Helpers shared by rule modules."""
from __future__ import annotations

import ast
import re
from typing import Callable, Iterable, List, Optional, Sequence, Set, Tuple

from ..consteval import CallVal, ConstEval, Sym
from ..core import (AnalysisError, FuncInfo, Repo, ap, ancestors, atoms, call_attr, calls, conditions,
                    enclosing_stmt, facts, find_calls, norm, parent, src, stores, walk, FUNC_TYPES,
                    try_contexts, handler_catches_all, handler_reraises)


def class_methods_reachable(repo: Repo, start: FuncInfo, depth=3) -> List[FuncInfo]:
    """`start` plus methods of the same class hierarchy reachable via self./cls. calls
    (helper extraction does not blind a rule)."""
    out = [start]
    frontier = [start]
    for _ in range(depth):
        nxt = []
        for f in frontier:
            if f.cls is None:
                continue
            for c in calls(f.node, into_defs=True):
                fn = c.func
                if isinstance(fn, ast.Attribute) and isinstance(fn.value, ast.Name) and fn.value.id in ("self", "cls"):
                    m = repo.lookup_method(f.cls, fn.attr)
                    if m is not None and m not in out:
                        out.append(m)
                        nxt.append(m)
        frontier = nxt
    return out


def module_funcs_reachable(repo: Repo, start: FuncInfo, depth=3) -> List[FuncInfo]:
    """start plus same-class methods and same-module functions reachable by name."""
    out = [start]
    frontier = [start]
    for _ in range(depth):
        nxt = []
        for f in frontier:
            for c in calls(f.node, into_defs=True):
                fn = c.func
                cand = None
                if isinstance(fn, ast.Attribute) and isinstance(fn.value, ast.Name) and fn.value.id in ("self", "cls") \
                        and f.cls is not None:
                    cand = repo.lookup_method(f.cls, fn.attr)
                elif isinstance(fn, ast.Name):
                    for g in repo.funcs.get(fn.id, []):
                        if g.module is f.module and g.cls is None and g.parent_fn is None:
                            cand = g
                if cand is not None and cand not in out:
                    out.append(cand)
                    nxt.append(cand)
        frontier = nxt
    return out


def loops_over(fns: Sequence[FuncInfo], suffix: str) -> List[Tuple[FuncInfo, ast.For]]:
    out = []
    for f in fns:
        for n in walk(f.node, into_defs=True):
            if isinstance(n, (ast.For, ast.AsyncFor)):
                it = n.iter
                text = src(it)
                base = it
                # unwrap wrappers so that reversed(x.blocks) is still found (and then reported)
                while isinstance(base, ast.Call) and base.args:
                    base = base.args[0]
                while isinstance(base, ast.Subscript):
                    base = base.value
                p = ap(base)
                if p and p.endswith(suffix):
                    out.append((f, n))
    return out


def spec_symbol(node) -> Optional[str]:
    """Normalised name of a serialization spec expression (se.U8 -> U8; self._len_spec kept)."""
    p = ap(node)
    if p is None:
        return None
    if re.fullmatch(r"(se\.|serialization\.)?[USF](8|16|32|64)", p):
        return p.split(".")[-1]
    return None


def spec_path(node) -> Optional[str]:
    """Like spec_symbol but also accepts arbitrary access paths (self._len_spec, cls.ELEM_SPEC)."""
    s = spec_symbol(node)
    if s:
        return s
    p = ap(node)
    if p and p.startswith(("se.", "serialization.")):
        return p.split(".", 1)[1]
    return p


def struct_fmt_of_prim(repo: Repo, name: str) -> Optional[str]:
    """'U32' -> 'I' from serialization.py's `U32 = SerializablePrimitive("I", 0)`."""
    mod = repo.module("hippolyzer/lib/base/serialization.py")
    v = repo.module_assign(mod, name)
    if isinstance(v, ast.Call) and v.args and isinstance(v.args[0], ast.Constant) and isinstance(v.args[0].value, str):
        return v.args[0].value
    return None


def fmt_count(fmt: str) -> int:
    """Number of values a struct format packs."""
    n = 0
    for cnt, ch in re.findall(r"(\d*)([a-zA-Z?])", fmt.lstrip("<>!=@")):
        if ch in "sp":
            n += 1
        elif ch == "x":
            continue
        else:
            n += int(cnt) if cnt else 1
    return n


def const_of(repo, mod, node):
    return ConstEval(repo, mod).ev(node)


def has_eq_fact(node, left_suffix: str, right_text: str, stop=None, polarity=True) -> bool:
    """A dominating condition `<...left_suffix> == <right_text>` (polarity) holds at node."""
    for e, pol in facts(node, stop):
        if isinstance(e, ast.Compare) and len(e.ops) == 1:
            l, r = ap(e.left) or "", ap(e.comparators[0]) or ""
            if isinstance(e.ops[0], ast.Eq) and pol == polarity or isinstance(e.ops[0], ast.NotEq) and pol != polarity:
                if (l.endswith(left_suffix) and r.endswith(right_text)) or (r.endswith(left_suffix) and l.endswith(right_text)):
                    return True
    return False


def has_path_fact(node, path_suffix: str, polarity: bool, stop=None) -> bool:
    """A dominating condition that is exactly the truthiness of an access path ending in suffix."""
    for e, pol in facts(node, stop):
        p = ap(e)
        if p and p.endswith(path_suffix) and pol == polarity:
            return True
    return False


def writers_of(repo: Repo, attr: str, recv_filter: Optional[Callable[[str], bool]] = None,
               kinds=("assign", "augassign", "setitem", "augsetitem", "delitem", "del", "mutcall")):
    """All (FuncInfo, Store) that store to an access path whose last attribute is `attr`
    (container mutation included) anywhere in the tree.  Module-level stores have FuncInfo None."""
    out = []
    for f in repo.all_funcs:
        if f.parent_fn is not None:
            continue  # nested defs are covered when walking their parent with into_defs
        for st in stores(f.node, into_defs=True):
            last = st.path.split(".")[-1].replace("[]", "")
            if last == attr and "." in st.path and st.kind in kinds:
                if recv_filter is None or recv_filter(st.path):
                    out.append((f, st))
    return out


def top_fn(f: FuncInfo) -> FuncInfo:
    while f.parent_fn is not None:
        f = f.parent_fn
    return f


def callers_of(repo: Repo, name: str) -> List[Tuple[FuncInfo, ast.Call]]:
    """Every call site whose callee's last component is `name` (by-name, over-approximate)."""
    out = []
    for f in repo.all_funcs:
        if f.parent_fn is not None:
            continue
        for c in find_calls(f.node, name, into_defs=True):
            out.append((f, c))
    return out


def guarded_catch_all(node, stop=None, allow_conditional_reraise=False) -> bool:
    """node lies in the body of a try with a catch-all handler that never re-raises
    (or only conditionally when allowed)."""
    for tc in try_contexts(node, stop):
        if tc.section != "body":
            continue
        for h in tc.node.handlers:
            if handler_catches_all(h):
                rr = handler_reraises(h)
                if rr == "never" or (rr == "conditional" and allow_conditional_reraise):
                    return True
    return False


def returns_of(fn_node) -> List[ast.Return]:
    return [n for n in walk(fn_node) if isinstance(n, ast.Return)]


def assigned_value(fn_node, name: str) -> List[ast.AST]:
    return [s.value for s in stores(fn_node, into_defs=False) if s.path == name and s.kind == "assign" and s.value is not None]


def linform(repo: Repo, mod, fn_node, expr, depth=0):
    """Linear form of an integer expression: {symbol_path: coeff, 1: const}; None if not linear.
    Local names assigned exactly once from an expression are expanded; module/class constants
    are evaluated."""
    if depth > 12:
        return None
    ev = ConstEval(repo, mod)
    if isinstance(expr, ast.Constant) and isinstance(expr.value, int):
        return {1: expr.value}
    if isinstance(expr, ast.BinOp):
        a = linform(repo, mod, fn_node, expr.left, depth + 1)
        b = linform(repo, mod, fn_node, expr.right, depth + 1)
        if a is None or b is None:
            return None
        if isinstance(expr.op, (ast.Add, ast.Sub)):
            sign = 1 if isinstance(expr.op, ast.Add) else -1
            out = dict(a)
            for k, v in b.items():
                out[k] = out.get(k, 0) + sign * v
            return out
        if isinstance(expr.op, ast.Mult):
            if set(a) <= {1}:
                return {k: v * a.get(1, 0) for k, v in b.items()}
            if set(b) <= {1}:
                return {k: v * b.get(1, 0) for k, v in a.items()}
            return None
        return None
    if isinstance(expr, ast.UnaryOp) and isinstance(expr.op, ast.USub):
        a = linform(repo, mod, fn_node, expr.operand, depth + 1)
        return None if a is None else {k: -v for k, v in a.items()}
    if isinstance(expr, ast.Name):
        vals = assigned_value(fn_node, expr.id)
        if len(vals) == 1:
            return linform(repo, mod, fn_node, vals[0], depth + 1)
        if len(vals) > 1:
            return None
    v = ev.ev(expr)
    if isinstance(v, bool):
        return None
    if isinstance(v, int):
        return {1: v}
    p = ap(expr)
    if p:
        return {p: 1}
    return None
