"""Which modules / classes the purity lints (hipposa.purity) cover for each codec / translation property.

Rule id `<prop>.P1`.  The scope is the set of modules that implement the property's encode/decode or
translation path (from the property's anchors); instance memo tables are checked for every class defined
in those modules."""
from __future__ import annotations

from .. import purity

B = "hippolyzer/lib/base/"
M = B + "message/"
CODEC = [M + "udpserializer.py", M + "udpdeserializer.py", M + "data_packer.py", M + "template_dict.py",
         M + "template_parser.py", M + "template.py"]
SER = [B + "serialization.py", B + "helpers.py", B + "datatypes.py"]

SCOPE = {
    "C01": CODEC,
    "C02": CODEC + [M + "message.py"],
    "C03": [M + "udpserializer.py", M + "udpdeserializer.py"],
    "C04": ["hippolyzer/lib/proxy/circuit.py"],
    "C05": ["hippolyzer/lib/proxy/circuit.py", M + "circuit.py"],
    "C06": [M + "udpserializer.py", M + "udpdeserializer.py", "hippolyzer/lib/proxy/transport.py",
            B + "network/transport.py"],
    "C08": SER,
    "C09": SER + [B + "templates.py", B + "namevalue.py"],
    "C10": [B + "serialization.py", B + "llanim.py", B + "mesh.py", B + "templates.py"],
    "C11": [M + "message_formatting.py"] + SER + [B + "templates.py"],
    "C12": [B + "llsd.py", M + "llsd_msg_serializer.py", M + "data_packer.py"],
    "C13": [B + "objects.py", B + "serialization.py", B + "templates.py"],
    "C17": [M + "llsd_msg_serializer.py"],
    "C18": [M + "llsd_msg_serializer.py", M + "message_formatting.py"],
    "C19": [M + "udpserializer.py", M + "udpdeserializer.py", M + "circuit.py"],
    "C20": [B + "legacy_schema.py", B + "inventory.py", B + "llanim.py", B + "mesh.py", B + "xfer_manager.py",
            B + "transfer_manager.py", B + "wearables.py"],
}


def run_purity(ctx):
    rels = SCOPE.get(ctx.prop)
    if not rels:
        return
    repo = ctx.repo
    classes = sorted({ci.name for lst in repo.classes.values() for ci in lst if ci.module.rel in rels})
    purity.purity_obligations(ctx, f"{ctx.prop}.P1", rels, classes)
