"""Which modules / classes the purity lints (hipposa.purity) cover for each codec / translation property.

Rule id `<prop>.P1`.  The scope is the set of modules that implement the property's encode/decode or
translation path (from the property's anchors); instance memo tables are checked for every class defined
in those modules."""
from __future__ import annotations

import json
import os

from .. import purity, structlint

B = "hippolyzer/lib/base/"
M = B + "message/"
CODEC = [M + "udpserializer.py", M + "udpdeserializer.py", M + "data_packer.py", M + "template_dict.py",
         M + "template_parser.py", M + "template.py"]
SER = [B + "serialization.py", B + "helpers.py", B + "datatypes.py"]

SCOPE = {
    "C01": CODEC,
    "C02": CODEC + [M + "message.py"],
    "C03": [M + "udpserializer.py", M + "udpdeserializer.py"],
    "C04": ["hippolyzer/lib/proxy/circuit.py"],
    "C05": ["hippolyzer/lib/proxy/circuit.py", M + "circuit.py"],
    "C06": [M + "udpserializer.py", M + "udpdeserializer.py", "hippolyzer/lib/proxy/transport.py",
            B + "network/transport.py"],
    "C08": SER,
    "C09": SER + [B + "templates.py", B + "namevalue.py"],
    "C10": [B + "serialization.py", B + "llanim.py", B + "mesh.py", B + "templates.py"],
    "C11": [M + "message_formatting.py"] + SER + [B + "templates.py"],
    "C12": [B + "llsd.py", M + "llsd_msg_serializer.py", M + "data_packer.py"],
    "C13": [B + "objects.py", B + "serialization.py", B + "templates.py"],
    "C17": [M + "llsd_msg_serializer.py"],
    "C18": [M + "llsd_msg_serializer.py", M + "message_formatting.py"],
    "C19": [M + "udpserializer.py", M + "udpdeserializer.py", M + "circuit.py"],
    "C20": [B + "legacy_schema.py", B + "inventory.py", B + "llanim.py", B + "mesh.py", B + "xfer_manager.py",
            B + "transfer_manager.py", B + "wearables.py"],
}


def run_purity(ctx):
    rels = SCOPE.get(ctx.prop)
    if not rels:
        return
    repo = ctx.repo
    classes = sorted({ci.name for lst in repo.classes.values() for ci in lst if ci.module.rel in rels})
    purity.purity_obligations(ctx, f"{ctx.prop}.P1", rels, classes)


# ---- declarative-integrity lints (rule id <prop>.P2): the property's anchor files, its purity scope and the repo
# modules those files import directly (a changed declaration in a directly used helper module breaks the property
# just as well as one in the anchored file)
_PROPS = None


def _anchor_files(prop: str):
    global _PROPS
    if _PROPS is None:
        _PROPS = {}
        path = os.path.join(os.path.dirname(os.path.dirname(os.path.dirname(os.path.abspath(__file__)))), "properties.jsonl")
        with open(path) as f:
            for line in f:
                if line.strip():
                    d = json.loads(line)
                    _PROPS[d["id"]] = [x for x in d.get("anchors", {}).get("files", []) if x.endswith(".py")]
    return _PROPS.get(prop, [])


def struct_scope(repo, prop: str):
    base = [r for r in _anchor_files(prop) if r in repo.modules]
    scope = set(base) | {r for r in SCOPE.get(prop, []) if r in repo.modules}
    for rel in base:
        m = repo.modules[rel]
        for tgt in list(m.imports.values()) + list(m.star_imports):
            parts = tgt.split(".")
            for k in range(len(parts), 0, -1):
                m2 = repo.by_modname.get(".".join(parts[:k]))
                if m2 is not None:
                    scope.add(m2.rel)
                    break
    return sorted(scope), base


def run_struct(ctx):
    scope, base = struct_scope(ctx.repo, ctx.prop)
    if not base:
        from ..core import AnalysisError
        raise AnalysisError(f"{ctx.prop}.P2: none of the property's anchor files is present in the tree")
    rid = f"{ctx.prop}.P2"
    structlint.struct_obligations(ctx, rid, scope)
    for mod, node, key, msg in purity.memo_findings(ctx.repo, scope):
        ctx.ob(rid, f"no cache of a mutable result: {key}", False, f"{mod.rel}:{getattr(node, 'lineno', 0)}", msg)
    # hand-written keyed memo tables of the classes in the wider scope: when a cached value reads more of its source than
    # the entry for its own key, every writer of the source must drop the memo as a whole
    own = set(SCOPE.get(ctx.prop, []))
    classes = sorted({ci.name for lst in ctx.repo.classes.values() for ci in lst if ci.module.rel in scope and ci.module.rel not in own})
    for fi, node, key, msg in purity.memo_table_findings(ctx.repo, classes):
        # outside the codec modules only the partial-invalidation clause is armed: per-instance slots there are mostly
        # plain state (session, connection), which the keyed / staleness clauses would misread as memos
        if fi.module.rel in scope and "dropped as a whole" in key:
            ctx.ob(rid, f"memo table: {key}", False, f"{fi.module.rel}:{getattr(node, 'lineno', 0)}", msg)
