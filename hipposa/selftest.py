"""hipposa.selftest - checker self-test (thorough tier).

For each variant (hipposa/selftest_data/<prop>.py VARIANTS and seeded/<id>/patch.diff) an in-memory
overlay of the *current* tree is built with one edit applied, the property's rules are re-run and
the set of newly failing obligations is compared with the expectation:

  expect "C07.R2"  the edit breaks the property: a new failing obligation of that rule must appear
  expect "silent"  behaviour-preserving edit: no new failing obligation, no analysis error
  expect "miss"    documented limit: realistic breaking change the static rules do not see

Variants whose anchor text no longer occurs in the tree are skipped (the tree moved on).
The verdict about /repo never depends on a scratch copy; a self-test failure means the checker
is broken (exit 2) - but only when the tree is the one the corpus was validated against
(selftest_digest.json); on any other tree failures are reported as warnings.
"""
from __future__ import annotations

import hashlib
import importlib
import json
import os
import shutil
import subprocess
import tempfile
from typing import Any, Dict, List, Optional, Tuple

from .core import AnalysisError, Repo
from . import engine

VERIF = engine.VERIF


def _read(root, rel):
    with open(os.path.join(root, rel), encoding="utf8") as f:
        return f.read()


def load_variants(prop: str) -> List[Dict[str, Any]]:
    out = []
    try:
        mod = importlib.import_module(f"hipposa.selftest_data.{prop.lower()}")
        out.extend(mod.VARIANTS)
    except ModuleNotFoundError:
        pass
    sd = os.path.join(VERIF, "seeded")
    if os.path.isdir(sd):
        for d in sorted(os.listdir(sd)):
            meta_p = os.path.join(sd, d, "meta.json")
            if not os.path.exists(meta_p):
                continue
            with open(meta_p) as f:
                meta = json.load(f)
            if meta.get("property") != prop:
                continue
            out.append({"name": f"seeded/{d}", "patch": os.path.join(sd, d, "patch.diff"),
                        "expect": meta.get("expect", "miss"), "why": meta.get("expect_reason", "")})
    rd = os.path.join(VERIF, "refactors")
    if os.path.isdir(rd):
        for d in sorted(os.listdir(rd)):
            meta_p = os.path.join(rd, d, "meta.json")
            if not os.path.exists(meta_p):
                continue
            with open(meta_p) as f:
                meta = json.load(f)
            out.append({"name": f"refactors/{d}", "patch": os.path.join(rd, d, "patch.diff"), "expect": "silent",
                        "error_ok": prop in meta.get("analysis_error_ok", {}),
                        "why": meta.get("analysis_error_ok", {}).get(prop, "")})
    return out


def build_overlay(root: str, v: Dict[str, Any]) -> Optional[Dict[str, str]]:
    """Overlay for the variant, or None if inapplicable on this tree."""
    if "patch" in v:
        return _overlay_from_patch(root, v["patch"])
    edits = v.get("edits") or [{"file": v["file"], "old": v["old"], "new": v["new"]}]
    overlay: Dict[str, str] = {}
    for e in edits:
        rel = e["file"]
        try:
            text = overlay.get(rel) or _read(root, rel)
        except OSError:
            return None
        cnt = text.count(e["old"])
        if cnt != 1 and not (e.get("all") and cnt >= 1):
            return None
        overlay[rel] = text.replace(e["old"], e["new"])
    return overlay


def _overlay_from_patch(root: str, patch: str) -> Optional[Dict[str, str]]:
    with open(patch) as f:
        ptxt = f.read()
    files = []
    for line in ptxt.splitlines():
        if line.startswith("+++ b/"):
            files.append(line[6:].strip())
    if not files:
        return None
    base = "/dev/shm" if os.path.isdir("/dev/shm") else None
    tmp = tempfile.mkdtemp(prefix="hsa-st.", dir=base)
    try:
        for rel in files:
            src = os.path.join(root, rel)
            dst = os.path.join(tmp, rel)
            os.makedirs(os.path.dirname(dst), exist_ok=True)
            if os.path.exists(src):
                shutil.copy(src, dst)
        r = subprocess.run(["patch", "-s", "-p1", "--no-backup-if-mismatch", "-i", patch],
                           cwd=tmp, capture_output=True, text=True)
        if r.returncode != 0:
            return None
        overlay = {}
        for rel in files:
            with open(os.path.join(tmp, rel), encoding="utf8") as f:
                overlay[rel] = f.read()
        return overlay
    finally:
        shutil.rmtree(tmp, ignore_errors=True)


def _run_variant(args) -> Dict[str, Any]:
    prop, root, v, base_fail = args
    name = v["name"]
    expect = v["expect"]
    try:
        overlay = build_overlay(root, v)
    except Exception as e:  # pragma: no cover
        return {"name": name, "expect": expect, "status": "skipped", "detail": f"overlay error {e}"}
    if overlay is None:
        return {"name": name, "expect": expect, "status": "skipped", "detail": "anchor text not in this tree"}
    try:
        repo = Repo(root, ("hippolyzer",), overlay=overlay)
        ctx = engine.run_rules(prop, repo, "quick")
        fail = set(engine.failing_keys(ctx))
        err = None
    except AnalysisError as e:
        fail, err = set(), str(e)
    except Exception as e:
        fail, err = set(), f"internal: {type(e).__name__}: {e}"
    new = sorted(fail - set(base_fail))
    res = {"name": name, "expect": expect, "new_failing": new[:6], "error": err}
    if expect == "silent":
        ok_err = err is None or (v.get("error_ok") and not err.startswith("internal"))
        res["status"] = "pass" if not new and ok_err else "FAIL"
    elif expect == "miss":
        res["status"] = "miss-now-caught" if new else "miss"
    else:
        want = [w.strip() for w in expect.split(",")]
        hit = any(k.startswith(w + "|") or k.startswith(w + ".") for k in new for w in want)
        res["status"] = "pass" if hit else "FAIL"
    return res


def tree_digest(root: str, props_files: List[str]) -> str:
    h = hashlib.sha256()
    for rel in sorted(set(props_files)):
        p = os.path.join(root, rel)
        if os.path.exists(p):
            with open(p, "rb") as f:
                h.update(rel.encode() + b"\0" + f.read() + b"\0")
    return h.hexdigest()


def variant_files(variants) -> List[str]:
    files = []
    for v in variants:
        if "patch" in v:
            with open(v["patch"]) as f:
                for line in f:
                    if line.startswith("+++ b/"):
                        files.append(line[6:].strip())
        else:
            for e in v.get("edits") or [v]:
                files.append(e["file"])
    return files


def run_selftest(prop: str, root: str, base_ctx) -> Dict[str, Any]:
    variants = load_variants(prop)
    base_fail = engine.failing_keys(base_ctx)
    jobs = [(prop, root, v, base_fail) for v in variants]
    results: List[Dict[str, Any]] = []
    if jobs:
        import multiprocessing as mp
        n = min(16, len(jobs), os.cpu_count() or 1)
        try:
            with mp.get_context("fork").Pool(n) as pool:
                results = pool.map(_run_variant, jobs, chunksize=1)
        except Exception:
            results = [_run_variant(j) for j in jobs]
    breaking = [r for r in results if r["expect"] not in ("silent", "miss") and r["status"] != "skipped"]
    preserving = [r for r in results if r["expect"] == "silent" and r["status"] != "skipped"]
    failures = [f"{r['name']}: expected {r['expect']}, got new={r.get('new_failing')} error={r.get('error')}"
                for r in results if r["status"] == "FAIL"]
    # failures are fatal only on the tree the corpus was validated against
    dig_p = os.path.join(VERIF, "selftest_digest.json")
    validated = None
    if os.path.exists(dig_p):
        with open(dig_p) as f:
            validated = json.load(f).get(prop)
    cur = tree_digest(root, variant_files(variants))
    modified = validated is not None and validated != cur
    return {
        "variants": len(results),
        "breaking": len(breaking),
        "fired": sum(1 for r in breaking if r["status"] == "pass"),
        "preserving": len(preserving),
        "silent": sum(1 for r in preserving if r["status"] == "pass"),
        "skipped": sum(1 for r in results if r["status"] == "skipped"),
        "documented_misses": [r["name"] for r in results if r["status"] == "miss"],
        "misses_now_caught": [r["name"] for r in results if r["status"] == "miss-now-caught"],
        "failures": failures,
        "tree_modified": modified or validated is None,
        "details": results,
    }
