"""Self-test corpus for C02: text edits on a scratch overlay (never on /repo)."""
SER = "hippolyzer/lib/base/message/udpserializer.py"
DES = "hippolyzer/lib/base/message/udpdeserializer.py"
MSG = "hippolyzer/lib/base/message/message.py"
PACK = "hippolyzer/lib/base/message/data_packer.py"
DT = "hippolyzer/lib/base/datatypes.py"
SERLIB = "hippolyzer/lib/base/serialization.py"
BCIRC = "hippolyzer/lib/base/message/circuit.py"
LLSDSER = "hippolyzer/lib/base/message/llsd_msg_serializer.py"

_TRY_EXCEPT = (
    "        try:\n"
    "            self._parse_message_body(msg, raw_body)\n"
    "        except:\n"
    "            # Body couldn't be parsed. Put the message back the way we found it\n"
    "            # so that it can still be forwarded as-is. Bypass the `blocks` setter,\n"
    "            # it would clear the raw body again.\n"
    "            msg._blocks = {}\n"
    "            msg.raw_body = raw_body\n"
    "            msg.deserializer = weakref.ref(self)\n"
    "            raise\n"
)
_TRY_FINALLY_FLAG = (
    "        parsed_ok = False\n"
    "        try:\n"
    "            self._parse_message_body(msg, raw_body)\n"
    "            parsed_ok = True\n"
    "        finally:\n"
    "            if not parsed_ok:\n"
    "                msg._blocks = {}\n"
    "                msg.raw_body = raw_body\n"
    "                msg.deserializer = weakref.ref(self)\n"
)
_TRY_FINALLY_NOFLAG_BAD = (
    "        parsed_ok = False\n"
    "        try:\n"
    "            self._parse_message_body(msg, raw_body)\n"
    "            parsed_ok = True\n"
    "        finally:\n"
    "            if parsed_ok:\n"
    "                msg._blocks = {}\n"
    "                msg.raw_body = raw_body\n"
    "                msg.deserializer = weakref.ref(self)\n"
)

VARIANTS = [
    # ------------------------------------------------------------------ R1 breaking
    {"name": "R1 raw_body cleared from Message.to_dict", "file": MSG, "expect": "C02.R1",
     "old": "        self.ensure_parsed()\n        base_repr = {'message': self.name, 'body': {}}",
     "new": "        self.ensure_parsed()\n        self.raw_body = None\n        base_repr = {'message': self.name, 'body': {}}"},
    {"name": "R1 raw body stripped before it is written", "file": SER, "expect": "C02.R1",
     "old": "writer.write_bytes(raw_body)", "new": r'writer.write_bytes(raw_body.rstrip(b"\x00"))'},
    {"name": "R1 serializer touches msg.blocks while the raw body is present", "file": SER, "expect": "C02.R1",
     "old": "        raw_body = msg.raw_body\n",
     "new": "        raw_body = msg.raw_body\n        logger.debug('serializing %d block lists', len(msg.blocks))\n"},
    {"name": "R1 raw branch also re-encodes (else dropped)", "file": SER, "expect": "C02.R1",
     "old": "            writer.write_bytes(raw_body)\n        else:\n", "new": "            writer.write_bytes(raw_body)\n        if True:\n"},
    {"name": "R1 retained window starts one byte early", "file": DES, "expect": "C02.R1",
     "old": "msg.raw_body = bytes(data[PacketLayout.PHL_NAME:])", "new": "msg.raw_body = bytes(data[PacketLayout.PHL_OFFSET:])"},
    {"name": "R1 addon-facing helper writes the deserializer weakref", "file": MSG, "expect": "C02.R1",
     "old": "        message_copy.packet_id = None\n", "new": "        message_copy.packet_id = None\n        message_copy.deserializer = None\n"},
    {"name": "R1 ack trailer written only when there are acks", "file": SER, "expect": "C02.R1",
     "old": "        if msg.has_acks:\n            # ACKs are always written", "new": "        if msg.acks:\n            # ACKs are always written"},
    {"name": "R1 header parser keeps the ack trailer in the body", "file": DES, "expect": "C02.R1",
     "old": "            data = data[:msg_size]\n", "new": "            pass\n"},
    {"name": "R1 module helper outside the owners clears the raw body", "file": MSG, "expect": "C02.R1",
     "old": "def _trunc_repr(val, max_len):\n", "new": "def forget_wire_form(msg):\n    msg.raw_body = None\n\n\ndef _trunc_repr(val, max_len):\n"},
    {"name": "R1 raw body re-read from the message instead of the snapshot", "expect": "C02.R1", "edits": [
        {"file": SER, "old": "        raw_body = msg.raw_body\n        if raw_body is not None:", "new": "        if msg.raw_body is not None:"},
        {"file": SER, "old": "writer.write_bytes(raw_body)", "new": "writer.write_bytes(msg.raw_body)"}]},
    # ------------------------------------------------------------------ R1 preserving
    {"name": "P R1 rename the saved raw body local in serialize", "expect": "silent", "edits": [
        {"file": SER, "old": "        raw_body = msg.raw_body\n", "new": "        unparsed = msg.raw_body\n"},
        {"file": SER, "old": "if raw_body is not None:", "new": "if unparsed is not None:"},
        {"file": SER, "old": "writer.write_bytes(raw_body)", "new": "writer.write_bytes(unparsed)"}]},
    {"name": "P R1 raw branch tested the other way round", "expect": "silent", "edits": [
        {"file": SER, "old": "        if raw_body is not None:\n            # This is a deserialized message we never parsed the body of,\n"
                             "            # Just shove the raw body back in.\n            writer.write_bytes(raw_body)\n        else:\n",
         "new": "        if raw_body is not None:\n            writer.write_bytes(raw_body)\n        if raw_body is None:\n"}]},
    {"name": "P R1 freeze detaches the deserializer through a context manager", "expect": "silent", "edits": [
        {"file": "hippolyzer/lib/proxy/message_logger.py",
         "old": "        message.deserializer = None\n        try:\n            self._frozen_message = pickle.dumps(self._message, protocol=pickle.HIGHEST_PROTOCOL)\n"
                "        finally:\n            message.deserializer = deserializer_ref\n",
         "new": "        with _without_deserializer(message, deserializer_ref):\n"
                "            self._frozen_message = pickle.dumps(self._message, protocol=pickle.HIGHEST_PROTOCOL)\n"},
        {"file": "hippolyzer/lib/proxy/message_logger.py",
         "old": "class LLUDPMessageLogEntry(AbstractMessageLogEntry):\n",
         "new": "import contextlib\n\n\n@contextlib.contextmanager\ndef _without_deserializer(message, saved):\n    message.deserializer = None\n"
                "    try:\n        yield\n    finally:\n        message.deserializer = saved\n\n\n"
                "class LLUDPMessageLogEntry(AbstractMessageLogEntry):\n"}]},
    {"name": "P R1 body re-encoding extracted into a helper", "expect": "silent", "edits": [
        {"file": SER, "old": "            msg_body = body_writer.buffer\n            if msg.zerocoded:\n                msg_body = self.zero_code_compress(msg_body)\n            writer.write_bytes(msg_body)\n",
         "new": "            writer.write_bytes(self._finish_body(msg, body_writer))\n"},
        {"file": SER, "old": "    def _serialize_block(self, writer: se.BufferWriter, tmpl_block: MessageTemplateBlock,\n",
         "new": "    def _finish_body(self, msg, body_writer):\n        msg_body = body_writer.buffer\n        if msg.zerocoded:\n"
                "            msg_body = self.zero_code_compress(msg_body)\n        return msg_body\n\n"
                "    def _serialize_block(self, writer: se.BufferWriter, tmpl_block: MessageTemplateBlock,\n"}]},
    {"name": "P R1 header and ack trailer written by helpers that are handed the writer", "expect": "silent", "edits": [
        {"file": SER, "old": "        writer.write(se.U8, msg.send_flags)\n        # Should already have a packet ID by this point\n"
                             "        # But treat it as \"0\" if not.\n        writer.write(se.U32, msg.packet_id or 0)\n"
                             "        # pack in the offset to the data past the extra data.\n        writer.write(se.U8, len(msg.extra))\n",
         "new": "        self._put_header(writer, msg)\n"},
        {"file": SER, "old": "            # ACKs are always written in reverse order\n            for ack in reversed(msg.acks):\n"
                             "                writer.write(se.U32, ack)\n            writer.write(se.U8, len(msg.acks))\n",
         "new": "            self._put_trailer(writer, msg)\n"},
        {"file": SER, "old": "    def _serialize_block(self, writer: se.BufferWriter, tmpl_block: MessageTemplateBlock,\n",
         "new": "    def _put_header(self, out, msg):\n        out.write(se.U8, msg.send_flags)\n        out.write(se.U32, msg.packet_id or 0)\n"
                "        out.write(se.U8, len(msg.extra))\n\n"
                "    def _put_trailer(self, out, msg):\n        for ack in reversed(msg.acks):\n            out.write(se.U32, ack)\n"
                "        out.write(se.U8, len(msg.acks))\n\n"
                "    def _serialize_block(self, writer: se.BufferWriter, tmpl_block: MessageTemplateBlock,\n"}]},
    {"name": "R1 trailer helper called under the wrong condition", "expect": "C02.R1", "edits": [
        {"file": SER, "old": "        if msg.has_acks:\n            # ACKs are always written in reverse order\n            for ack in reversed(msg.acks):\n"
                             "                writer.write(se.U32, ack)\n            writer.write(se.U8, len(msg.acks))\n",
         "new": "        if len(msg.acks) > 0:\n            self._put_trailer(writer, msg)\n"},
        {"file": SER, "old": "    def _serialize_block(self, writer: se.BufferWriter, tmpl_block: MessageTemplateBlock,\n",
         "new": "    def _put_trailer(self, out, msg):\n        for ack in reversed(msg.acks):\n            out.write(se.U32, ack)\n"
                "        out.write(se.U8, len(msg.acks))\n\n"
                "    def _serialize_block(self, writer: se.BufferWriter, tmpl_block: MessageTemplateBlock,\n"}]},
    # ------------------------------------------------------------------ R2 breaking
    {"name": "R2 restore removed from the handler (D2)", "file": DES, "expect": "C02.R2",
     "old": "            msg.raw_body = raw_body\n            msg.deserializer = weakref.ref(self)\n            raise\n",
     "new": "            msg.deserializer = weakref.ref(self)\n            raise\n"},
    {"name": "R2 fallible call hoisted between the clear and the try (seed 1)", "file": DES, "expect": "C02.R2",
     "old": "        try:\n            self._parse_message_body(msg, raw_body)\n",
     "new": "        body = self.zero_code_expand(raw_body) if msg.zerocoded else raw_body\n        try:\n"
            "            self._parse_message_body(msg, body)\n"},
    {"name": "R2 handler resets blocks through the setter after restoring", "file": DES, "expect": "C02.R2",
     "old": "            msg._blocks = {}\n            msg.raw_body = raw_body\n",
     "new": "            msg.raw_body = raw_body\n            msg.blocks = {}\n"},
    {"name": "R2 handler narrowed to DataPackingError", "file": DES, "expect": "C02.R2",
     "old": "        except:\n            # Body couldn't be parsed.", "new": "        except exc.DataPackingError:\n            # Body couldn't be parsed."},
    {"name": "R2 restore puts back the expanded body", "file": DES, "expect": "C02.R2",
     "old": "        msg.raw_body = None\n        msg.deserializer = None\n",
     "new": "        msg.raw_body = None\n        msg.deserializer = None\n        if msg.zerocoded:\n            raw_body = bytes(raw_body)\n"},
    {"name": "R2 finally restores on success instead of failure", "file": DES, "expect": "C02.R2",
     "old": _TRY_EXCEPT, "new": _TRY_FINALLY_NOFLAG_BAD},
    {"name": "R2 rollback handler lets BaseException through", "file": DES, "expect": "C02.R2",
     "old": "        except:\n            # Body couldn't be parsed.", "new": "        except Exception:\n            # Body couldn't be parsed."},
    # ------------------------------------------------------------------ R2 preserving
    {"name": "P R2 restore via try/finally + success flag", "file": DES, "expect": "silent",
     "old": _TRY_EXCEPT, "new": _TRY_FINALLY_FLAG},
    {"name": "P R2 handler statements reordered", "file": DES, "expect": "silent",
     "old": "            msg._blocks = {}\n            msg.raw_body = raw_body\n            msg.deserializer = weakref.ref(self)\n",
     "new": "            msg.deserializer = weakref.ref(self)\n            msg._blocks = {}\n            msg.raw_body = raw_body\n"},
    {"name": "P R2 saved body local renamed", "expect": "silent", "edits": [
        {"file": DES, "old": "        raw_body = msg.raw_body\n        # Already parsed if we don't have a raw body\n        if not raw_body:\n",
         "new": "        saved = msg.raw_body\n        # Already parsed if we don't have a raw body\n        if not saved:\n"},
        {"file": DES, "old": "            self._parse_message_body(msg, raw_body)\n", "new": "            self._parse_message_body(msg, saved)\n"},
        {"file": DES, "old": "            msg.raw_body = raw_body\n", "new": "            msg.raw_body = saved\n"}]},
    {"name": "P R2 restore extracted into a helper", "file": DES, "expect": "silent",
     "old": _TRY_EXCEPT + "\n",
     "new": "        try:\n            self._parse_message_body(msg, raw_body)\n        except:\n"
            "            self._put_back(msg, raw_body)\n            raise\n\n"
            "    def _put_back(self, msg: Message, raw_body: bytes):\n        msg._blocks = {}\n        msg.raw_body = raw_body\n"
            "        msg.deserializer = weakref.ref(self)\n\n"},
    {"name": "P R2 logging between the clear and the guarded parse", "file": DES, "expect": "silent",
     "old": "        msg.raw_body = None\n        msg.deserializer = None\n",
     "new": "        msg.raw_body = None\n        msg.deserializer = None\n        LOG.debug(\"parsing body of %s\", msg.name)\n"},
    {"name": "P R2 rollback handler spelled except BaseException", "file": DES, "expect": "silent",
     "old": "        except:\n            # Body couldn't be parsed.", "new": "        except BaseException:\n            # Body couldn't be parsed."},
    # ------------------------------------------------------------------ R3
    {"name": "R3 to_summary reads _blocks directly", "file": MSG, "expect": "C02.R3",
     "old": "for block_name, block_list in self.blocks.items():", "new": "for block_name, block_list in self._blocks.items():"},
    {"name": "R3 blocks getter no longer triggers the parse", "file": MSG, "expect": "C02.R3",
     "old": "        self.ensure_parsed()\n        return self._blocks", "new": "        return self._blocks"},
    {"name": "R3 getter parses only on one branch", "file": MSG, "expect": "C02.R3",
     "old": "        self.ensure_parsed()\n        return self._blocks",
     "new": "        if self.deserializer is not None:\n            self.ensure_parsed()\n        return self._blocks"},
    {"name": "R3 ensure_parsed no longer reaches the body parser", "file": MSG, "expect": "C02.R3",
     "old": "        deserializer.parse_message_body(self)\n\n    def to_dict(", "new": "        deserializer.template_dict\n\n    def to_dict("},
    {"name": "P R3 getter returns through a local", "file": MSG, "expect": "silent",
     "old": "        self.ensure_parsed()\n        return self._blocks",
     "new": "        self.ensure_parsed()\n        parsed = self._blocks\n        return parsed"},
    # ------------------------------------------------------------------ R4 breaking
    {"name": "R4 rstrip of every trailing NUL (D3)", "file": DES, "expect": "C02.R4",
     "old": 'return unpacked_data[:-1].decode("utf8")', "new": r'return unpacked_data.decode("utf8").rstrip("\x00")'},
    {"name": "R4 decode without the terminator test", "file": DES, "expect": "C02.R4",
     "old": r'if unpacked_data.endswith(b"\x00"):', "new": "if unpacked_data:"},
    {"name": "R4 packer appends the terminator conditionally (seed 2)", "file": PACK, "expect": "C02.R4",
     "old": r"        return pack_string.encode('utf-8') + b'\x00'",
     "new": "        packed = pack_string.encode('utf-8')\n        if not packed.endswith(b'\\x00'):\n            packed += b'\\x00'\n        return packed"},
    {"name": "R4 lossy decode", "file": DES, "expect": "C02.R4",
     "old": 'unpacked_data[:-1].decode("utf8")', "new": 'unpacked_data[:-1].decode("utf8", errors="replace")'},
    {"name": "R4 fallback strips the bytes", "file": DES, "expect": "C02.R4",
     "old": "make an object that's sort of both.\n            return JankStringyBytes(unpacked_data)",
     "new": "make an object that's sort of both.\n            return JankStringyBytes(unpacked_data.rstrip(b\"\\x00\"))"},
    {"name": "R4 decode error no longer absorbed", "file": DES, "expect": "C02.R4",
     "old": "                except UnicodeDecodeError:\n                    pass", "new": "                except UnicodeDecodeError:\n                    raise"},
    {"name": "R4 packer appends two terminators", "file": PACK, "expect": "C02.R4",
     "old": r"pack_string.encode('utf-8') + b'\x00'", "new": r"pack_string.encode('utf-8') + b'\x00\x00'"},
    # ------------------------------------------------------------------ R4 preserving
    {"name": "P R4 removesuffix instead of the slice", "file": DES, "expect": "silent",
     "old": 'unpacked_data[:-1].decode("utf8")', "new": r'unpacked_data.removesuffix(b"\x00").decode("utf8")'},
    {"name": "P R4 packer encodes into a local first", "file": PACK, "expect": "silent",
     "old": r"        return pack_string.encode('utf-8') + b'\x00'",
     "new": "        encoded = pack_string.encode('utf-8')\n        return encoded + b'\\x00'"},
    {"name": "P R4 fallback branches merged differently", "file": DES, "expect": "silent",
     "old": "        if not isinstance(unpacked_data, bytes):\n            return unpacked_data\n",
     "new": "        if isinstance(unpacked_data, bytes):\n            pass\n        else:\n            return unpacked_data\n"},
    {"name": "P R4 terminator test spelled with a slice", "file": DES, "expect": "silent",
     "old": r'if unpacked_data.endswith(b"\x00"):', "new": r'if unpacked_data[-1:] == b"\x00":'},
    {"name": "P R1 logging the raw body length in serialize", "file": SER, "expect": "silent",
     "old": "            writer.write_bytes(raw_body)\n", "new": "            logger.debug('raw body of %d bytes', len(raw_body))\n            writer.write_bytes(raw_body)\n"},
    # ------------------------------------------------------------------ R6
    {"name": "R6 quaternion packer normalises before packing", "file": PACK, "expect": "C02.R6",
     "old": "            return struct_obj.pack(*x.data(needed_elems)[:needed_elems])",
     "new": "            x = x.data(needed_elems)\n            norm = sum(c * c for c in x) ** 0.5 or 1.0\n            x = [c / norm for c in x]\n"
            "            return struct_obj.pack(*x[:needed_elems])"},
    {"name": "R6 coordinate packer rounds its components", "file": PACK, "expect": "C02.R6",
     "old": "            return struct_obj.pack(*x)\n", "new": "            return struct_obj.pack(*(round(c, 6) for c in x))\n"},
    {"name": "P R6 components selected into a local first", "file": PACK, "expect": "silent",
     "old": "            return struct_obj.pack(*x.data(needed_elems)[:needed_elems])",
     "new": "            wanted = tuple(x.data(needed_elems))[:needed_elems]\n            return struct_obj.pack(*wanted)"},
    {"name": "P R4 heuristic moved into a helper with guard clauses", "expect": "silent", "edits": [
        {"file": DES, "old": "        if not isinstance(unpacked_data, bytes):\n            return unpacked_data\n",
         "new": "        if not isinstance(unpacked_data, bytes):\n            return unpacked_data\n"
                "        return self._pick_repr(tmpl_variable, unpacked_data)\n\n"
                "    def _pick_repr(self, tmpl_variable, raw):\n        unpacked_data = raw\n"},
        {"file": DES, "old": "        unpacked_data = raw\n", "new": ""},
        {"file": DES, "old": "    def _pick_repr(self, tmpl_variable, raw):\n", "new": "    def _pick_repr(self, tmpl_variable, unpacked_data):\n"}]},
    {"name": "R4 helper that picks the representation strips every NUL", "expect": "C02.R4", "edits": [
        {"file": DES, "old": "        if not isinstance(unpacked_data, bytes):\n            return unpacked_data\n",
         "new": "        if not isinstance(unpacked_data, bytes):\n            return unpacked_data\n"
                "        return self._pick_repr(tmpl_variable, unpacked_data)\n\n"
                "    def _pick_repr(self, tmpl_variable, unpacked_data):\n"},
        {"file": DES, "old": 'return unpacked_data[:-1].decode("utf8")', "new": r'return unpacked_data.rstrip(b"\x00").decode("utf8")'}]},
    {"name": "P R6 packer closures replaced by functools.partial over module functions", "expect": "silent", "edits": [
        {"file": PACK, "old": "import socket\n", "new": "import functools\nimport socket\n"},
        {"file": PACK, "old": "        def _packer(x):\n            return struct_obj.pack(*x)\n",
         "new": "        _packer = functools.partial(_pack_all, struct_obj)\n"},
        {"file": PACK, "old": "def _make_tuplecoord_spec(", "new": "def _pack_all(struct_obj, x):\n    return struct_obj.pack(*x)\n\n\ndef _make_tuplecoord_spec("}]},
    {"name": "R6 partial-based packer scales the components", "expect": "C02.R6", "edits": [
        {"file": PACK, "old": "import socket\n", "new": "import functools\nimport socket\n"},
        {"file": PACK, "old": "        def _packer(x):\n            return struct_obj.pack(*x)\n",
         "new": "        _packer = functools.partial(_pack_all, struct_obj)\n"},
        {"file": PACK, "old": "def _make_tuplecoord_spec(",
         "new": "def _pack_all(struct_obj, x):\n    return struct_obj.pack(*[round(c, 4) for c in x])\n\n\ndef _make_tuplecoord_spec("}]},
    # ------------------------------------------------------------------ R6 unpack side / R7 verbatim storage
    {"name": "R6 Vector4 constructor clamps its components", "file": DT, "expect": "C02.R6",
     "old": "        self.W = float(W)\n\n    def data(self, wanted_components=None):\n        return self.X, self.Y, self.Z, self.W",
     "new": "        self.W = max(-1e30, min(1e30, float(W)))\n\n    def data(self, wanted_components=None):\n        return self.X, self.Y, self.Z, self.W"},
    {"name": "R6 Quaternion constructor scrubs NaN from the wire components", "file": DT, "expect": "C02.R6",
     "old": "    def __init__(self, X=0.0, Y=0.0, Z=0.0, W=None):\n        super().__init__()\n        self.X = float(X)\n",
     "new": "    def __init__(self, X=0.0, Y=0.0, Z=0.0, W=None):\n        super().__init__()\n        self.X = 0.0 if X != X else float(X)\n"},
    {"name": "P R6 Quaternion keeps its derived W computation", "file": DT, "expect": "silent",
     "old": "            t = 1.0 - (X * X + Y * Y + Z * Z)\n", "new": "            sq = X * X + Y * Y + Z * Z\n            t = 1.0 - sq\n"},
    {"name": "R7 Block.__setitem__ strips strings", "file": MSG, "expect": "C02.R7",
     "old": "            value = int(value)\n\n        self.vars[key] = value\n",
     "new": "            value = int(value)\n        if isinstance(value, str):\n            value = value.strip()\n\n        self.vars[key] = value\n"},
    {"name": "R7 Block.__setitem__ stores a normalised copy", "file": MSG, "expect": "C02.R7",
     "old": "        self.vars[key] = value\n        # Invalidate", "new": "        self.vars[key] = value.rstrip(b\"\\x00\") if isinstance(value, bytes) else value\n        # Invalidate"},
    {"name": "P R7 enum normalisation written as a guard clause pair", "file": MSG, "expect": "silent",
     "old": "        if isinstance(value, (enum.IntEnum, enum.IntFlag)):\n            value = int(value)\n",
     "new": "        is_enum = isinstance(value, (enum.IntEnum, enum.IntFlag))\n        if isinstance(value, (enum.IntEnum, enum.IntFlag)) and is_enum:\n            value = int(value)\n"},
    {"name": "R7 Message.acks becomes a de-duplicating property", "expect": "C02.R7", "edits": [
        {"file": MSG, "old": '__slots__ = ("name", "send_flags", "packet_id", "acks",', "new": '__slots__ = ("name", "send_flags", "packet_id", "_acks",'},
        {"file": MSG, "old": "    @property\n    def extra(self) -> bytes:\n",
         "new": "    @property\n    def acks(self):\n        return self._acks\n\n    @acks.setter\n    def acks(self, val):\n"
                "        self._acks = tuple(sorted(set(val)))\n\n    @property\n    def extra(self) -> bytes:\n"}]},
    {"name": "P R7 Message.acks becomes a property that keeps a tuple", "expect": "silent", "edits": [
        {"file": MSG, "old": '__slots__ = ("name", "send_flags", "packet_id", "acks",', "new": '__slots__ = ("name", "send_flags", "packet_id", "_acks",'},
        {"file": MSG, "old": "    @property\n    def extra(self) -> bytes:\n",
         "new": "    @property\n    def acks(self):\n        return self._acks\n\n    @acks.setter\n    def acks(self, val):\n"
                "        self._acks = tuple(val)\n\n    @property\n    def extra(self) -> bytes:\n"}]},
    {"name": "P R2 raw body dropped through a method of the message", "expect": "silent", "edits": [
        {"file": DES, "old": "        msg.raw_body = None\n        msg.deserializer = None\n\n        try:", "new": "        msg.forget_wire_form()\n\n        try:"},
        {"file": MSG, "old": "    def create_block_list(self, block_name: str):\n",
         "new": "    def forget_wire_form(self):\n        self.raw_body = None\n        self.deserializer = None\n\n"
                "    def create_block_list(self, block_name: str):\n"}]},
    {"name": "P R4 terminator and packer constants named", "expect": "silent", "edits": [
        {"file": DES, "old": "LOG = getLogger('message.udpdeserializer')\n", "new": "LOG = getLogger('message.udpdeserializer')\n_NUL = b\"\\x00\"\n"},
        {"file": DES, "old": r'if unpacked_data.endswith(b"\x00"):', "new": "if unpacked_data.endswith(_NUL):"}]},
    {"name": "P R6 leading components picked by a shared module helper", "expect": "silent", "edits": [
        {"file": PACK, "old": "            return struct_obj.pack(*x.data(needed_elems)[:needed_elems])",
         "new": "            return struct_obj.pack(*_first(x, needed_elems))"},
        {"file": PACK, "old": "def _make_tuplecoord_spec(",
         "new": "def _first(x, n):\n    x = x.data(n)\n    return x[:n]\n\n\ndef _make_tuplecoord_spec("}]},
    {"name": "R6 Quaternion derives a negative W for three-component values", "file": DT, "expect": "C02.R6",
     "old": "                self.W = math.sqrt(t)\n", "new": "                self.W = -math.sqrt(t)\n"},
    {"name": "R6 Quaternion.data(3) flips only one component", "file": DT, "expect": "C02.R6",
     "old": "                return -self.X, -self.Y, -self.Z\n", "new": "                return -self.X, self.Y, self.Z\n"},
    {"name": "R6 Quaternion.data(3) rounds the components it hands out", "file": DT, "expect": "C02.R6",
     "old": "            return self.X, self.Y, self.Z\n        return self.X, self.Y, self.Z, self.W\n",
     "new": "            return round(self.X, 6), round(self.Y, 6), round(self.Z, 6)\n        return self.X, self.Y, self.Z, self.W\n"},
    {"name": "P R6 Quaternion.data(3) sign flip written with the guard first", "file": DT, "expect": "silent",
     "old": "            if self.W < 0:\n                return -self.X, -self.Y, -self.Z\n            return self.X, self.Y, self.Z\n",
     "new": "            if not self.W < 0:\n                return self.X, self.Y, self.Z\n            return -self.X, -self.Y, -self.Z\n"},
    {"name": "P R6 packer narrows with data() and a slice again", "file": PACK, "expect": "silent",
     "old": "            return struct_obj.pack(*x.data(needed_elems)[:needed_elems])",
     "new": "            x = x.data(needed_elems)\n            return struct_obj.pack(*x[:needed_elems])"},
    # ------------------------------------------------------------------ R10 (anchored on the repaired text)
    {"name": "R10 unread remainder only logged again (revert of the raw_trailer fix)", "file": DES, "expect": "C02.R10",
     "old": "            msg.raw_trailer = reader.read_bytes(len(reader), to_bytes=True)\n"
            "            LOG.warning(f\"Left {len(msg.raw_trailer)} bytes unread past end of {msg.name} message, \"\n"
            "                        f\"is your message template up to date? {msg.raw_trailer!r}\")\n",
     "new": "            LOG.warning(f\"Left {len(reader)} bytes unread past end of {msg.name} message, \"\n"
            "                        f\"is your message template up to date? {reader.read_bytes(len(reader))!r}\")\n"},
    {"name": "R10 kept remainder never written back", "file": SER, "expect": "C02.R10",
     "old": "            body_writer.write_bytes(msg.raw_trailer)\n", "new": ""},
    {"name": "P R10 remainder read into a local before it is stored", "file": DES, "expect": "silent",
     "old": "            msg.raw_trailer = reader.read_bytes(len(reader), to_bytes=True)\n",
     "new": "            left = len(reader)\n            msg.raw_trailer = reader.read_bytes(left, to_bytes=True)\n"},
    # ------------------------------------------------------------------ R12 / R8 (other renderers)
    {"name": "R12 send path traces a summary of every message", "file": BCIRC, "expect": "C02.R12",
     "old": "    def _send_prepared_message(self, message: Message, transport=None):\n        try:\n",
     "new": "    def _send_prepared_message(self, message: Message, transport=None):\n"
            "        logging.debug(\"sending %s: %s\", message.name, message.to_summary())\n        try:\n"},
    {"name": "P R12 send path traces header fields only", "file": BCIRC, "expect": "silent",
     "old": "    def _send_prepared_message(self, message: Message, transport=None):\n        try:\n",
     "new": "    def _send_prepared_message(self, message: Message, transport=None):\n"
            "        logging.debug(\"sending %s #%s\", message.name, message.packet_id)\n        try:\n"},
    {"name": "R8 LLSD serializer reads the blocks' own dicts", "file": LLSDSER, "expect": "C02.R8",
     "old": "        msg_dict = msg.to_dict()\n",
     "new": "        msg_dict = {'message': msg.name, 'body': {k: [b.vars for b in v] for k, v in msg.blocks.items()}}\n"},
    {"name": "P R8 LLSD serializer copies the blocks' dicts itself", "file": LLSDSER, "expect": "silent",
     "old": "        msg_dict = msg.to_dict()\n",
     "new": "        msg_dict = {'message': msg.name, 'body': {k: [dict(b.vars) for b in v] for k, v in msg.blocks.items()}}\n"},
    {"name": "P R1/R3 packet layout constants read through a local alias of the class", "expect": "silent", "edits": [
        {"file": DES, "old": "        msg_size = len(data)\n", "new": "        msg_size = len(data)\n        lay = PacketLayout\n"},
        {"file": DES, "old": "msg.raw_body = bytes(data[PacketLayout.PHL_NAME:])", "new": "msg.raw_body = bytes(data[lay.PHL_NAME:])"}]},
    # ------------------------------------------------------------------ R8 / R9
    {"name": "R8 to_dict hands out the blocks' own variable dicts", "file": MSG, "expect": "C02.R8",
     "old": "                new_vars = {}\n                for var_name, val in block.items():\n                    new_vars[var_name] = val\n"
            "                dict_blocks.append(new_vars)\n",
     "new": "                dict_blocks.append(block.vars)\n"},
    {"name": "P R8 to_dict copies each block's variables with dict()", "file": MSG, "expect": "silent",
     "old": "                new_vars = {}\n                for var_name, val in block.items():\n                    new_vars[var_name] = val\n"
            "                dict_blocks.append(new_vars)\n",
     "new": "                dict_blocks.append(dict(block.vars))\n"},
    {"name": "R9 read_bytes clamps the end position before its bounds check", "file": SERLIB, "expect": "C02.R9",
     "old": "        end_pos = self._pos + num_bytes\n        if end_pos > self._len and check_len:",
     "new": "        end_pos = min(self._pos + num_bytes, self._len)\n        if end_pos > self._len and check_len:"},
    {"name": "R9 read_bytes bounds check dropped", "file": SERLIB, "expect": "C02.R9",
     "old": "        if end_pos > self._len and check_len:\n            raise ValueError(f\"{len(self)} bytes left, needed {num_bytes}\")\n", "new": ""},
    {"name": "P R9 bounds check phrased on the remaining length", "file": SERLIB, "expect": "silent",
     "old": "        if end_pos > self._len and check_len:", "new": "        if check_len and num_bytes > self._len - self._pos:"},
    # ------------------------------------------------------------------ R5 breaking
    {"name": "R5 writer skips on truthiness", "file": SER, "expect": "C02.R5",
     "old": "if block_list is None:", "new": "if not block_list:"},
    {"name": "R5 reader forgets zero-repeat blocks", "file": DES, "expect": "C02.R5",
     "old": "            msg.create_block_list(tmpl_block.name)\n", "new": ""},
    {"name": "R5 reader no longer stops at end of data", "file": DES, "expect": "C02.R5",
     "old": "if not len(reader):\n                # Seems like", "new": "if False:\n                # Seems like"},
    {"name": "R5 writer substitutes an empty list for absent blocks", "file": SER, "expect": "C02.R5",
     "old": "blocks.pop(tmpl_block.name, None)", "new": "blocks.pop(tmpl_block.name, MsgBlockList())"},
    {"name": "R5 reader records the block before testing for end of data", "expect": "C02.R5", "edits": [
        {"file": DES, "old": "            msg.create_block_list(tmpl_block.name)\n", "new": ""},
        {"file": DES, "old": "            # EOF?\n", "new": "            msg.create_block_list(tmpl_block.name)\n            # EOF?\n"}]},
    {"name": "R5 reader tolerates end of data between the repeats of a block", "file": DES, "expect": "C02.R5",
     "old": "            for i in range(repeat_count):\n",
     "new": "            for i in range(repeat_count):\n                if len(reader) == 0:\n                    break\n"},
    # ------------------------------------------------------------------ R5 preserving
    {"name": "P R5 rename the writer's block list local", "expect": "silent", "edits": [
        {"file": SER, "old": "block_list = blocks.pop(tmpl_block.name, None)", "new": "present = blocks.pop(tmpl_block.name, None)"},
        {"file": SER, "old": "if block_list is None:", "new": "if present is None:"},
        {"file": SER, "old": "self._serialize_block(body_writer, tmpl_block, block_list)", "new": "self._serialize_block(body_writer, tmpl_block, present)"}]},
    {"name": "P R5 end-of-data test spelled len(reader) == 0 and continue", "expect": "silent", "edits": [
        {"file": DES, "old": "if not len(reader):\n                # Seems like", "new": "if len(reader) == 0:\n                # Seems like"},
        {"file": DES, "old": "bailing out\" % tmpl_block.name)\n                break", "new": "bailing out\" % tmpl_block.name)\n                continue"}]},
]
