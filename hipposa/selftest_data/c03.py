"""Self-test corpus for C03: text edits on a scratch overlay (never on /repo)."""
SER = "hippolyzer/lib/base/message/udpserializer.py"
DES = "hippolyzer/lib/base/message/udpdeserializer.py"

_CAP = ('            if len(decode_buf) > 0x3000:\n'
        '                raise ValueError("Unreasonably large zerocoded message")\n')

_TERMINATE = ("            if zero_count:\n"
              "                compressed_buff.append(zero_count)\n"
              "                zero_count = 0\n")
_LOOP_ZERO_BRANCH = ("                zero_count += 1\n"
                     "                if zero_count == 1:\n"
                     "                    compressed_buff.append(0x00)\n"
                     "                # Terminate zeros before we need to use the wrap case,\n"
                     "                # the official encoder doesn't use it and it isn't handled\n"
                     "                # correctly on any decoder other than LL's.\n"
                     "                elif zero_count == 255:\n"
                     "                    _terminate_zeros()\n")

VARIANTS = [
    # ------------------------------------------------------------------ R1 breaking
    {"name": "R1 cap test deleted", "file": DES, "expect": "C03.R1", "old": _CAP, "new": ""},
    {"name": "R1 cap test looks at the input length", "file": DES, "expect": "C03.R1",
     "old": "if len(decode_buf) > 0x3000:", "new": "if len(msg_buf) > 0x3000:"},
    {"name": "R1 cap tested only inside a run", "file": DES, "expect": "C03.R1",
     "old": "if len(decode_buf) > 0x3000:", "new": "if in_zero and len(decode_buf) > 0x3000:"},
    {"name": "R1 cap truncates silently instead of refusing", "file": DES, "expect": "C03.R1",
     "old": '                raise ValueError("Unreasonably large zerocoded message")\n', "new": "                break\n"},
    {"name": "R1 continuation zeros deferred past the cap test (seed 2)", "expect": "C03.R1", "edits": [
        {"file": DES, "old": "        in_zero = False\n        for c in msg_buf:", "new": "        in_zero = False\n        wrapped_zeros = 0\n        for c in msg_buf:"},
        {"file": DES, "old": '                    decode_buf.extend(b"\\x00" * 255)\n', "new": "                    wrapped_zeros += 255\n"},
        {"file": DES, "old": "                    zero_count = c - 1\n                    decode_buf.extend(b\"\\x00\" * zero_count)\n",
         "new": "                    zero_count = wrapped_zeros + c - 1\n                    decode_buf.extend(b\"\\x00\" * zero_count)\n"
                "                    wrapped_zeros = 0\n"},
        {"file": DES, "old": "                raise ValueError(\"Unreasonably large zerocoded message\")\n\n        return decode_buf",
         "new": "                raise ValueError(\"Unreasonably large zerocoded message\")\n\n        decode_buf.extend(b\"\\x00\" * wrapped_zeros)\n        return decode_buf"}]},
    # ------------------------------------------------------------------ R1 preserving
    {"name": "P R1 cap hoisted into a module constant", "expect": "silent", "edits": [
        {"file": DES, "old": "LOG = getLogger('message.udpdeserializer')\n", "new": "LOG = getLogger('message.udpdeserializer')\n_MAX_EXPANDED = 0x3000\n"},
        {"file": DES, "old": "if len(decode_buf) > 0x3000:", "new": "if len(decode_buf) > _MAX_EXPANDED:"}]},
    {"name": "R1 cap looked at before the next byte instead of after the expansion (revert of eec692c)", "expect": "C03.R1", "edits": [
        {"file": DES, "old": "\n            # Well beyond what the viewer allows zerocoding to expand to\n" + _CAP, "new": ""},
        {"file": DES, "old": "        for c in msg_buf:\n            if c == 0x00:\n                # Always have",
         "new": "        for c in msg_buf:\n" + _CAP + "            if c == 0x00:\n                # Always have"}]},
    {"name": "P R1 cap tested both before and after each byte", "file": DES, "expect": "silent",
     "old": "        for c in msg_buf:\n            if c == 0x00:\n                # Always have",
     "new": "        for c in msg_buf:\n" + _CAP + "            if c == 0x00:\n                # Always have"},
    {"name": "R1 cap skipped for literal bytes (continue before the test)", "file": DES, "expect": "C03.R1",
     "old": "                else:\n                    decode_buf.append(c)\n",
     "new": "                else:\n                    decode_buf.append(c)\n                    continue\n"},
    {"name": "P R1 rename buffer and loop variable", "expect": "silent", "edits": [
        {"file": DES, "old": "decode_buf", "new": "expanded", "all": True},
        {"file": DES, "old": "        for c in msg_buf:", "new": "        for byte in msg_buf:"},
        {"file": DES, "old": "            if c == 0x00:\n                # Always have", "new": "            if byte == 0x00:\n                # Always have"},
        {"file": DES, "old": "zero_count = c - 1", "new": "zero_count = byte - 1"},
        {"file": DES, "old": "expanded.append(c)", "new": "expanded.append(byte)"}]},
    # ------------------------------------------------------------------ R2 breaking
    {"name": "R2 run split at 256", "file": SER, "expect": "C03.R2", "old": "elif zero_count == 255:", "new": "elif zero_count == 256:"},
    {"name": "R2 final flush dropped", "file": SER, "expect": "C03.R2",
     "old": "        _terminate_zeros()\n\n        return compressed_buff", "new": "        return compressed_buff"},
    {"name": "R2 zero marker on every zero", "file": SER, "expect": "C03.R2", "old": "if zero_count == 1:", "new": "if zero_count >= 1:"},
    {"name": "R2 no run splitting at all", "file": SER, "expect": "C03.R2",
     "old": "                elif zero_count == 255:\n                    _terminate_zeros()\n", "new": ""},
    {"name": "R2 literal written without flushing the run", "file": SER, "expect": "C03.R2",
     "old": "            else:\n                _terminate_zeros()\n                compressed_buff.append(char)",
     "new": "            else:\n                compressed_buff.append(char)"},
    {"name": "R2 counter not reset after the flush", "file": SER, "expect": "C03.R2",
     "old": "                compressed_buff.append(zero_count)\n                zero_count = 0\n",
     "new": "                compressed_buff.append(zero_count)\n"},
    {"name": "R2 counter advances by two", "file": SER, "expect": "C03.R2", "old": "zero_count += 1", "new": "zero_count += 2"},
    {"name": "R2 divmod split emits a zero remainder (seed 1)", "expect": "C03.R2", "edits": [
        {"file": SER, "old": _TERMINATE,
         "new": "            if zero_count:\n"
                "                full_runs, remainder = divmod(zero_count, 255)\n"
                "                compressed_buff.extend(b\"\\x00\\xff\" * full_runs)\n"
                "                compressed_buff.extend((0x00, remainder))\n"
                "                zero_count = 0\n"},
        {"file": SER, "old": _LOOP_ZERO_BRANCH, "new": "                zero_count += 1\n"}]},
    # ------------------------------------------------------------------ R2 preserving
    {"name": "P R2 run split at 200 (still canonical)", "file": SER, "expect": "silent",
     "old": "elif zero_count == 255:", "new": "elif zero_count == 200:"},
    {"name": "P R2 flush helper renamed", "expect": "silent", "edits": [
        {"file": SER, "old": "_terminate_zeros", "new": "_flush_run", "all": True}]},
    {"name": "P R2 divmod split that skips a zero remainder", "expect": "silent", "edits": [
        {"file": SER, "old": _TERMINATE,
         "new": "            if zero_count:\n"
                "                full_runs, remainder = divmod(zero_count, 255)\n"
                "                compressed_buff.extend(b\"\\x00\\xff\" * full_runs)\n"
                "                if remainder:\n"
                "                    compressed_buff.extend((0x00, remainder))\n"
                "                zero_count = 0\n"},
        {"file": SER, "old": _LOOP_ZERO_BRANCH, "new": "                zero_count += 1\n"}]},
    {"name": "P R2 nested ifs instead of elif", "file": SER, "expect": "silent",
     "old": "                elif zero_count == 255:\n                    _terminate_zeros()\n",
     "new": "                else:\n                    if zero_count >= 255:\n                        _terminate_zeros()\n"},
    {"name": "P R2 full run flushed inline with a constant count", "file": SER, "expect": "silent",
     "old": "                elif zero_count == 255:\n                    _terminate_zeros()\n",
     "new": "                elif zero_count == 255:\n                    compressed_buff.append(255)\n                    zero_count = 0\n"},
    {"name": "R1 input refused on its coded length before decoding", "file": DES, "expect": "C03.R1",
     "old": "        decode_buf = bytearray()\n        in_zero = False\n",
     "new": "        if len(msg_buf) > 0x3000:\n            raise ValueError(\"too large\")\n        decode_buf = bytearray()\n        in_zero = False\n"},
    {"name": "R1 refusal keyed on the input length inside the loop", "file": DES, "expect": "C03.R1",
     "old": "            if c == 0x00:\n                # Always have",
     "new": "            if len(msg_buf) > 0x2000:\n                raise ValueError(\"too large\")\n            if c == 0x00:\n                # Always have"},
    {"name": "P R1 cap as a local shared by the in-loop test", "expect": "silent", "edits": [
        {"file": DES, "old": "        decode_buf = bytearray()\n        in_zero = False\n", "new": "        max_len = 0x3000\n        decode_buf = bytearray()\n        in_zero = False\n"},
        {"file": DES, "old": "if len(decode_buf) > 0x3000:", "new": "if len(decode_buf) > max_len:"}]},
    # ------------------------------------------------------------------ R3 (C01.R6 re-run)
    {"name": "R3 header peek window loses the doubling of the extra field", "file": DES, "expect": "C03.R3",
     "old": "16 + (msg.offset * 2)]", "new": "16 + msg.offset]"},
    {"name": "R3 header peek window too short for a doubled message number", "file": DES, "expect": "C03.R3",
     "old": "16 + (msg.offset * 2)]", "new": "12 + (msg.offset * 2)]"},
    {"name": "P R3 header peek window relative to PHL_NAME", "file": DES, "expect": "silent",
     "old": "header = data[PacketLayout.PHL_NAME:16 + (msg.offset * 2)]",
     "new": "peek_len = 2 * (4 + msg.offset)\n            header = data[PacketLayout.PHL_NAME:PacketLayout.PHL_NAME + peek_len]"},
    {"name": "R3 whole body expanded for the peek", "file": DES, "expect": "C03.R3",
     "old": "header = data[PacketLayout.PHL_NAME:16 + (msg.offset * 2)]", "new": "header = data[PacketLayout.PHL_NAME:]"},
    # ------------------------------------------------------------------ R4 (flag <-> coding of the body)
    {"name": "R4 compressed body used only when it is smaller", "file": SER, "expect": "C03.R4",
     "old": "                msg_body = self.zero_code_compress(msg_body)\n",
     "new": "                packed = self.zero_code_compress(msg_body)\n                if len(packed) < len(msg_body):\n"
            "                    msg_body = packed\n"},
    {"name": "R4 body compressed regardless of the flag", "file": SER, "expect": "C03.R4",
     "old": "            if msg.zerocoded:\n                msg_body = self.zero_code_compress(msg_body)\n",
     "new": "            msg_body = self.zero_code_compress(msg_body)\n"},
    {"name": "R4 reader expands only bodies that look zero-coded", "file": DES, "expect": "C03.R4",
     "old": "        if msg.zerocoded:\n            raw_body = self.zero_code_expand(raw_body)\n",
     "new": "        if msg.zerocoded and b\"\\x00\" in raw_body:\n            raw_body = self.zero_code_expand(raw_body)\n"},
    {"name": "P R4 compressed body kept in its own local", "expect": "silent", "edits": [
        {"file": SER, "old": "            if msg.zerocoded:\n                msg_body = self.zero_code_compress(msg_body)\n            writer.write_bytes(msg_body)\n",
         "new": "            if msg.zerocoded:\n                coded = self.zero_code_compress(msg_body)\n                wire_body = coded\n"
                "            else:\n                wire_body = msg_body\n            writer.write_bytes(wire_body)\n"}]},
    {"name": "P R4 compressed body written directly", "expect": "silent", "edits": [
        {"file": SER, "old": "            if msg.zerocoded:\n                msg_body = self.zero_code_compress(msg_body)\n            writer.write_bytes(msg_body)\n",
         "new": "            if msg.zerocoded:\n                writer.write_bytes(self.zero_code_compress(msg_body))\n"
                "            else:\n                writer.write_bytes(msg_body)\n"}]},
    # ------------------------------------------------------------------ interpreter robustness (helpers / objects)
    {"name": "P R1 cap test extracted into a module-level helper", "expect": "silent", "edits": [
        {"file": DES, "old": _CAP, "new": "            _refuse_oversized(decode_buf)\n"},
        {"file": DES, "old": "class UDPMessageDeserializer:\n",
         "new": "def _refuse_oversized(buf):\n    if len(buf) > 0x3000:\n        raise ValueError(\"Unreasonably large zerocoded message\")\n\n\n"
                "class UDPMessageDeserializer:\n"}]},
    {"name": "R1 extracted cap helper tests the wrong buffer", "expect": "C03.R1", "edits": [
        {"file": DES, "old": _CAP, "new": "            _refuse_oversized(msg_buf)\n"},
        {"file": DES, "old": "class UDPMessageDeserializer:\n",
         "new": "def _refuse_oversized(buf):\n    if len(buf) > 0x3000:\n        raise ValueError(\"Unreasonably large zerocoded message\")\n\n\n"
                "class UDPMessageDeserializer:\n"}]},
    # ------------------------------------------------------------------ wholesale copy of a zero-free prefix
    {"name": "R2 zero-free prefix copied from a search that skips the first byte", "file": SER, "expect": "C03.R2",
     "old": "        compressed_buff = bytearray()\n        zero_count = 0\n",
     "new": "        cut = data.find(b\"\\x00\", 1)\n        if cut < 0:\n            return bytearray(data)\n"
            "        compressed_buff = bytearray(data[:cut])\n        data = data[cut:]\n        zero_count = 0\n"},
    {"name": "R2 whole input copied when it merely looks short", "file": SER, "expect": "C03.R2",
     "old": "        compressed_buff = bytearray()\n        zero_count = 0\n",
     "new": "        if len(data) < 4:\n            return bytearray(data)\n        compressed_buff = bytearray()\n        zero_count = 0\n"},
    {"name": "P R2 zero-free prefix copied wholesale (search from the first byte)", "file": SER, "expect": "silent",
     "old": "        compressed_buff = bytearray()\n        zero_count = 0\n",
     "new": "        cut = data.find(b\"\\x00\")\n        if cut < 0:\n            return bytearray(data)\n"
            "        compressed_buff = bytearray(data[:cut])\n        data = data[cut:]\n        zero_count = 0\n"},
    # ------------------------------------------------------------------ declarative forms (tables, defaults, generators)
    {"name": "R1 run tails from a table that has no row for 0xFF", "expect": "C03.R1", "edits": [
        {"file": DES, "old": "class UDPMessageDeserializer:\n",
         "new": "_TAILS = [b\"\\x00\" * max(n - 1, 0) for n in range(255)]\n\n\nclass UDPMessageDeserializer:\n"},
        {"file": DES, "old": "                    zero_count = c - 1\n                    decode_buf.extend(b\"\\x00\" * zero_count)\n",
         "new": "                    decode_buf.extend(_TAILS[c])\n"}]},
    {"name": "P R1 run tails from a complete table", "expect": "silent", "edits": [
        {"file": DES, "old": "class UDPMessageDeserializer:\n",
         "new": "_TAILS = [b\"\\x00\" * max(n - 1, 0) for n in range(256)]\n\n\nclass UDPMessageDeserializer:\n"},
        {"file": DES, "old": "                    zero_count = c - 1\n                    decode_buf.extend(b\"\\x00\" * zero_count)\n",
         "new": "                    decode_buf.extend(_TAILS[c])\n"}]},
    {"name": "R1 cap is an optional parameter that defaults to no cap", "expect": "C03.R1", "edits": [
        {"file": DES, "old": "    def zero_code_expand(msg_buf: bytes):\n", "new": "    def zero_code_expand(msg_buf: bytes, limit=None):\n"},
        {"file": DES, "old": "if len(decode_buf) > 0x3000:", "new": "if limit is not None and len(decode_buf) > limit:"}]},
    {"name": "P R1 cap is an optional parameter with the cap as default", "expect": "silent", "edits": [
        {"file": DES, "old": "    def zero_code_expand(msg_buf: bytes):\n", "new": "    def zero_code_expand(msg_buf: bytes, limit: int = 0x3000):\n"},
        {"file": DES, "old": "if len(decode_buf) > 0x3000:", "new": "if len(decode_buf) > limit:"}]},
    {"name": "P R1 bytes fed through a plain generator", "file": DES, "expect": "silent",
     "old": "        for c in msg_buf:\n            if c == 0x00:\n                # Always have",
     "new": "        def _feed():\n            for b in msg_buf:\n                yield b\n\n"
            "        for c in _feed():\n            if c == 0x00:\n                # Always have"},
    {"name": "P R1 cap checked by the feeding generator after each yield", "expect": "silent", "edits": [
        {"file": DES, "old": "\n            # Well beyond what the viewer allows zerocoding to expand to\n" + _CAP, "new": ""},
        {"file": DES, "old": "        for c in msg_buf:\n            if c == 0x00:\n                # Always have",
         "new": "        def _checked():\n            for b in msg_buf:\n                yield b\n                if len(decode_buf) > 0x3000:\n"
                "                    raise ValueError(\"Unreasonably large zerocoded message\")\n\n"
                "        for c in _checked():\n            if c == 0x00:\n                # Always have"}]},
    {"name": "R1 feeding generator's after-yield check looks at the input length", "expect": "C03.R1", "edits": [
        {"file": DES, "old": "\n            # Well beyond what the viewer allows zerocoding to expand to\n" + _CAP, "new": ""},
        {"file": DES, "old": "        for c in msg_buf:\n            if c == 0x00:\n                # Always have",
         "new": "        def _checked():\n            for b in msg_buf:\n                yield b\n                if len(msg_buf) > 0x3000:\n"
                "                    raise ValueError(\"Unreasonably large zerocoded message\")\n\n"
                "        for c in _checked():\n            if c == 0x00:\n                # Always have"}]},
    {"name": "R1 generator checks the cap before handing out the next byte and the loop no longer does", "expect": "C03.R1", "edits": [
        {"file": DES, "old": "\n            # Well beyond what the viewer allows zerocoding to expand to\n" + _CAP, "new": ""},
        {"file": DES, "old": "        for c in msg_buf:\n            if c == 0x00:\n                # Always have",
         "new": "        def _guarded():\n            for b in msg_buf:\n                if len(decode_buf) > 0x3000:\n"
                "                    raise ValueError(\"Unreasonably large zerocoded message\")\n                yield b\n\n"
                "        for c in _guarded():\n            if c == 0x00:\n                # Always have"}]},
    {"name": "P R2 encoder over itertools.groupby runs with a divmod split", "expect": "silent", "edits": [
        {"file": SER, "old": "import copy\n", "new": "import copy\nimport itertools\n"},
        {"file": SER, "old": "        zero_count = 0\n\n        def _terminate_zeros():\n            nonlocal zero_count\n" + _TERMINATE +
                             "\n        for char in data:\n            if char == 0x00:\n" + _LOOP_ZERO_BRANCH +
                             "            else:\n                _terminate_zeros()\n                compressed_buff.append(char)\n\n        _terminate_zeros()\n",
         "new": "        for zeros, grp in itertools.groupby(data, lambda b: b == 0):\n            if not zeros:\n"
                "                compressed_buff.extend(grp)\n                continue\n"
                "            full, rest = divmod(len(list(grp)), 255)\n            compressed_buff.extend(b\"\\x00\\xff\" * full)\n"
                "            if rest:\n                compressed_buff.extend((0, rest))\n"}]},
    {"name": "R2 groupby encoder writes a zero remainder", "expect": "C03.R2", "edits": [
        {"file": SER, "old": "import copy\n", "new": "import copy\nimport itertools\n"},
        {"file": SER, "old": "        zero_count = 0\n\n        def _terminate_zeros():\n            nonlocal zero_count\n" + _TERMINATE +
                             "\n        for char in data:\n            if char == 0x00:\n" + _LOOP_ZERO_BRANCH +
                             "            else:\n                _terminate_zeros()\n                compressed_buff.append(char)\n\n        _terminate_zeros()\n",
         "new": "        for zeros, grp in itertools.groupby(data, lambda b: b == 0):\n            if not zeros:\n"
                "                compressed_buff.extend(grp)\n                continue\n"
                "            full, rest = divmod(len(list(grp)), 255)\n            compressed_buff.extend(b\"\\x00\\xff\" * full)\n"
                "            compressed_buff.extend((0, rest))\n"}]},
    {"name": "P R4 compressed body selected by a conditional expression at the write", "file": SER, "expect": "silent",
     "old": "            if msg.zerocoded:\n                msg_body = self.zero_code_compress(msg_body)\n            writer.write_bytes(msg_body)\n",
     "new": "            writer.write_bytes(self.zero_code_compress(msg_body) if msg.zerocoded else msg_body)\n"},
    {"name": "R3 header peek expands everything and snips afterwards", "file": DES, "expect": "C03.R3",
     "old": "            header = data[PacketLayout.PHL_NAME:16 + (msg.offset * 2)]\n            reader = se.BufferReader(\"!\", self.zero_code_expand(header))\n",
     "new": "            expanded = self.zero_code_expand(data[PacketLayout.PHL_NAME:])\n            reader = se.BufferReader(\"!\", expanded[:4 + msg.offset])\n"},
    {"name": "R1 cap from an optional argument tested by truthiness (None = no cap)", "expect": "C03.R1", "edits": [
        {"file": DES, "old": "    def zero_code_expand(msg_buf: bytes):\n", "new": "    def zero_code_expand(msg_buf: bytes, cap=None):\n"},
        {"file": DES, "old": "if len(decode_buf) > 0x3000:", "new": "if cap and len(decode_buf) > cap:"}]},
    {"name": "P R1 zero-free buffers returned by a fast path", "file": DES, "expect": "silent",
     "old": "        decode_buf = bytearray()\n        in_zero = False\n",
     "new": "        if type(msg_buf) in (bytes, bytearray) and 0 not in msg_buf and len(msg_buf) <= 0x3000:\n"
            "            return bytearray(msg_buf)\n        decode_buf = bytearray()\n        in_zero = False\n"},
    {"name": "R1 fast path returns any buffer without a zero test or length limit", "file": DES, "expect": "C03.R1",
     "old": "        decode_buf = bytearray()\n        in_zero = False\n",
     "new": "        if 0 not in msg_buf:\n            return bytearray(msg_buf)\n        decode_buf = bytearray()\n        in_zero = False\n"},
    {"name": "P R1 cap as an optional parameter with a fast path for zero-free input", "expect": "silent", "edits": [
        {"file": DES, "old": "    def zero_code_expand(msg_buf: bytes):\n        decode_buf = bytearray()\n",
         "new": "    def zero_code_expand(msg_buf: bytes, max_size: int = 0x3000):\n"
                "        if type(msg_buf) in (bytes, bytearray) and 0 not in msg_buf:\n            if len(msg_buf) > max_size:\n"
                "                raise ValueError(\"Unreasonably large zerocoded message\")\n            return bytearray(msg_buf)\n"
                "        decode_buf = bytearray()\n"},
        {"file": DES, "old": "if len(decode_buf) > 0x3000:", "new": "if len(decode_buf) > max_size:"}]},
    {"name": "R1 cap only tested where a count byte is consumed", "expect": "C03.R1", "edits": [
        {"file": DES, "old": "\n            # Well beyond what the viewer allows zerocoding to expand to\n" + _CAP, "new": ""},
        {"file": DES, "old": "                    zero_count = c - 1\n", "new": "                    zero_count = c - 1\n    " + _CAP.replace("\n", "\n    ")[:-4]}]},
    {"name": "P R3 peek window from class constants through a local alias", "expect": "silent", "edits": [
        {"file": DES, "old": "        msg_size = len(data)\n", "new": "        msg_size = len(data)\n        lay = PacketLayout\n"},
        {"file": DES, "old": "header = data[PacketLayout.PHL_NAME:16 + (msg.offset * 2)]", "new": "header = data[lay.PHL_NAME:16 + (msg.offset * 2)]"}]},
    # ------------------------------------------------------------------ documented limits
    {"name": "X decoder run arithmetic off by one (value-level)", "file": DES, "expect": "miss",
     "old": "zero_count = c - 1", "new": "zero_count = c"},
    {"name": "X decoder continuation adds 256 instead of 255 (value-level)", "file": DES, "expect": "miss",
     "old": 'decode_buf.extend(b"\\x00" * 255)', "new": 'decode_buf.extend(b"\\x00" * 256)'},
]
