"""Self-test corpus for C04: text edits on a scratch overlay (never on /repo)."""
CIRC = "hippolyzer/lib/proxy/circuit.py"
PROXY = "hippolyzer/lib/proxy/lludp_proxy.py"
SESS = "hippolyzer/lib/proxy/sessions.py"
SOCKS = "hippolyzer/lib/proxy/socks_proxy.py"
SERM = "hippolyzer/lib/base/message/udpserializer.py"

_EVICT = ("        if len(self.injections) == self.injections.maxlen:\n"
          "            # ID is about to fall off, old enough we can just add\n"
          "            # it to the base for all Packet ID corrections.\n"
          "            self._injection_base += 1\n")
_INV_LOOP = ("        for packet_id in reversed(self.injections):\n"
             "            # Injected after this packet, doesn't affect its ID. Can't bail out here,\n"
             "            # we're walking newest to oldest and older injections still count.\n"
             "            if packet_id > new_id:\n"
             "                continue\n"
             "            new_id -= 1\n")

VARIANTS = [
    # ------------------------------------------------------------------ R1 breaking
    {"name": "R1 injected IDs pushed on the left", "file": CIRC, "expect": "C04.R1",
     "old": "self.injections.append(new_id)", "new": "self.injections.appendleft(new_id)"},
    {"name": "R1 track_seen moves the base unconditionally", "file": CIRC, "expect": "C04.R1",
     "old": "        if orig_id > self._packet_id_base:\n            self._packet_id_base = orig_id\n        elif oldest_tracked > orig_id:",
     "new": "        self._packet_id_base = orig_id\n        if oldest_tracked > orig_id:"},
    {"name": "R1 injected ID re-uses the newest seen ID", "file": CIRC, "expect": "C04.R1",
     "old": "new_id = self._packet_id_base + 1", "new": "new_id = self._packet_id_base"},
    {"name": "R1 injected ID not fed back into the base", "file": CIRC, "expect": "C04.R1",
     "old": "        self.track_seen(new_id)\n        return new_id", "new": "        return new_id"},
    {"name": "R1 was_injected prunes the deque", "file": CIRC, "expect": "C04.R1",
     "old": "        return packet_id in self.injections", "new": "        found = packet_id in self.injections\n        if found:\n"
            "            self.injections.remove(packet_id)\n        return found"},
    # ------------------------------------------------------------------ R1 preserving
    {"name": "P R1 rename the allocated ID local", "expect": "silent", "edits": [
        {"file": CIRC, "old": "new_id = self._packet_id_base + 1", "new": "injected_id = self._packet_id_base + 1"},
        {"file": CIRC, "old": "self.injections.append(new_id)", "new": "self.injections.append(injected_id)"},
        {"file": CIRC, "old": "        self.track_seen(new_id)\n        return new_id", "new": "        self.track_seen(injected_id)\n        return injected_id"}]},
    {"name": "P R1 base advanced with max()", "file": CIRC, "expect": "silent",
     "old": "        if orig_id > self._packet_id_base:\n            self._packet_id_base = orig_id\n        elif oldest_tracked > orig_id:",
     "new": "        if oldest_tracked > orig_id:\n            logging.warning(f\"Received VERY old packet ID {orig_id}\")\n"
            "        self._packet_id_base = max(self._packet_id_base, orig_id)\n        if False:"},
    # ------------------------------------------------------------------ R2 breaking
    {"name": "R2 newest-first walk stops at the first newer injection (D4)", "file": CIRC, "expect": "C04.R2",
     "old": "            if packet_id > new_id:\n                continue\n", "new": "            if packet_id > new_id:\n                break\n"},
    {"name": "R2 forward walk stops on a smaller element", "file": CIRC, "expect": "C04.R2",
     "old": "if new_id < packet_id and new_id not in self.injections:", "new": "if new_id > packet_id and new_id not in self.injections:"},
    {"name": "R2 forward walk reversed but still stops on a larger element", "file": CIRC, "expect": "C04.R2",
     "old": "        for packet_id in self.injections:\n", "new": "        for packet_id in reversed(self.injections):\n"},
    {"name": "R2 forward walk stops on an order-unrelated test", "file": CIRC, "expect": "C04.R2",
     "old": "if new_id < packet_id and new_id not in self.injections:", "new": "if new_id not in self.injections:"},
    # ------------------------------------------------------------------ R2 preserving
    {"name": "P R2 inverse rewritten oldest-first, stopping at the first newer injection", "file": CIRC, "expect": "silent",
     "old": _INV_LOOP,
     "new": "        for packet_id in self.injections:\n            if packet_id > effective_id:\n                break\n            new_id -= 1\n"},
    {"name": "P R2 inverse counts first and subtracts once", "file": CIRC, "expect": "silent",
     "old": "        new_id = effective_id\n" + _INV_LOOP,
     "new": "        shift = 0\n        for packet_id in self.injections:\n            if packet_id > effective_id:\n                break\n"
            "            shift += 1\n        new_id = effective_id - shift\n"},
    # ------------------------------------------------------------------ R3 breaking
    {"name": "R3 forward translation forgets the carry", "file": CIRC, "expect": "C04.R3",
     "old": "new_id = orig_id + self._injection_base", "new": "new_id = orig_id"},
    {"name": "R3 inverse early-out skips the carry (seed 2)", "file": CIRC, "expect": "C04.R3",
     "old": "        new_id = effective_id\n        for packet_id in reversed(self.injections):",
     "new": "        if not self.injections or effective_id < self.injections[0]:\n            return effective_id\n\n"
            "        new_id = effective_id\n        for packet_id in reversed(self.injections):"},
    {"name": "R3 inverse adds the carry", "file": CIRC, "expect": "C04.R3",
     "old": "new_id -= self._injection_base", "new": "new_id += self._injection_base"},
    {"name": "R3 forward steps two per injection", "file": CIRC, "expect": "C04.R3", "old": "new_id += 1", "new": "new_id += 2"},
    {"name": "R3 carry applied twice in the inverse", "file": CIRC, "expect": "C04.R3",
     "old": "        new_id = effective_id\n        for packet_id in reversed", "new": "        new_id = effective_id - self._injection_base\n        for packet_id in reversed"},
    {"name": "R3 inverse returns the unshifted ID", "file": CIRC, "expect": "C04.R3",
     "old": "            logging.debug(\"Orig corrected %d -> %d\" % (effective_id, new_id))\n        return new_id",
     "new": "            logging.debug(\"Orig corrected %d -> %d\" % (effective_id, new_id))\n        return effective_id"},
    # ------------------------------------------------------------------ R3 preserving
    {"name": "P R3 carry read into a local first", "file": CIRC, "expect": "silent",
     "old": "new_id = orig_id + self._injection_base", "new": "carry = self._injection_base\n        new_id = orig_id + carry"},
    {"name": "P R3 carry subtracted with a plain assignment", "file": CIRC, "expect": "silent",
     "old": "new_id -= self._injection_base", "new": "new_id = new_id - self._injection_base"},
    # ------------------------------------------------------------------ R4 breaking
    {"name": "R4 carry grows on every injection", "file": CIRC, "expect": "C04.R4", "old": _EVICT, "new": "        self._injection_base += 1\n"},
    {"name": "R4 fullness tested after the append", "file": CIRC, "expect": "C04.R4",
     "old": _EVICT + "        self.injections.append(new_id)\n", "new": "        self.injections.append(new_id)\n" + _EVICT},
    {"name": "R4 fullness tested one element early", "file": CIRC, "expect": "C04.R4",
     "old": "if len(self.injections) == self.injections.maxlen:", "new": "if len(self.injections) == self.injections.maxlen - 1:"},
    {"name": "R4 deque no longer bounded", "file": CIRC, "expect": "C04.R4",
     "old": "self.injections: deque[int] = deque(maxlen=maxlen)", "new": "self.injections: deque[int] = deque()"},
    {"name": "R4 eviction not carried at all", "file": CIRC, "expect": "C04.R4", "old": _EVICT, "new": ""},
    {"name": "R4 carry grows only for even IDs", "file": CIRC, "expect": "C04.R4",
     "old": "if len(self.injections) == self.injections.maxlen:", "new": "if len(self.injections) == self.injections.maxlen and new_id % 2 == 0:"},
    # ------------------------------------------------------------------ R4 preserving
    {"name": "P R4 fullness tested against the stored maxlen", "file": CIRC, "expect": "silent",
     "old": "if len(self.injections) == self.injections.maxlen:", "new": "if len(self.injections) >= self._maxlen:"},
    {"name": "P R4 comparison mirrored", "file": CIRC, "expect": "silent",
     "old": "if len(self.injections) == self.injections.maxlen:", "new": "if self.injections.maxlen == len(self.injections):"},
    # ------------------------------------------------------------------ R5
    {"name": "R5 retransmissions are translated but not tracked", "file": CIRC, "expect": "C04.R5",
     "old": "            fwd_injections.track_seen(message.packet_id)\n",
     "new": "            if not message.resent:\n                fwd_injections.track_seen(message.packet_id)\n"},
    {"name": "R5 the endpoint's own ID is tracked instead of the wire ID", "file": CIRC, "expect": "C04.R5",
     "old": "            message.packet_id = fwd_injections.get_effective_id(message.packet_id)\n            fwd_injections.track_seen(message.packet_id)\n",
     "new": "            fwd_injections.track_seen(message.packet_id)\n            message.packet_id = fwd_injections.get_effective_id(message.packet_id)\n"},
    {"name": "R5 wire ID tracked on the reverse tracker", "file": CIRC, "expect": "C04.R5",
     "old": "            fwd_injections.track_seen(message.packet_id)\n", "new": "            reverse_injections.track_seen(message.packet_id)\n"},
    {"name": "P R5 wire ID computed into a local first", "file": CIRC, "expect": "silent",
     "old": "            message.packet_id = fwd_injections.get_effective_id(message.packet_id)\n            fwd_injections.track_seen(message.packet_id)\n",
     "new": "            wire_id = fwd_injections.get_effective_id(message.packet_id)\n            message.packet_id = wire_id\n"
            "            fwd_injections.track_seen(wire_id)\n"},
    {"name": "P R5 tracking moved after the ack rewrite", "expect": "silent", "edits": [
        {"file": CIRC, "old": "            fwd_injections.track_seen(message.packet_id)\n", "new": ""},
        {"file": CIRC, "old": "            if message.name == \"PacketAck\":\n                if not self._rewrite_packet_ack",
         "new": "            fwd_injections.track_seen(message.packet_id)\n            if message.name == \"PacketAck\":\n                if not self._rewrite_packet_ack"}]},
    # ------------------------------------------------------------------ helpers taking the deque as an argument
    {"name": "P R2/R3 forward walk moved into a module-level helper", "expect": "silent", "edits": [
        {"file": CIRC, "old": "        new_id = orig_id + self._injection_base\n        for packet_id in self.injections:\n"
                              "            if new_id < packet_id and new_id not in self.injections:\n                break\n            new_id += 1\n",
         "new": "        new_id = _walk_forward(self.injections, orig_id + self._injection_base)\n"},
        {"file": CIRC, "old": "class InjectionTracker:\n",
         "new": "def _walk_forward(tracked, first_id):\n    cur = first_id\n    for inj in tracked:\n        if cur < inj and cur not in tracked:\n"
                "            break\n        cur += 1\n    return cur\n\n\nclass InjectionTracker:\n"}]},
    {"name": "R2 helper walks newest-first but stops on a larger element", "expect": "C04.R2", "edits": [
        {"file": CIRC, "old": "        new_id = orig_id + self._injection_base\n        for packet_id in self.injections:\n"
                              "            if new_id < packet_id and new_id not in self.injections:\n                break\n            new_id += 1\n",
         "new": "        new_id = _walk_forward(self.injections, orig_id + self._injection_base)\n"},
        {"file": CIRC, "old": "class InjectionTracker:\n",
         "new": "def _walk_forward(tracked, first_id):\n    cur = first_id\n    for inj in reversed(tracked):\n        if cur < inj and cur not in tracked:\n"
                "            break\n        cur += 1\n    return cur\n\n\nclass InjectionTracker:\n"}]},
    {"name": "R3 helper-based forward walk called without the carry", "expect": "C04.R3", "edits": [
        {"file": CIRC, "old": "        new_id = orig_id + self._injection_base\n        for packet_id in self.injections:\n"
                              "            if new_id < packet_id and new_id not in self.injections:\n                break\n            new_id += 1\n",
         "new": "        new_id = _walk_forward(self.injections, orig_id)\n"},
        {"file": CIRC, "old": "class InjectionTracker:\n",
         "new": "def _walk_forward(tracked, first_id):\n    cur = first_id\n    for inj in tracked:\n        if cur < inj and cur not in tracked:\n"
                "            break\n        cur += 1\n    return cur\n\n\nclass InjectionTracker:\n"}]},
    # ------------------------------------------------------------------ running operand / total base update
    {"name": "R2 inverse walks oldest-first but compares with the running value", "file": CIRC, "expect": "C04.R2",
     "old": _INV_LOOP,
     "new": "        for packet_id in self.injections:\n            if packet_id > new_id:\n                break\n            new_id -= 1\n"},
    {"name": "R2 forward walks newest-first comparing with the running value", "file": CIRC, "expect": "C04.R2",
     "old": "        for packet_id in self.injections:\n            if new_id < packet_id and new_id not in self.injections:\n                break\n",
     "new": "        for packet_id in reversed(self.injections):\n            if new_id < packet_id and new_id not in self.injections:\n                continue\n"},
    {"name": "R1 base not advanced for IDs far ahead", "file": CIRC, "expect": "C04.R1",
     "old": "        if orig_id > self._packet_id_base:\n            self._packet_id_base = orig_id\n",
     "new": "        if orig_id > self._packet_id_base and orig_id - self._packet_id_base < self._maxlen:\n            self._packet_id_base = orig_id\n"},
    {"name": "P R1 base update behind a guard clause", "file": CIRC, "expect": "silent",
     "old": "        if orig_id > self._packet_id_base:\n            self._packet_id_base = orig_id\n        elif oldest_tracked > orig_id:\n"
            "            logging.warning(f\"Received VERY old packet ID {orig_id}, likely generated invalid ID.\")\n",
     "new": "        if orig_id <= self._packet_id_base:\n            if oldest_tracked > orig_id:\n"
            "                logging.warning(f\"Received VERY old packet ID {orig_id}, likely generated invalid ID.\")\n            return\n"
            "        self._packet_id_base = orig_id\n"},
    {"name": "P R1 the two exclusive branches of track_seen swapped", "file": CIRC, "expect": "silent",
     "old": "        if orig_id > self._packet_id_base:\n            self._packet_id_base = orig_id\n        elif oldest_tracked > orig_id:\n"
            "            logging.warning(f\"Received VERY old packet ID {orig_id}, likely generated invalid ID.\")\n",
     "new": "        if oldest_tracked > orig_id:\n"
            "            logging.warning(f\"Received VERY old packet ID {orig_id}, likely generated invalid ID.\")\n"
            "        elif orig_id > self._packet_id_base:\n            self._packet_id_base = orig_id\n"},
    {"name": "R1 base advanced only for IDs less than 1000 ahead", "file": CIRC, "expect": "C04.R1",
     "old": "        if orig_id > self._packet_id_base:\n            self._packet_id_base = orig_id\n",
     "new": "        if orig_id > self._packet_id_base and orig_id - self._packet_id_base < 1000:\n            self._packet_id_base = orig_id\n"},
    {"name": "R1 base advanced only past the plausibility window's far edge", "file": CIRC, "expect": "C04.R1",
     "old": "        if orig_id > self._packet_id_base:\n            self._packet_id_base = orig_id\n",
     "new": "        if orig_id > self._packet_id_base + self._maxlen:\n            pass\n        elif orig_id > self._packet_id_base:\n"
            "            self._packet_id_base = orig_id\n"},
    # ------------------------------------------------------------------ comprehension forms of the walks
    {"name": "P R2/R3 forward walk as next() over an enumerate generator", "file": CIRC, "expect": "silent",
     "old": "        new_id = orig_id + self._injection_base\n        for packet_id in self.injections:\n            if new_id < packet_id and new_id not in self.injections:\n                break\n            new_id += 1\n",
     "new": "        start = orig_id + self._injection_base\n        new_id = next((cand for n, inj in enumerate(self.injections)\n"
            "                       if (cand := start + n) < inj and cand not in self.injections), start + len(self.injections))\n"},
    {"name": "R2 next() over the reversed deque leaves on a larger element", "file": CIRC, "expect": "C04.R2",
     "old": "        new_id = orig_id + self._injection_base\n        for packet_id in self.injections:\n            if new_id < packet_id and new_id not in self.injections:\n                break\n            new_id += 1\n",
     "new": "        start = orig_id + self._injection_base\n        new_id = next((cand for n, inj in enumerate(reversed(self.injections))\n"
            "                       if (cand := start + n) < inj and cand not in self.injections), start + len(self.injections))\n"},
    {"name": "R3 next()-based forward walk steps two per skipped injection", "file": CIRC, "expect": "C04.R3",
     "old": "        new_id = orig_id + self._injection_base\n        for packet_id in self.injections:\n            if new_id < packet_id and new_id not in self.injections:\n                break\n            new_id += 1\n",
     "new": "        start = orig_id + self._injection_base\n        new_id = next((cand for n, inj in enumerate(self.injections)\n"
            "                       if (cand := start + 2 * n) < inj and cand not in self.injections), start + len(self.injections))\n"},
    # ------------------------------------------------------------------ R6 finalized before the rewrite
    {"name": "R6 message finalized only at the return points", "expect": "C04.R6", "edits": [
        {"file": CIRC, "old": "        message.finalized = True\n\n        # Injected, let's gen an ID\n", "new": "        # Injected, let's gen an ID\n"},
        {"file": CIRC, "old": "            message.send_flags &= ~PacketFlags.ACK\n        return True\n",
         "new": "            message.send_flags &= ~PacketFlags.ACK\n        message.finalized = True\n        return True\n"}]},
    {"name": "R6 message finalized after the ID rewrite", "expect": "C04.R6", "edits": [
        {"file": CIRC, "old": "        message.finalized = True\n\n        # Injected, let's gen an ID\n", "new": "        # Injected, let's gen an ID\n"},
        {"file": CIRC, "old": "            fwd_injections.track_seen(message.packet_id)\n",
         "new": "            fwd_injections.track_seen(message.packet_id)\n            message.finalized = True\n"}]},
    {"name": "P R6 finalized set right after the guards, before looking up the trackers", "expect": "silent", "edits": [
        {"file": CIRC, "old": "        message.finalized = True\n\n        # Injected, let's gen an ID\n", "new": "        # Injected, let's gen an ID\n"},
        {"file": CIRC, "old": "        fwd_injections, reverse_injections = self._get_injections(message.direction)\n\n        # Injected",
         "new": "        message.finalized = True\n        fwd_injections, reverse_injections = self._get_injections(message.direction)\n\n        # Injected"}]},
    {"name": "P R6 finalized set in a finally around the rewrite", "expect": "silent", "edits": [
        {"file": CIRC, "old": "        message.finalized = True\n\n        # Injected, let's gen an ID\n        if message.packet_id is None:\n"
                              "            message.packet_id = fwd_injections.gen_injectable_id()\n            message.synthetic = True\n",
         "new": "        # Injected, let's gen an ID\n        if message.packet_id is None:\n            try:\n"
                "                message.packet_id = fwd_injections.gen_injectable_id()\n            finally:\n"
                "                message.finalized = True\n            message.synthetic = True\n"},
        {"file": CIRC, "old": "        elif not message.synthetic:\n", "new": "        elif not message.synthetic:\n            message.finalized = True\n"}]},
    # ------------------------------------------------------------------ R7 nothing goes around / outlives the trackers
    {"name": "R7 unparseable datagrams relayed through the base class", "file": PROXY, "expect": "C04.R7",
     "old": "        message = self.deserializer.deserialize(packet.data)\n        message.direction = packet.direction\n",
     "new": "        try:\n            message = self.deserializer.deserialize(packet.data)\n        except ValueError:\n"
            "            return super().handle_proxied_packet(packet)\n        message.direction = packet.direction\n"},
    {"name": "R7 live circuit torn down and rebuilt on request", "file": SESS, "expect": "C04.R7",
     "old": "            if region.circuit_addr == circuit_addr:\n                if not region.circuit or not region.circuit.is_alive:",
     "new": "            if region.circuit_addr == circuit_addr:\n                if region.circuit and region.circuit.is_alive and transport is not None:\n"
            "                    region.circuit.disconnect()\n                if not region.circuit or not region.circuit.is_alive:"},
    {"name": "R7 circuit rebuilt unconditionally", "file": SESS, "expect": "C04.R7",
     "old": "                if not region.circuit or not region.circuit.is_alive:\n                    logging_hook = None",
     "new": "                if True:\n                    logging_hook = None"},
    {"name": "P R7 dead circuit cleaned up before it is replaced", "file": SESS, "expect": "silent",
     "old": "                if not region.circuit or not region.circuit.is_alive:\n                    logging_hook = None",
     "new": "                if not region.circuit or not region.circuit.is_alive:\n                    if region.circuit and not region.circuit.is_alive:\n"
            "                        region.circuit.disconnect()\n                    logging_hook = None"},
    {"name": "P R1/R2/R4 deque read through a local alias and a fullness property", "expect": "silent", "edits": [
        {"file": CIRC, "old": "        if len(self.injections) == self.injections.maxlen:\n", "new": "        if self._full:\n"},
        {"file": CIRC, "old": "    def gen_injectable_id(self) -> int:\n",
         "new": "    @property\n    def _full(self):\n        return len(self.injections) == self.injections.maxlen\n\n    def gen_injectable_id(self) -> int:\n"},
        {"file": CIRC, "old": "        for packet_id in reversed(self.injections):\n", "new": "        tracked = self.injections\n        for packet_id in reversed(tracked):\n"}]},
    {"name": "R7 base relay falls back to the plain pass-through when handling fails", "file": SOCKS, "expect": "C04.R7",
     "old": "            logging.exception(\"Barfed while handling UDP packet!\")\n            raise\n",
     "new": "            logging.exception(\"Barfed while handling UDP packet!\")\n            UDPProxyProtocol.handle_proxied_packet(self, src_packet)\n"},
    {"name": "R7 session marks a live circuit dead by hand", "file": SESS, "expect": "C04.R7",
     "old": "            if region.circuit_addr == circuit_addr:\n                if not region.circuit or not region.circuit.is_alive:",
     "new": "            if region.circuit_addr == circuit_addr:\n                if region.circuit and transport is None:\n"
            "                    region.circuit.is_alive = False\n                if not region.circuit or not region.circuit.is_alive:"},
    {"name": "R7 serializer returns bytes kept from the received datagram", "file": SERM, "expect": "C04.R7",
     "old": "        raw_body = msg.raw_body\n        if raw_body is not None:",
     "new": "        raw_body = msg.raw_body\n        if raw_body is not None and not msg.acks and msg.meta.get(\"wire\"):\n"
            "            return msg.meta[\"wire\"]\n        if raw_body is not None:"},
    {"name": "P R7 serializer returns the written buffer through a local", "file": SERM, "expect": "silent",
     "old": "        return writer.copy_buffer()\n", "new": "        out = writer\n        return out.copy_buffer()\n"},
    {"name": "R5 stand-in PacketAck sent under the endpoint's own ID (revert of 01b307f)", "file": CIRC, "expect": "C04.R5",
     "old": "            wire_id = fwd_injections.get_effective_id(message.packet_id)\n            fwd_injections.track_seen(wire_id)\n"
            "            self.send_acks(effective_acks, message.direction, packet_id=wire_id)\n",
     "new": "            self.send_acks(effective_acks, message.direction, packet_id=message.packet_id)\n"},
    {"name": "R5 stand-in PacketAck translated but not tracked", "file": CIRC, "expect": "C04.R5",
     "old": "            fwd_injections.track_seen(wire_id)\n            self.send_acks(", "new": "            self.send_acks("},
    {"name": "P R5 stand-in wire ID local renamed", "expect": "silent", "edits": [
        {"file": CIRC, "old": "            wire_id = fwd_injections.get_effective_id(message.packet_id)\n            fwd_injections.track_seen(wire_id)\n",
         "new": "            standin_id = fwd_injections.get_effective_id(message.packet_id)\n            fwd_injections.track_seen(standin_id)\n"},
        {"file": CIRC, "old": "packet_id=wire_id)", "new": "packet_id=standin_id)"}]},
    {"name": "P R3 identity fast path while nothing was ever injected", "expect": "silent", "edits": [
        {"file": CIRC, "old": "        new_id = orig_id + self._injection_base\n",
         "new": "        if self._pristine():\n            return orig_id\n        new_id = orig_id + self._injection_base\n"},
        {"file": CIRC, "old": "    def was_injected(self, packet_id: int):",
         "new": "    def _pristine(self):\n        return not self.injections and self._injection_base == 0\n\n    def was_injected(self, packet_id: int):"}]},
    {"name": "R3 identity fast path that only checks the deque (evicted injections forgotten)", "file": CIRC, "expect": "C04.R3",
     "old": "        new_id = orig_id + self._injection_base\n",
     "new": "        if not self.injections:\n            return orig_id\n        new_id = orig_id + self._injection_base\n"},
    {"name": "P R4 fullness asked of a predicate method", "expect": "silent", "edits": [
        {"file": CIRC, "old": "        if len(self.injections) == self.injections.maxlen:\n", "new": "        if self._window_is_full():\n"},
        {"file": CIRC, "old": "    def gen_injectable_id(self) -> int:\n",
         "new": "    def _window_is_full(self):\n        return len(self.injections) == self.injections.maxlen\n\n    def gen_injectable_id(self) -> int:\n"}]},
    # ------------------------------------------------------------------ documented limits
    {"name": "X forward shift boundary < -> <= (value-level)", "file": CIRC, "expect": "miss",
     "old": "if new_id < packet_id and new_id not in self.injections:", "new": "if new_id <= packet_id and new_id not in self.injections:"},
    {"name": "X forward fast path with an off-by-one boundary (seed 1, value-level)", "file": CIRC, "expect": "miss",
     "old": "        new_id = orig_id + self._injection_base\n",
     "new": "        new_id = orig_id + self._injection_base\n        if new_id + len(self.injections) >= self._packet_id_base:\n"
            "            return new_id + len(self.injections)\n"},
]
