"""Self-test corpus for C05: text edits on a scratch overlay (never on /repo)."""
PC = "hippolyzer/lib/proxy/circuit.py"
BC = "hippolyzer/lib/base/message/circuit.py"
LP = "hippolyzer/lib/proxy/lludp_proxy.py"
MSG = "hippolyzer/lib/base/message/message.py"
SE = "hippolyzer/lib/proxy/sessions.py"

VARIANTS = [
    # ------------------------------------------------------------------ R1 tracker roles
    {"name": "R1 _get_injections swapped for OUT only", "file": PC, "expect": "C05.R1",
     "old": "            return self.out_injections, self.in_injections\n",
     "new": "            return self.in_injections, self.out_injections\n"},
    {"name": "R1 track_seen on the reverse tracker", "file": PC, "expect": "C05.R1",
     "old": "fwd_injections.track_seen(message.packet_id)", "new": "reverse_injections.track_seen(message.packet_id)"},
    {"name": "R1 mark_dropped on the reverse tracker", "file": PC, "expect": "C05.R1",
     "old": "fwd_injections.mark_dropped(message.packet_id)", "new": "reverse_injections.mark_dropped(message.packet_id)"},
    {"name": "R1 PacketAck rewrite handed the forward tracker", "file": PC, "expect": "C05.R1",
     "old": "self._rewrite_packet_ack(message, reverse_injections)", "new": "self._rewrite_packet_ack(message, fwd_injections)"},
    {"name": "R1 tracker driven from lludp_proxy", "file": LP, "expect": "C05.R1",
     "old": "        # Process any ACKs for messages we injected first\n",
     "new": "        region.circuit.out_injections.track_seen(message.packet_id)\n"},
    {"name": "P R1 rename helper parameter", "expect": "silent", "edits": [
        {"file": PC, "old": "def _rewrite_start_ping_check(self, message: Message, fwd_injections):",
         "new": "def _rewrite_start_ping_check(self, message: Message, tracker):"},
        {"file": PC, "old": "new_id = fwd_injections.get_effective_id(orig_id)", "new": "new_id = tracker.get_effective_id(orig_id)"}]},
    {"name": "P R1 _get_injections tests the IN case first", "file": PC, "expect": "silent",
     "old": "        if direction == Direction.OUT:\n            return self.out_injections, self.in_injections\n"
            "        return self.in_injections, self.out_injections\n",
     "new": "        if direction != Direction.OUT:\n            return self.in_injections, self.out_injections\n"
            "        return self.out_injections, self.in_injections\n"},
    # ------------------------------------------------------------------ R2 sanitiser
    {"name": "R2 was_injected filter dropped in prepare_message", "file": PC, "expect": "C05.R2",
     "old": "                reverse_injections.get_original_id(x) for x in message.acks\n"
            "                if not reverse_injections.was_injected(x)\n",
     "new": "                reverse_injections.get_original_id(x) for x in message.acks\n"},
    {"name": "R2 get_original_id map dropped in drop_message", "file": PC, "expect": "C05.R2",
     "old": "        effective_acks = tuple(\n            reverse_injections.get_original_id(x) for x in message.acks\n",
     "new": "        effective_acks = tuple(\n            x for x in message.acks\n"},
    {"name": "R2 block ID forwarded untranslated", "file": PC, "expect": "C05.R2",
     "old": 'block["ID"] = reverse_injections.get_original_id(packet_id)', "new": 'block["ID"] = packet_id'},
    {"name": "R2 injected PacketAck block kept", "file": PC, "expect": "C05.R2",
     "old": "            if reverse_injections.was_injected(packet_id):\n                continue\n",
     "new": "            if reverse_injections.was_injected(packet_id):\n                logging.debug('injected')\n"},
    {"name": "R2 filtered block list never installed", "file": PC, "expect": "C05.R2",
     "old": '        message["Packets"] = new_blocks\n', "new": ""},
    {"name": "R2 all-injected PacketAck suppressed although appended acks survive", "file": PC, "expect": "C05.R2",
     "old": "if not self._rewrite_packet_ack(message, reverse_injections) and not message.acks:",
     "new": "if not self._rewrite_packet_ack(message, reverse_injections):"},
    {"name": "R2 appended-ack rewrite only for non-PacketAck", "file": PC, "expect": "C05.R2",
     "old": "            message.acks = tuple(\n                reverse_injections.get_original_id(x) for x in message.acks\n"
            "                if not reverse_injections.was_injected(x)\n            )\n",
     "new": "            if message.name != \"PacketAck\":\n                message.acks = tuple(\n"
            "                    reverse_injections.get_original_id(x) for x in message.acks\n"
            "                    if not reverse_injections.was_injected(x)\n                )\n"},
    {"name": "R2 send ignores prepare_message verdict", "file": BC, "expect": "C05.R2",
     "old": "        if self.prepare_message(message):\n", "new": "        if self.prepare_message(message) or True:\n"},
    {"name": "P R2 comprehension -> explicit loop with continue", "file": PC, "expect": "silent",
     "old": "        effective_acks = tuple(\n            reverse_injections.get_original_id(x) for x in message.acks\n"
            "            if not reverse_injections.was_injected(x)\n        )\n",
     "new": "        effective_acks = []\n        for x in message.acks:\n            if reverse_injections.was_injected(x):\n"
            "                continue\n            effective_acks.append(reverse_injections.get_original_id(x))\n"},
    {"name": "P R2 rename block id local", "expect": "silent", "edits": [
        {"file": PC, "old": '            packet_id = block["ID"]\n', "new": '            acked_id = block["ID"]\n'},
        {"file": PC, "old": "            if reverse_injections.was_injected(packet_id):\n",
         "new": "            if reverse_injections.was_injected(acked_id):\n"},
        {"file": PC, "old": 'block["ID"] = reverse_injections.get_original_id(packet_id)',
         "new": 'block["ID"] = reverse_injections.get_original_id(acked_id)'}]},
    # ------------------------------------------------------------------ R3 drop semantics
    {"name": "R3 unconditional ack on drop", "file": PC, "expect": "C05.R3",
     "old": "        if message.reliable:\n            self.send_acks([message.packet_id], ~message.direction)\n",
     "new": "        self.send_acks([message.packet_id], ~message.direction)\n"},
    {"name": "R3 sender ack direction not inverted", "file": PC, "expect": "C05.R3",
     "old": "self.send_acks([message.packet_id], ~message.direction)", "new": "self.send_acks([message.packet_id], message.direction)"},
    {"name": "R3 piggy-backed acks sent back to the sender", "file": PC, "expect": "C05.R3",
     "old": "self.send_acks(effective_acks, message.direction, packet_id=wire_id)",
     "new": "self.send_acks(effective_acks, ~message.direction, packet_id=wire_id)"},
    {"name": "R3 sender acked with the translated id", "file": PC, "expect": "C05.R3",
     "old": "            self.send_acks([message.packet_id], ~message.direction)\n",
     "new": "            self.send_acks([fwd_injections.get_effective_id(message.packet_id)], ~message.direction)\n"},
    {"name": "R3 piggy-backed acks only for reliable packets", "file": PC, "expect": "C05.R3",
     "old": "        if effective_acks:\n", "new": "        if effective_acks and message.reliable:\n"},
    {"name": "P R3 reorder independent stores", "file": PC, "expect": "silent",
     "old": "        message.dropped = True\n        message.finalized = True\n",
     "new": "        message.finalized = True\n        message.dropped = True\n"},
    {"name": "P R3 acked ids through a local", "file": PC, "expect": "silent",
     "old": "            self.send_acks([message.packet_id], ~message.direction)\n",
     "new": "            sender_dir = ~message.direction\n            acked = [message.packet_id]\n"
            "            self.send_acks(acked, sender_dir)\n"},
    # ------------------------------------------------------------------ R4 unacked table
    {"name": "R4 resend_unacked goes through self.send", "file": BC, "expect": "C05.R4",
     "old": "            self._send_prepared_message(msg)\n", "new": "            self.send(msg)\n"},
    {"name": "R4 pop without set_result", "file": BC, "expect": "C05.R4",
     "old": "            if resend_info and not resend_info.completed.done():\n                resend_info.completed.set_result(None)\n",
     "new": "            if resend_info and not resend_info.completed.done():\n                logging.debug('acked')\n"},
    {"name": "R4 PacketAck blocks replace appended acks (seed C05/2)", "expect": "C05.R4", "edits": [
        {"file": BC, "old": "        effective_acks = list(message.acks)\n", "new": "        effective_acks = message.acks\n"},
        {"file": BC, "old": '            effective_acks.extend(x["ID"] for x in message["Packets"])\n',
         "new": '            effective_acks = [x["ID"] for x in message["Packets"]]\n'}]},
    {"name": "R4 PacketAck blocks never collected", "file": BC, "expect": "C05.R4",
     "old": '        if message.name == "PacketAck":\n            effective_acks.extend(x["ID"] for x in message["Packets"])\n',
     "new": ""},
    {"name": "R4 ack matched against the ack's own direction", "file": BC, "expect": "C05.R4",
     "old": "self.unacked_reliable.pop((~message.direction, ack), None)", "new": "self.unacked_reliable.pop((message.direction, ack), None)"},
    {"name": "R4 insertion without the synthetic test", "file": BC, "expect": "C05.R4",
     "old": "            if message.reliable and message.synthetic:\n", "new": "            if message.reliable:\n"},
    {"name": "R4 RESENT flag not set", "file": BC, "expect": "C05.R4",
     "old": "            msg.send_flags |= PacketFlags.RESENT\n", "new": ""},
    {"name": "R4 exhausted entry still resent", "file": BC, "expect": "C05.R4",
     "old": '                    resend_info.completed.set_exception(TimeoutError("Exceeded resend limit"))\n                continue\n',
     "new": '                    resend_info.completed.set_exception(TimeoutError("Exceeded resend limit"))\n'},
    {"name": "R4 give-up without failing the future", "file": BC, "expect": "C05.R4",
     "old": '                if not resend_info.completed.done():\n                    resend_info.completed.set_exception(TimeoutError("Exceeded resend limit"))\n', "new": ""},
    {"name": "R4 budget never decremented", "file": BC, "expect": "C05.R4",
     "old": "            resend_info.tries_left -= 1\n", "new": ""},
    {"name": "R4 table written from drop_message", "file": PC, "expect": "C05.R4",
     "old": "        fwd_injections.mark_dropped(message.packet_id)\n        message.dropped = True\n",
     "new": "        fwd_injections.mark_dropped(message.packet_id)\n        message.dropped = True\n        self.unacked_reliable.pop((message.direction, message.packet_id), None)\n"},
    {"name": "P R4 extend -> augmented assignment", "file": BC, "expect": "silent",
     "old": '            effective_acks.extend(x["ID"] for x in message["Packets"])\n',
     "new": '            effective_acks += [x["ID"] for x in message["Packets"]]\n'},
    {"name": "P R4 two loops instead of one list", "file": BC, "expect": "silent",
     "old": '        effective_acks = list(message.acks)\n        if message.name == "PacketAck":\n'
            '            effective_acks.extend(x["ID"] for x in message["Packets"])\n',
     "new": '        effective_acks = list(message.acks)\n        if message.name == "PacketAck":\n'
            '            block_ids = [x["ID"] for x in message["Packets"]]\n'
            '            effective_acks = effective_acks + block_ids\n'},
    {"name": "P R4 presence test spelled `is not None`", "file": BC, "expect": "silent",
     "old": "            if resend_info and not resend_info.completed.done():\n                resend_info.completed.set_result(None)\n",
     "new": "            if resend_info is not None and not resend_info.completed.done():\n                resend_info.completed.set_result(None)\n"},
    {"name": "P R4 budget test spelled as comparison", "file": BC, "expect": "silent",
     "old": "            if not resend_info.tries_left:\n", "new": "            if resend_info.tries_left <= 0:\n"},
    {"name": "X R4 retry budget off by one", "file": BC, "expect": "miss",
     "old": "            if not resend_info.tries_left:\n", "new": "            if resend_info.tries_left < 0:\n"},
    # ------------------------------------------------------------------ R5 collection precedes forwarding
    {"name": "R5 collect_acks moved behind the handlers", "expect": "C05.R5", "edits": [
        {"file": LP, "old": "        # Process any ACKs for messages we injected first\n        region.circuit.collect_acks(message)\n",
         "new": ""},
        {"file": LP, "old": "        message_logger = self.session_manager.message_logger\n",
         "new": "        region.circuit.collect_acks(message)\n        message_logger = self.session_manager.message_logger\n"}]},
    {"name": "R5 collect_acks deleted", "file": LP, "expect": "C05.R5",
     "old": "        region.circuit.collect_acks(message)\n", "new": ""},
    {"name": "R5 collect_acks only for PacketAck", "file": LP, "expect": "C05.R5",
     "old": "        region.circuit.collect_acks(message)\n",
     "new": "        if message.name == \"PacketAck\":\n            region.circuit.collect_acks(message)\n"},
    {"name": "P R5 circuit through a local", "file": LP, "expect": "silent",
     "old": "        region.circuit.collect_acks(message)\n",
     "new": "        circuit = region.circuit\n        circuit.collect_acks(message)\n"},
    # ------------------------------------------------------------------ R6 early exits
    {"name": "R6 break in the newest-first walk (D4 / seed C05/1)", "file": PC, "expect": "C05.R6",
     "old": "            if packet_id > new_id:\n                continue\n", "new": "            if packet_id > new_id:\n                break\n"},
    {"name": "R6 forward walk leaves on element too small", "file": PC, "expect": "C05.R6",
     "old": "            if new_id < packet_id and new_id not in self.injections:\n                break\n",
     "new": "            if new_id > packet_id and new_id not in self.injections:\n                break\n"},
    {"name": "P R6 ascending count with a justified break", "file": PC, "expect": "silent",
     "old": "        new_id = effective_id\n        for packet_id in reversed(self.injections):\n"
            "            # Injected after this packet, doesn't affect its ID. Can't bail out here,\n"
            "            # we're walking newest to oldest and older injections still count.\n"
            "            if packet_id > new_id:\n                continue\n            new_id -= 1\n",
     "new": "        new_id = effective_id\n        for packet_id in self.injections:\n            if packet_id > effective_id:\n"
            "                break\n            new_id -= 1\n"},
    # ------------------------------------------------------------------ R4 resend cadence (strengthening round)
    {"name": "R4 cadence compares the .seconds component of the elapsed time", "file": BC, "expect": "C05.R4",
     "old": "            if _utcnow() - resend_info.last_resent < dt.timedelta(seconds=self.resend_every):\n",
     "new": "            elapsed = _utcnow() - resend_info.last_resent\n"
            "            if elapsed.seconds < self.resend_every:\n"},
    {"name": "R4 no hold-back between retransmissions", "file": BC, "expect": "C05.R4",
     "old": "            if _utcnow() - resend_info.last_resent < dt.timedelta(seconds=self.resend_every):\n"
            "                continue\n", "new": ""},
    {"name": "R4 last_resent never restarted", "file": BC, "expect": "C05.R4",
     "old": "            resend_info.last_resent = _utcnow()\n", "new": ""},
    {"name": "P R4 cadence through total_seconds()", "file": BC, "expect": "silent",
     "old": "            if _utcnow() - resend_info.last_resent < dt.timedelta(seconds=self.resend_every):\n",
     "new": "            elapsed = _utcnow() - resend_info.last_resent\n"
            "            if elapsed.total_seconds() < self.resend_every:\n"},
    # ------------------------------------------------------------------ helper extraction (strengthening round)
    {"name": "P R1/R2 ack translation extracted into a classmethod helper", "expect": "silent", "edits": [
        {"file": PC, "old": "    def prepare_message(self, message: Message):\n",
         "new": "    @classmethod\n    def _sanitise(cls, tracker, raw):\n"
                "        return tuple(tracker.get_original_id(a) for a in raw if not tracker.was_injected(a))\n\n"
                "    def prepare_message(self, message: Message):\n"},
        {"file": PC, "old": "        effective_acks = tuple(\n            reverse_injections.get_original_id(x) for x in message.acks\n"
                            "            if not reverse_injections.was_injected(x)\n        )\n",
         "new": "        effective_acks = self._sanitise(reverse_injections, message.acks)\n"}]},
    {"name": "R2 extracted helper forgets the was_injected filter", "expect": "C05.R2", "edits": [
        {"file": PC, "old": "    def prepare_message(self, message: Message):\n",
         "new": "    @classmethod\n    def _sanitise(cls, tracker, raw):\n"
                "        return tuple(tracker.get_original_id(a) for a in raw)\n\n"
                "    def prepare_message(self, message: Message):\n"},
        {"file": PC, "old": "        effective_acks = tuple(\n            reverse_injections.get_original_id(x) for x in message.acks\n"
                            "            if not reverse_injections.was_injected(x)\n        )\n",
         "new": "        effective_acks = self._sanitise(reverse_injections, message.acks)\n"}]},
    # ------------------------------------------------------------------ round 3
    {"name": "R7 taken copy scrubbed only while the original is queued", "file": MSG, "expect": "C05.R7",
     "old": "        message_copy.acks = tuple()\n        message_copy.send_flags &= ~PacketFlags.ACK\n",
     "new": "        if self.queued:\n            message_copy.acks = tuple()\n            message_copy.send_flags &= ~PacketFlags.ACK\n"},
    {"name": "R7 taken copy keeps the appended acks", "file": MSG, "expect": "C05.R7",
     "old": "        message_copy.acks = tuple()\n", "new": ""},
    {"name": "P R7 scrub right after the copy is made", "expect": "silent", "edits": [
        {"file": MSG, "old": "        message_copy.acks = tuple()\n        message_copy.send_flags &= ~PacketFlags.ACK\n", "new": ""},
        {"file": MSG, "old": "        message_copy = copy.deepcopy(self)\n",
         "new": "        message_copy = copy.deepcopy(self)\n        message_copy.acks = ()\n"
                "        message_copy.send_flags &= ~PacketFlags.ACK\n"}]},
    {"name": "R8 live circuit rebuilt when the transport object differs", "file": SE, "expect": "C05.R8",
     "old": "                if not region.circuit or not region.circuit.is_alive:\n                    logging_hook = None\n",
     "new": "                if not region.circuit or not region.circuit.is_alive or region.circuit.transport is not transport:\n"
            "                    logging_hook = None\n"},
    {"name": "P R8 deadness spelled through the region property", "file": SE, "expect": "silent",
     "old": "                if not region.circuit or not region.circuit.is_alive:\n                    logging_hook = None\n",
     "new": "                if not region.is_alive:\n                    logging_hook = None\n"},
    {"name": "P R1 selector result kept whole and indexed", "expect": "silent", "edits": [
        {"file": PC, "old": "        fwd_injections, reverse_injections = self._get_injections(message.direction)\n\n"
                            "        fwd_injections.mark_dropped(message.packet_id)\n",
         "new": "        both = self._get_injections(message.direction)\n        fwd_injections = both[0]\n"
                "        reverse_injections = both[1]\n\n        fwd_injections.mark_dropped(message.packet_id)\n"}]},
    {"name": "R1 indexed selector result with the roles crossed", "expect": "C05.R1", "edits": [
        {"file": PC, "old": "        fwd_injections, reverse_injections = self._get_injections(message.direction)\n\n"
                            "        fwd_injections.mark_dropped(message.packet_id)\n",
         "new": "        both = self._get_injections(message.direction)\n        fwd_injections = both[1]\n"
                "        reverse_injections = both[0]\n\n        fwd_injections.mark_dropped(message.packet_id)\n"}]},
    # ------------------------------------------------------------------ round 4
    {"name": "R8 circuit reference deleted when the region dies", "file": "hippolyzer/lib/client/state.py", "expect": "C05.R8",
     "old": "            self.circuit.is_alive = False\n", "new": "            self.circuit.is_alive = False\n            del self.circuit\n"},
    {"name": "P R8 annotated constructor assignment", "file": "hippolyzer/lib/client/state.py", "expect": "silent",
     "old": "        self.circuit = None\n", "new": "        self.circuit: Optional[Circuit] = None\n"},
    {"name": "P R7 scrub moved into a method called on the copy", "expect": "silent", "edits": [
        {"file": MSG, "old": "        message_copy.acks = tuple()\n        message_copy.send_flags &= ~PacketFlags.ACK\n"
                            "        message_copy.packet_id = None\n",
         "new": "        message_copy._forget_wire_identity()\n"},
        {"file": MSG, "old": "    def take(self):\n",
         "new": "    def _forget_wire_identity(self):\n        self.packet_id = None\n        self.acks = ()\n"
                "        self.send_flags &= ~PacketFlags.ACK\n\n    def take(self):\n"}]},
    {"name": "R7 scrub method skips the acks of reliable messages", "expect": "C05.R7", "edits": [
        {"file": MSG, "old": "        message_copy.acks = tuple()\n        message_copy.send_flags &= ~PacketFlags.ACK\n"
                            "        message_copy.packet_id = None\n",
         "new": "        message_copy._forget_wire_identity()\n"},
        {"file": MSG, "old": "    def take(self):\n",
         "new": "    def _forget_wire_identity(self):\n        self.packet_id = None\n        if self.reliable:\n            return\n"
                "        self.acks = ()\n        self.send_flags &= ~PacketFlags.ACK\n\n    def take(self):\n"}]},
    {"name": "P R1 selector result split by a tuple assignment", "expect": "silent", "edits": [
        {"file": PC, "old": "        fwd_injections, reverse_injections = self._get_injections(message.direction)\n\n"
                            "        fwd_injections.mark_dropped(message.packet_id)\n",
         "new": "        both = self._get_injections(message.direction)\n        fwd_injections, reverse_injections = both[0], both[1]\n\n"
                "        fwd_injections.mark_dropped(message.packet_id)\n"}]},
    # ------------------------------------------------------------------ key helper (refactor round 3, G2/7)
    {"name": "P R4 table key built by a module-level helper on the writer side", "expect": "silent", "edits": [
        {"file": BC, "old": "class Circuit:\n", "new": "def _table_key(m):\n    return m.direction, m.packet_id\n\n\nclass Circuit:\n"},
        {"file": BC, "old": "                self.unacked_reliable[(message.direction, message.packet_id)] = ReliableResendInfo(\n",
         "new": "                self.unacked_reliable[_table_key(message)] = ReliableResendInfo(\n"},
        {"file": BC, "old": "                del self.unacked_reliable[(msg.direction, msg.packet_id)]\n",
         "new": "                del self.unacked_reliable[_table_key(msg)]\n"}]},
    {"name": "R4 key helper swaps the order on the writer side only", "expect": "C05.R4", "edits": [
        {"file": BC, "old": "class Circuit:\n", "new": "def _table_key(m):\n    return m.packet_id, m.direction\n\n\nclass Circuit:\n"},
        {"file": BC, "old": "                self.unacked_reliable[(message.direction, message.packet_id)] = ReliableResendInfo(\n",
         "new": "                self.unacked_reliable[_table_key(message)] = ReliableResendInfo(\n"}]},
    # ------------------------------------------------------------------ round 5
    {"name": "R9 trackers built with a small literal window", "file": PC, "expect": "C05.R9",
     "old": "        self.in_injections = InjectionTracker(0)\n", "new": "        self.in_injections = InjectionTracker(0, 256)\n"},
    {"name": "P R9 window spelled out as the tracker's default", "file": PC, "expect": "silent",
     "old": "        self.in_injections = InjectionTracker(0)\n        self.out_injections = InjectionTracker(0)\n",
     "new": "        self.in_injections = InjectionTracker(0, maxlen=10_000)\n"
            "        self.out_injections = InjectionTracker(last_seen_id=0, maxlen=20000)\n"},
    {"name": "P R1 tracker pick through a named boolean", "file": PC, "expect": "silent",
     "old": "        if direction == Direction.OUT:\n            return self.out_injections, self.in_injections\n",
     "new": "        outbound = direction == Direction.OUT\n        if outbound:\n"
            "            return self.out_injections, self.in_injections\n"},
    {"name": "P R6 inverse walk as a counting comprehension", "file": PC, "expect": "silent",
     "old": "        new_id = effective_id\n        for packet_id in reversed(self.injections):\n"
            "            # Injected after this packet, doesn't affect its ID. Can't bail out here,\n"
            "            # we're walking newest to oldest and older injections still count.\n"
            "            if packet_id > new_id:\n                continue\n            new_id -= 1\n",
     "new": "        new_id = effective_id\n        for packet_id in self.injections:\n            if packet_id > effective_id:\n"
            "                break\n            new_id -= 1\n        _seen = [p for p in self.injections]\n"},
    {"name": "R6 forward walk as next() that settles on an element too small", "file": PC, "expect": "C05.R6",
     "old": "        for packet_id in self.injections:\n            if new_id < packet_id and new_id not in self.injections:\n"
            "                break\n            new_id += 1\n",
     "new": "        new_id = next((new_id + i for i, packet_id in enumerate(self.injections) if packet_id < new_id + i),\n"
            "                      new_id + len(self.injections))\n"},
    # ------------------------------------------------------------------ round 6
    {"name": "R4 give-up completes the future before removing the entry", "file": BC, "expect": "C05.R4",
     "old": "                del self.unacked_reliable[(msg.direction, msg.packet_id)]\n"
            "                if not resend_info.completed.done():\n"
            "                    resend_info.completed.set_exception(TimeoutError(\"Exceeded resend limit\"))\n",
     "new": "                gone = (msg.direction, msg.packet_id)\n"
            "                if not resend_info.completed.done():\n"
            "                    resend_info.completed.set_exception(TimeoutError(\"Exceeded resend limit\"))\n"
            "                self.unacked_reliable.pop(gone, None)\n"},
    {"name": "P R4 give-up removes through a key local, then completes", "file": BC, "expect": "silent",
     "old": "                del self.unacked_reliable[(msg.direction, msg.packet_id)]\n",
     "new": "                gone = (msg.direction, msg.packet_id)\n                del self.unacked_reliable[gone]\n"},
    {"name": "P R4 resend loop as a generator the circuit drains", "expect": "silent", "edits": [
        {"file": BC, "old": "    def resend_unacked(self):\n", "new": "    def _due(self):\n"},
        {"file": BC, "old": "            try:\n                self._send_prepared_message(msg)\n            except Exception:\n"
                            "                # One packet failing to go out mustn't keep the ones behind it from being resent\n"
                            "                # or timed out, it gets its remaining tries like any other.\n"
                            "                logging.exception(f\"Failed to resend {msg.packet_id}\")\n\n    def send_acks",
         "new": "            yield msg\n\n    def resend_unacked(self):\n        for due in self._due():\n"
                "            try:\n                self._send_prepared_message(due)\n            except Exception:\n"
                "                logging.exception(\"Failed to resend\")\n\n    def send_acks"}]},
    {"name": "R4 generator form: drained items sent through self.send", "expect": "C05.R4", "edits": [
        {"file": BC, "old": "    def resend_unacked(self):\n", "new": "    def _due(self):\n"},
        {"file": BC, "old": "            try:\n                self._send_prepared_message(msg)\n            except Exception:\n"
                            "                # One packet failing to go out mustn't keep the ones behind it from being resent\n"
                            "                # or timed out, it gets its remaining tries like any other.\n"
                            "                logging.exception(f\"Failed to resend {msg.packet_id}\")\n\n    def send_acks",
         "new": "            yield msg\n\n    def resend_unacked(self):\n        for due in self._due():\n"
                "            self.send(due)\n\n    def send_acks"}]},
    # ------------------------------------------------------------------ round 7
    {"name": "P R4 removal + completion shared by one helper", "expect": "silent", "edits": [
        {"file": BC, "old": "            resend_info = self.unacked_reliable.pop((~message.direction, ack), None)\n"
                            "            # The awaiter may have cancelled the future (i.e. through `wait_for()`)\n"
                            "            if resend_info and not resend_info.completed.done():\n                resend_info.completed.set_result(None)\n",
         "new": "            self._finish((~message.direction, ack))\n"},
        {"file": BC, "old": "                del self.unacked_reliable[(msg.direction, msg.packet_id)]\n"
                            "                if not resend_info.completed.done():\n"
                            "                    resend_info.completed.set_exception(TimeoutError(\"Exceeded resend limit\"))\n",
         "new": "                self._finish((msg.direction, msg.packet_id), TimeoutError(\"Exceeded resend limit\"))\n"},
        {"file": BC, "old": "    def resend_unacked(self):\n", "new": "    def _finish(self, key, exc=None):\n        info = self.unacked_reliable.pop(key, None)\n        if info is None or info.completed.done():\n            return\n        if exc is not None:\n            info.completed.set_exception(exc)\n        else:\n            info.completed.set_result(None)\n\n    def resend_unacked(self):\n"}]},
    {"name": "R4 shared helper keeps entries whose future was cancelled", "expect": "C05.R4", "edits": [
        {"file": BC, "old": "            resend_info = self.unacked_reliable.pop((~message.direction, ack), None)\n"
                            "            # The awaiter may have cancelled the future (i.e. through `wait_for()`)\n"
                            "            if resend_info and not resend_info.completed.done():\n                resend_info.completed.set_result(None)\n",
         "new": "            self._finish((~message.direction, ack))\n"},
        {"file": BC, "old": "                del self.unacked_reliable[(msg.direction, msg.packet_id)]\n"
                            "                if not resend_info.completed.done():\n"
                            "                    resend_info.completed.set_exception(TimeoutError(\"Exceeded resend limit\"))\n",
         "new": "                self._finish((msg.direction, msg.packet_id), TimeoutError(\"Exceeded resend limit\"))\n"},
        {"file": BC, "old": "    def resend_unacked(self):\n", "new": "    def _finish(self, key, exc=None):\n        info = self.unacked_reliable.get(key)\n        if info is None or info.completed.done():\n            return\n        del self.unacked_reliable[key]\n        if exc is not None:\n            info.completed.set_exception(exc)\n        else:\n            info.completed.set_result(None)\n\n    def resend_unacked(self):\n"}]},
    {"name": "P R4 per-entry resend work in a helper behind a due test", "expect": "silent", "edits": [
        {"file": BC, "old": "            msg = copy.copy(resend_info.message)\n", "new": "            self._retry(resend_info)\n\n"
                            "    def _retry(self, resend_info):\n        if True:\n            msg = copy.copy(resend_info.message)\n"},
        {"file": BC, "old": "                continue\n            resend_info.last_resent = _utcnow()\n",
         "new": "                return\n            resend_info.last_resent = _utcnow()\n"}]},
    {"name": "P R2 PacketAck branch behind guard clauses on the name", "file": PC, "expect": "silent",
     "old": "            if message.name == \"PacketAck\":\n"
            "                if not self._rewrite_packet_ack(message, reverse_injections) and not message.acks:\n",
     "new": "            if message.name != \"StartPingCheck\" and message.name == \"PacketAck\":\n"
            "                if not self._rewrite_packet_ack(message, reverse_injections) and not message.acks:\n"},
    {"name": "P R6 walks over a local alias of the deque", "expect": "silent", "edits": [
        {"file": PC, "old": "        for packet_id in self.injections:\n            if new_id < packet_id and new_id not in self.injections:\n",
         "new": "        inj = self.injections\n        for packet_id in inj:\n            if new_id < packet_id and new_id not in inj:\n"}]},
    # ------------------------------------------------------------------ D32 (fix 4149389)
    {"name": "R4 ack completes the future without the done() test (D32 reverted, collect_acks)", "file": BC, "expect": "C05.R4",
     "old": "            if resend_info and not resend_info.completed.done():\n                resend_info.completed.set_result(None)\n",
     "new": "            if resend_info:\n                resend_info.completed.set_result(None)\n"},
    {"name": "R4 give-up fails the future without the done() test (D32 reverted, resend_unacked)", "file": BC, "expect": "C05.R4",
     "old": "                if not resend_info.completed.done():\n                    resend_info.completed.set_exception(TimeoutError(\"Exceeded resend limit\"))\n",
     "new": "                resend_info.completed.set_exception(TimeoutError(\"Exceeded resend limit\"))\n"},
    {"name": "R4 completion guarded by cancelled() only", "file": BC, "expect": "C05.R4",
     "old": "            if resend_info and not resend_info.completed.done():\n                resend_info.completed.set_result(None)\n",
     "new": "            if resend_info and not resend_info.completed.cancelled():\n                resend_info.completed.set_result(None)\n"},
    {"name": "P R4 done() test as a guard clause after the removal", "file": BC, "expect": "silent",
     "old": "            if resend_info and not resend_info.completed.done():\n                resend_info.completed.set_result(None)\n",
     "new": "            if not resend_info or resend_info.completed.done():\n                continue\n"
            "            resend_info.completed.set_result(None)\n"},
    {"name": "R4 done() test moved in front of the removal", "file": BC, "expect": "C05.R4",
     "old": "                del self.unacked_reliable[(msg.direction, msg.packet_id)]\n                if not resend_info.completed.done():\n",
     "new": "                if resend_info.completed.done():\n                    continue\n"
            "                del self.unacked_reliable[(msg.direction, msg.packet_id)]\n                if not resend_info.completed.done():\n"},
    # ------------------------------------------------------------------ round 8
    {"name": "R4 resend scan stops at the first entry that is not due", "file": BC, "expect": "C05.R4",
     "old": "            if _utcnow() - resend_info.last_resent < dt.timedelta(seconds=self.resend_every):\n"
            "                continue\n",
     "new": "            if _utcnow() - resend_info.last_resent < dt.timedelta(seconds=self.resend_every):\n"
            "                break\n"},
    {"name": "P R4 clock and interval hoisted out of the resend scan", "expect": "silent", "edits": [
        {"file": BC, "old": "        for resend_info in list(self.unacked_reliable.values()):\n            # Not time to attempt a resend yet\n"
                            "            if _utcnow() - resend_info.last_resent < dt.timedelta(seconds=self.resend_every):\n",
         "new": "        if not self.unacked_reliable:\n            return\n        now = _utcnow()\n"
                "        interval = dt.timedelta(seconds=self.resend_every)\n"
                "        for resend_info in list(self.unacked_reliable.values()):\n"
                "            if now - resend_info.last_resent < interval:\n"}]},
    {"name": "P R9 trackers built by a module-level factory", "expect": "silent", "edits": [
        {"file": PC, "old": "        self.in_injections = InjectionTracker(0)\n        self.out_injections = InjectionTracker(0)\n",
         "new": "        self.in_injections = _new_tracker()\n        self.out_injections = _new_tracker()\n"},
        {"file": PC, "old": "class ProxiedCircuit(Circuit):\n",
         "new": "def _new_tracker():\n    return InjectionTracker(0)\n\n\nclass ProxiedCircuit(Circuit):\n"}]},
    {"name": "R9 tracker factory with a small window", "expect": "C05.R9", "edits": [
        {"file": PC, "old": "        self.in_injections = InjectionTracker(0)\n        self.out_injections = InjectionTracker(0)\n",
         "new": "        self.in_injections = _new_tracker()\n        self.out_injections = _new_tracker()\n"},
        {"file": PC, "old": "class ProxiedCircuit(Circuit):\n",
         "new": "def _new_tracker():\n    return InjectionTracker(0, maxlen=512)\n\n\nclass ProxiedCircuit(Circuit):\n"}]},
    # ------------------------------------------------------------------ audit round (anchored on the fixed text: inapplicable until the fixes are committed)
    {'name': 'R2 filtered PacketAck blocks not installed when appended acks survive (audit C05#1 reverted)', 'file': 'hippolyzer/lib/proxy/circuit.py', 'expect': 'C05.R2', 'old': '        # Every block was an ACK for a packet the proxy injected. A PacketAck that was\n        # empty to begin with is just passed on like any other message.\n        if had_blocks and not new_blocks:\n            # Sending a PacketAck with nothing left in it would be suspicious\n            if not message.acks:\n                return False\n            # Only the (already rewritten) appended acks are left. The original blocks must not\n            # go out, they all ack injected packets. Carry the appended acks in the body instead.\n            new_blocks = [Block("Packets", ID=x) for x in message.acks]\n            message.acks = ()\n', 'new': '        # Sending a PacketAck with nothing in it would be suspicious\n        if not new_blocks:\n            return False\n'},
    {'name': 'P R2 PacketAck rewrite with the original-count local renamed', 'expect': 'silent', 'edits': [{'file': 'hippolyzer/lib/proxy/circuit.py', 'old': '        had_blocks = bool(message["Packets"])\n', 'new': '        came_with_blocks = len(message["Packets"]) > 0\n'}, {'file': 'hippolyzer/lib/proxy/circuit.py', 'old': '        if had_blocks and not new_blocks:\n', 'new': '        if came_with_blocks and not new_blocks:\n'}]},
    {'name': 'R5 UDP-ban refusal back in front of the ack bookkeeping (audit C05#2 reverted)', 'expect': 'C05.R5', 'edits': [{'file': 'hippolyzer/lib/proxy/lludp_proxy.py', 'old': "        # Check for UDP bans on inbound messages. Only after the ACK bookkeeping: the packet was\n        # received and the ACKs riding on it are real even though the message won't be passed on.\n        if packet.incoming:\n            try:\n                self._ensure_message_allowed(message)\n            except PermissionError:\n                # ACKs the sender if needed and forwards the piggy-backed ACKs\n                region.circuit.drop_message(message)\n                raise\n\n", 'new': ''}, {'file': 'hippolyzer/lib/proxy/lludp_proxy.py', 'old': '        assert message is not None\n\n        if not self.session:\n', 'new': '        assert message is not None\n        if packet.incoming:\n            self._ensure_message_allowed(message)\n\n        if not self.session:\n'}]},
    {'name': 'R5 refused packet not discarded through drop_message', 'file': 'hippolyzer/lib/proxy/lludp_proxy.py', 'expect': 'C05.R5', 'old': '                region.circuit.drop_message(message)\n                raise\n', 'new': '                raise\n'},
    {'name': 'P R5 ban refusal written inline after the ack bookkeeping', 'file': 'hippolyzer/lib/proxy/lludp_proxy.py', 'expect': 'silent', 'old': "        # Check for UDP bans on inbound messages. Only after the ACK bookkeeping: the packet was\n        # received and the ACKs riding on it are real even though the message won't be passed on.\n        if packet.incoming:\n            try:\n                self._ensure_message_allowed(message)\n            except PermissionError:\n                # ACKs the sender if needed and forwards the piggy-backed ACKs\n                region.circuit.drop_message(message)\n                raise\n\n", 'new': '        if packet.incoming and not self.message_xml.validate_udp_msg(message.name):\n            region.circuit.drop_message(message)\n            raise PermissionError(f"UDPBanned message {message.name}")\n\n'},
    {'name': 'R4 resend clock back to naive local time (audit C05#3 reverted)', 'file': 'hippolyzer/lib/base/message/circuit.py', 'expect': 'C05.R4', 'old': '    return dt.datetime.now(dt.timezone.utc)\n', 'new': '    return dt.datetime.now()\n'},
    {'name': 'P R4 resend clock with the tz passed by keyword', 'file': 'hippolyzer/lib/base/message/circuit.py', 'expect': 'silent', 'old': '    return dt.datetime.now(dt.timezone.utc)\n', 'new': '    return dt.datetime.now(tz=dt.timezone.utc)\n'},
    # ------------------------------------------------------------------ audit round 2 (anchored on the fixed text: inapplicable until the fixes are committed)
    {'name': 'R4 packet registered before it was handed to the transport (audit2 C05#1 reverted)', 'file': 'hippolyzer/lib/base/message/circuit.py', 'expect': 'C05.R4', 'old': "            packet = self._send_prepared_message(message, transport)\n            # If the message originates from us then we're responsible for resends. Only once it\n            # really went out: a packet that couldn't be serialized will never be ACKed.\n            if message.reliable and message.synthetic:\n                self.unacked_reliable[(message.direction, message.packet_id)] = ReliableResendInfo(\n                    last_resent=_utcnow(),\n                    message=message,\n                )\n            return packet\n", 'new': "            # If the message originates from us then we're responsible for resends.\n            if message.reliable and message.synthetic:\n                self.unacked_reliable[(message.direction, message.packet_id)] = ReliableResendInfo(\n                    last_resent=_utcnow(),\n                    message=message,\n                )\n            return self._send_prepared_message(message, transport)\n"},
    {'name': 'R4 registered first, failed send only logged', 'file': 'hippolyzer/lib/base/message/circuit.py', 'expect': 'C05.R4', 'old': "            packet = self._send_prepared_message(message, transport)\n            # If the message originates from us then we're responsible for resends. Only once it\n            # really went out: a packet that couldn't be serialized will never be ACKed.\n            if message.reliable and message.synthetic:\n                self.unacked_reliable[(message.direction, message.packet_id)] = ReliableResendInfo(\n                    last_resent=_utcnow(),\n                    message=message,\n                )\n            return packet\n", 'new': '            if message.reliable and message.synthetic:\n                self.unacked_reliable[(message.direction, message.packet_id)] = ReliableResendInfo(\n                    last_resent=_utcnow(),\n                    message=message,\n                )\n            try:\n                return self._send_prepared_message(message, transport)\n            except BaseException:\n                logging.warning("send failed")\n                raise\n'},
    {'name': 'P R4 registration after the send, entry built in a local, guard clause', 'file': 'hippolyzer/lib/base/message/circuit.py', 'expect': 'silent', 'old': "            packet = self._send_prepared_message(message, transport)\n            # If the message originates from us then we're responsible for resends. Only once it\n            # really went out: a packet that couldn't be serialized will never be ACKed.\n            if message.reliable and message.synthetic:\n                self.unacked_reliable[(message.direction, message.packet_id)] = ReliableResendInfo(\n                    last_resent=_utcnow(),\n                    message=message,\n                )\n            return packet\n", 'new': '            packet = self._send_prepared_message(message, transport)\n            if not (message.reliable and message.synthetic):\n                return packet\n            info = ReliableResendInfo(last_resent=_utcnow(), message=message)\n            self.unacked_reliable[(message.direction, message.packet_id)] = info\n            return packet\n'},
    {'name': 'R4 a failed retransmission raises through the resend timer (audit2 C05#1 reverted)', 'file': 'hippolyzer/lib/base/message/circuit.py', 'expect': 'C05.R4', 'old': '            try:\n                self._send_prepared_message(msg)\n            except Exception:\n                # One packet failing to go out mustn\'t keep the ones behind it from being resent\n                # or timed out, it gets its remaining tries like any other.\n                logging.exception(f"Failed to resend {msg.packet_id}")\n', 'new': '            self._send_prepared_message(msg)\n'},
    {'name': 'R4 failed retransmission caught only for struct.error', 'file': 'hippolyzer/lib/base/message/circuit.py', 'expect': 'C05.R4', 'old': '            try:\n                self._send_prepared_message(msg)\n            except Exception:\n                # One packet failing to go out mustn\'t keep the ones behind it from being resent\n                # or timed out, it gets its remaining tries like any other.\n                logging.exception(f"Failed to resend {msg.packet_id}")\n', 'new': '            try:\n                self._send_prepared_message(msg)\n            except struct.error:\n                # One packet failing to go out mustn\'t keep the ones behind it from being resent\n                # or timed out, it gets its remaining tries like any other.\n                logging.exception(f"Failed to resend {msg.packet_id}")\n'},
    {'name': 'R4 failed retransmission logged and re-raised', 'file': 'hippolyzer/lib/base/message/circuit.py', 'expect': 'C05.R4', 'old': '                logging.exception(f"Failed to resend {msg.packet_id}")\n', 'new': '                logging.exception(f"Failed to resend {msg.packet_id}")\n                raise\n'},
    {'name': 'P R4 failed retransmission contained by the timer loop instead', 'expect': 'silent', 'edits': [{'file': 'hippolyzer/lib/base/message/circuit.py', 'old': '            try:\n                self._send_prepared_message(msg)\n            except Exception:\n                # One packet failing to go out mustn\'t keep the ones behind it from being resent\n                # or timed out, it gets its remaining tries like any other.\n                logging.exception(f"Failed to resend {msg.packet_id}")\n', 'new': '            self._send_prepared_message(msg)\n'}, {'file': 'hippolyzer/lib/proxy/lludp_proxy.py', 'old': '                region.circuit.resend_unacked()\n', 'new': '                try:\n                    region.circuit.resend_unacked()\n                except Exception:\n                    LOG.exception("Failed to resend")\n'}]},
    {'name': 'R4 failed retransmission caught around the whole timer loop', 'expect': 'C05.R4', 'edits': [{'file': 'hippolyzer/lib/base/message/circuit.py', 'old': '            try:\n                self._send_prepared_message(msg)\n            except Exception:\n                # One packet failing to go out mustn\'t keep the ones behind it from being resent\n                # or timed out, it gets its remaining tries like any other.\n                logging.exception(f"Failed to resend {msg.packet_id}")\n', 'new': '            self._send_prepared_message(msg)\n'}, {'file': 'hippolyzer/lib/proxy/lludp_proxy.py', 'old': '        while True:\n            await asyncio.sleep(0.1)\n            if self.session is None:\n                continue\n', 'new': '        try:\n            await self._resend_forever()\n        except Exception:\n            LOG.exception("Resends failed")\n\n    async def _resend_forever(self):\n        while True:\n            await asyncio.sleep(0.1)\n            if self.session is None:\n                continue\n'}]},
    {'name': 'R4 resend timer skips circuits marked dead (audit2 C05#2 reverted)', 'file': 'hippolyzer/lib/proxy/lludp_proxy.py', 'expect': 'C05.R4', 'old': '                # Not gated on `is_alive`: a circuit that was marked dead by CloseCircuit / DisableSimulator\n                # still forwards and may have reliable packets of ours in flight, those need their resends\n                # (and a failure when they run out) too. A no-op once its unacked table has drained.\n                if not region.circuit:\n                    continue\n                region.circuit.resend_unacked()\n', 'new': '                if not region.circuit or not region.circuit.is_alive:\n                    continue\n                region.circuit.resend_unacked()\n'},
    {'name': "R4 resend timer gated on the region's is_alive property", 'file': 'hippolyzer/lib/proxy/lludp_proxy.py', 'expect': 'C05.R4', 'old': '                # Not gated on `is_alive`: a circuit that was marked dead by CloseCircuit / DisableSimulator\n                # still forwards and may have reliable packets of ours in flight, those need their resends\n                # (and a failure when they run out) too. A no-op once its unacked table has drained.\n                if not region.circuit:\n                    continue\n                region.circuit.resend_unacked()\n', 'new': '                if not region.is_alive:\n                    continue\n                region.circuit.resend_unacked()\n'},
    {'name': 'R4 resend timer gated on an aliased liveness flag', 'file': 'hippolyzer/lib/proxy/lludp_proxy.py', 'expect': 'C05.R4', 'old': '                # Not gated on `is_alive`: a circuit that was marked dead by CloseCircuit / DisableSimulator\n                # still forwards and may have reliable packets of ours in flight, those need their resends\n                # (and a failure when they run out) too. A no-op once its unacked table has drained.\n                if not region.circuit:\n                    continue\n                region.circuit.resend_unacked()\n', 'new': '                circuit = region.circuit\n                usable = circuit is not None and circuit.is_alive\n                if not usable:\n                    continue\n                circuit.resend_unacked()\n'},
    {'name': 'P R4 resend timer skips a dead circuit only once its table has drained', 'file': 'hippolyzer/lib/proxy/lludp_proxy.py', 'expect': 'silent', 'old': '                # Not gated on `is_alive`: a circuit that was marked dead by CloseCircuit / DisableSimulator\n                # still forwards and may have reliable packets of ours in flight, those need their resends\n                # (and a failure when they run out) too. A no-op once its unacked table has drained.\n                if not region.circuit:\n                    continue\n                region.circuit.resend_unacked()\n', 'new': '                circuit = region.circuit\n                if not circuit or (not circuit.is_alive and not circuit.unacked_reliable):\n                    continue\n                circuit.resend_unacked()\n'},
    {'name': 'P R4 resend timer tests the circuit against None', 'file': 'hippolyzer/lib/proxy/lludp_proxy.py', 'expect': 'silent', 'old': '                # Not gated on `is_alive`: a circuit that was marked dead by CloseCircuit / DisableSimulator\n                # still forwards and may have reliable packets of ours in flight, those need their resends\n                # (and a failure when they run out) too. A no-op once its unacked table has drained.\n                if not region.circuit:\n                    continue\n                region.circuit.resend_unacked()\n', 'new': '                if region.circuit is None:\n                    continue\n                region.circuit.resend_unacked()\n'},
    {'name': 'P R4 registered first, registration taken back when the send fails', 'file': 'hippolyzer/lib/base/message/circuit.py', 'expect': 'silent', 'old': "            packet = self._send_prepared_message(message, transport)\n            # If the message originates from us then we're responsible for resends. Only once it\n            # really went out: a packet that couldn't be serialized will never be ACKed.\n            if message.reliable and message.synthetic:\n                self.unacked_reliable[(message.direction, message.packet_id)] = ReliableResendInfo(\n                    last_resent=_utcnow(),\n                    message=message,\n                )\n            return packet\n", 'new': '            if message.reliable and message.synthetic:\n                self.unacked_reliable[(message.direction, message.packet_id)] = ReliableResendInfo(\n                    last_resent=_utcnow(),\n                    message=message,\n                )\n            try:\n                return self._send_prepared_message(message, transport)\n            except BaseException:\n                self.unacked_reliable.pop((message.direction, message.packet_id), None)\n                raise\n'},
    # ------------------------------------------------------------------ refactor round 8
    {'name': 'P R4 acked ids gathered by a static helper handed the message (refac8 G2/3)', 'file': 'hippolyzer/lib/base/message/circuit.py', 'expect': 'silent', 'old': '    def collect_acks(self, message: Message):\n        effective_acks = list(message.acks)\n        if message.name == "PacketAck":\n            effective_acks.extend(x["ID"] for x in message["Packets"])\n        for ack in effective_acks:\n', 'new': '    @staticmethod\n    def _acked_ids(msg: Message) -> List[int]:\n        acked_ids = list(msg.acks)\n        if msg.name == "PacketAck":\n            acked_ids.extend(x["ID"] for x in msg["Packets"])\n        return acked_ids\n\n    def collect_acks(self, message: Message):\n        for ack in self._acked_ids(message):\n'},
    {'name': 'R4 acked-ids helper forgets the PacketAck blocks', 'file': 'hippolyzer/lib/base/message/circuit.py', 'expect': 'C05.R4', 'old': '    def collect_acks(self, message: Message):\n        effective_acks = list(message.acks)\n        if message.name == "PacketAck":\n            effective_acks.extend(x["ID"] for x in message["Packets"])\n        for ack in effective_acks:\n', 'new': '    @staticmethod\n    def _acked_ids(msg: Message) -> List[int]:\n        acked_ids = list(msg.acks)\n        return acked_ids\n\n    def collect_acks(self, message: Message):\n        for ack in self._acked_ids(message):\n'},
    {'name': 'R4 acked-ids helper takes the PacketAck blocks only when nothing is appended', 'file': 'hippolyzer/lib/base/message/circuit.py', 'expect': 'C05.R4', 'old': '    def collect_acks(self, message: Message):\n        effective_acks = list(message.acks)\n        if message.name == "PacketAck":\n            effective_acks.extend(x["ID"] for x in message["Packets"])\n        for ack in effective_acks:\n', 'new': '    @staticmethod\n    def _acked_ids(msg: Message) -> List[int]:\n        acked_ids = list(msg.acks)\n        if msg.name == "PacketAck" and not msg.acks:\n            acked_ids.extend(x["ID"] for x in msg["Packets"])\n        return acked_ids\n\n    def collect_acks(self, message: Message):\n        for ack in self._acked_ids(message):\n'},
    {'name': 'P R9 tracker window default spelt as a class constant (refac8 G2/1)', 'file': 'hippolyzer/lib/proxy/circuit.py', 'expect': 'silent', 'old': '    def __init__(self, last_seen_id=0, maxlen=10000):\n', 'new': '    DEFAULT_MAXLEN: ClassVar[int] = 10000\n\n    def __init__(self, last_seen_id=0, maxlen=DEFAULT_MAXLEN):\n'},
    {'name': 'R9 proxied circuit shrinks the window below the class-constant default', 'expect': 'C05.R9', 'edits': [{'file': 'hippolyzer/lib/proxy/circuit.py', 'old': '    def __init__(self, last_seen_id=0, maxlen=10000):\n', 'new': '    DEFAULT_MAXLEN: ClassVar[int] = 10000\n\n    def __init__(self, last_seen_id=0, maxlen=DEFAULT_MAXLEN):\n'}, {'file': 'hippolyzer/lib/proxy/circuit.py', 'old': '        self.in_injections = InjectionTracker(0)\n', 'new': '        self.in_injections = InjectionTracker(0, maxlen=256)\n'}]},
    # ------------------------------------------------------------------ refactor round 9
    {'name': 'P R4 resend loop split into give-up / resend step methods (refac9 G2/3)', 'file': 'hippolyzer/lib/base/message/circuit.py', 'expect': 'silent', 'old': '            msg = copy.copy(resend_info.message)\n            resend_info.tries_left -= 1\n            # We were on our last try and we never received an ack\n            if not resend_info.tries_left:\n                logging.warning(f"Giving up on unacked {msg.packet_id}")\n                del self.unacked_reliable[(msg.direction, msg.packet_id)]\n                if not resend_info.completed.done():\n                    resend_info.completed.set_exception(TimeoutError("Exceeded resend limit"))\n                continue\n            resend_info.last_resent = _utcnow()\n            msg.send_flags |= PacketFlags.RESENT\n            try:\n                self._send_prepared_message(msg)\n            except Exception:\n                # One packet failing to go out mustn\'t keep the ones behind it from being resent\n                # or timed out, it gets its remaining tries like any other.\n                logging.exception(f"Failed to resend {msg.packet_id}")\n\n', 'new': '            msg = copy.copy(resend_info.message)\n            resend_info.tries_left -= 1\n            if not resend_info.tries_left:\n                self._give_up_resending(resend_info, msg)\n                continue\n            self._resend(resend_info, msg)\n\n    def _give_up_resending(self, resend_info, msg) -> None:\n        logging.warning(f"Giving up on unacked {msg.packet_id}")\n        del self.unacked_reliable[(msg.direction, msg.packet_id)]\n        if not resend_info.completed.done():\n            resend_info.completed.set_exception(TimeoutError("Exceeded resend limit"))\n\n    def _resend(self, resend_info, msg) -> None:\n        resend_info.last_resent = _utcnow()\n        msg.send_flags |= PacketFlags.RESENT\n        try:\n            self._send_prepared_message(msg)\n        except Exception:\n            logging.exception(f"Failed to resend {msg.packet_id}")\n\n'},
    {'name': 'R4 split resend loop: the give-up step forgets the removal', 'file': 'hippolyzer/lib/base/message/circuit.py', 'expect': 'C05.R4', 'old': '            msg = copy.copy(resend_info.message)\n            resend_info.tries_left -= 1\n            # We were on our last try and we never received an ack\n            if not resend_info.tries_left:\n                logging.warning(f"Giving up on unacked {msg.packet_id}")\n                del self.unacked_reliable[(msg.direction, msg.packet_id)]\n                if not resend_info.completed.done():\n                    resend_info.completed.set_exception(TimeoutError("Exceeded resend limit"))\n                continue\n            resend_info.last_resent = _utcnow()\n            msg.send_flags |= PacketFlags.RESENT\n            try:\n                self._send_prepared_message(msg)\n            except Exception:\n                # One packet failing to go out mustn\'t keep the ones behind it from being resent\n                # or timed out, it gets its remaining tries like any other.\n                logging.exception(f"Failed to resend {msg.packet_id}")\n\n', 'new': '            msg = copy.copy(resend_info.message)\n            resend_info.tries_left -= 1\n            if not resend_info.tries_left:\n                self._give_up_resending(resend_info, msg)\n                continue\n            self._resend(resend_info, msg)\n\n    def _give_up_resending(self, resend_info, msg) -> None:\n        logging.warning(f"Giving up on unacked {msg.packet_id}")\n        if not resend_info.completed.done():\n            resend_info.completed.set_exception(TimeoutError("Exceeded resend limit"))\n\n    def _resend(self, resend_info, msg) -> None:\n        resend_info.last_resent = _utcnow()\n        msg.send_flags |= PacketFlags.RESENT\n        try:\n            self._send_prepared_message(msg)\n        except Exception:\n            logging.exception(f"Failed to resend {msg.packet_id}")\n\n'},
    {'name': 'R4 split resend loop: the resend step forgets RESENT', 'file': 'hippolyzer/lib/base/message/circuit.py', 'expect': 'C05.R4', 'old': '            msg = copy.copy(resend_info.message)\n            resend_info.tries_left -= 1\n            # We were on our last try and we never received an ack\n            if not resend_info.tries_left:\n                logging.warning(f"Giving up on unacked {msg.packet_id}")\n                del self.unacked_reliable[(msg.direction, msg.packet_id)]\n                if not resend_info.completed.done():\n                    resend_info.completed.set_exception(TimeoutError("Exceeded resend limit"))\n                continue\n            resend_info.last_resent = _utcnow()\n            msg.send_flags |= PacketFlags.RESENT\n            try:\n                self._send_prepared_message(msg)\n            except Exception:\n                # One packet failing to go out mustn\'t keep the ones behind it from being resent\n                # or timed out, it gets its remaining tries like any other.\n                logging.exception(f"Failed to resend {msg.packet_id}")\n\n', 'new': '            msg = copy.copy(resend_info.message)\n            resend_info.tries_left -= 1\n            if not resend_info.tries_left:\n                self._give_up_resending(resend_info, msg)\n                continue\n            self._resend(resend_info, msg)\n\n    def _give_up_resending(self, resend_info, msg) -> None:\n        logging.warning(f"Giving up on unacked {msg.packet_id}")\n        del self.unacked_reliable[(msg.direction, msg.packet_id)]\n        if not resend_info.completed.done():\n            resend_info.completed.set_exception(TimeoutError("Exceeded resend limit"))\n\n    def _resend(self, resend_info, msg) -> None:\n        resend_info.last_resent = _utcnow()\n        try:\n            self._send_prepared_message(msg)\n        except Exception:\n            logging.exception(f"Failed to resend {msg.packet_id}")\n\n'},
    {'name': 'P R4 resend pass as a synchronous method the timer calls (refac9 G2/5)', 'file': 'hippolyzer/lib/proxy/lludp_proxy.py', 'expect': 'silent', 'old': '    async def attempt_resends(self):\n        while True:\n            await asyncio.sleep(0.1)\n            if self.session is None:\n                continue\n            for region in self.session.regions:\n                # Not gated on `is_alive`: a circuit that was marked dead by CloseCircuit / DisableSimulator\n                # still forwards and may have reliable packets of ours in flight, those need their resends\n                # (and a failure when they run out) too. A no-op once its unacked table has drained.\n                if not region.circuit:\n                    continue\n                region.circuit.resend_unacked()\n\n', 'new': '    async def attempt_resends(self):\n        while True:\n            await asyncio.sleep(0.1)\n            self._resend_pass()\n\n    def _resend_pass(self) -> None:\n        if self.session is None:\n            return\n        for region in self.session.regions:\n            if not region.circuit:\n                continue\n            region.circuit.resend_unacked()\n\n'},
    {'name': 'R4 resend pass method gated on is_alive', 'file': 'hippolyzer/lib/proxy/lludp_proxy.py', 'expect': 'C05.R4', 'old': '    async def attempt_resends(self):\n        while True:\n            await asyncio.sleep(0.1)\n            if self.session is None:\n                continue\n            for region in self.session.regions:\n                # Not gated on `is_alive`: a circuit that was marked dead by CloseCircuit / DisableSimulator\n                # still forwards and may have reliable packets of ours in flight, those need their resends\n                # (and a failure when they run out) too. A no-op once its unacked table has drained.\n                if not region.circuit:\n                    continue\n                region.circuit.resend_unacked()\n\n', 'new': '    async def attempt_resends(self):\n        while True:\n            await asyncio.sleep(0.1)\n            self._resend_pass()\n\n    def _resend_pass(self) -> None:\n        if self.session is None:\n            return\n        for region in self.session.regions:\n            if not region.circuit or not region.circuit.is_alive:\n                continue\n            region.circuit.resend_unacked()\n\n'},
    {'name': 'P R9 trackers built through a factory local that defaults to the class (refac9 G2/2)', 'file': 'hippolyzer/lib/proxy/circuit.py', 'expect': 'silent', 'old': '        self.in_injections = InjectionTracker(0)\n        self.out_injections = InjectionTracker(0)\n', 'new': '        tracker_factory = None\n        if tracker_factory is None:\n            tracker_factory = InjectionTracker\n        self.in_injections = tracker_factory(0)\n        self.out_injections = tracker_factory(0)\n'},
    {'name': 'R9 factory local called with a small window', 'file': 'hippolyzer/lib/proxy/circuit.py', 'expect': 'C05.R9', 'old': '        self.in_injections = InjectionTracker(0)\n        self.out_injections = InjectionTracker(0)\n', 'new': '        tracker_factory = None\n        if tracker_factory is None:\n            tracker_factory = InjectionTracker\n        self.in_injections = tracker_factory(0, 64)\n        self.out_injections = tracker_factory(0, 64)\n'},
    # ------------------------------------------------------------------ round 9 seeds
    {'name': 'R4 mark_dead tears the circuit down with disconnect() (seed C05-r9-1)', 'file': 'hippolyzer/lib/client/state.py', 'expect': 'C05.R4', 'old': '            self.circuit.is_alive = False\n', 'new': '            self.circuit.disconnect()\n'},
    {'name': 'R4 mark_dead clears the unacked table itself', 'file': 'hippolyzer/lib/client/state.py', 'expect': 'C05.R4', 'old': '            self.circuit.is_alive = False\n', 'new': '            self.circuit.is_alive = False\n            self.circuit.unacked_reliable.clear()\n'},
    {'name': 'P R4 mark_dead flags the circuit through a helper of the region', 'expect': 'silent', 'edits': [{'file': 'hippolyzer/lib/client/state.py', 'old': '        if self.circuit:\n            self.circuit.is_alive = False\n        self.objects.clear()\n', 'new': '        self._flag_circuit_dead()\n        self.objects.clear()\n\n    def _flag_circuit_dead(self):\n        circuit = self.circuit\n        if circuit is not None:\n            circuit.is_alive = False\n'}]},
]
