"""Self-test corpus for C06: text edits on a scratch overlay (never on /repo)."""
SP = "hippolyzer/lib/proxy/socks_proxy.py"
LP = "hippolyzer/lib/proxy/lludp_proxy.py"
PT = "hippolyzer/lib/proxy/transport.py"
BT = "hippolyzer/lib/base/network/transport.py"
BC = "hippolyzer/lib/base/message/circuit.py"
SE = "hippolyzer/lib/proxy/sessions.py"
ST = "hippolyzer/lib/client/state.py"

VARIANTS = [
    # ------------------------------------------------------------------ R1 framing
    {"name": "R1 emit layout !BHB4sH", "file": PT, "expect": "C06.R1",
     "old": 'struct.Struct("!HBB4sH")', "new": 'struct.Struct("!BHB4sH")'},
    {"name": "R1 emit address type 4", "file": PT, "expect": "C06.R1",
     "old": "            0, 0, 1, socket.inet_aton(", "new": "            0, 0, 4, socket.inet_aton("},
    {"name": "R1 parser no longer rejects frag != 0", "file": SP, "expect": "C06.R1",
     "old": "        if rsv != 0 or frag != 0:\n", "new": "        if rsv != 0:\n"},
    {"name": "R1 parser reads the port little-endian", "file": SP, "expect": "C06.R1",
     "old": "port = struct.unpack('!H', data[:2])[0]", "new": "port = struct.unpack('<H', data[:2])[0]"},
    {"name": "R1 parser strips one byte too many", "file": SP, "expect": "C06.R1",
     "old": "        data = data[2:]\n", "new": "        data = data[3:]\n"},
    {"name": "R1 header built from dst_addr instead of far_addr", "file": PT, "expect": "C06.R1",
     "old": "socket.inet_aton(packet.far_addr[0]), packet.far_addr[1])", "new": "socket.inet_aton(packet.dst_addr[0]), packet.dst_addr[1])"},
    {"name": "R1 unknown address type falls through", "file": SP, "expect": "C06.R1",
     "old": '            logging.error("Don\'t understand addr type %d" % address_type)\n            return None\n',
     "new": '            logging.error("Don\'t understand addr type %d" % address_type)\n            address = None\n'},
    {"name": "R1 incoming packets sent bare", "file": PT, "expect": "C06.R1",
     "old": "        if packet.outgoing and not force_socks_header:\n", "new": "        if not force_socks_header:\n"},
    {"name": "P R1 header built with two pack calls of the same layout", "file": PT, "expect": "silent",
     "old": "        header = cls.HEADER_STRUCT.pack(\n            0, 0, 1, socket.inet_aton(packet.far_addr[0]), packet.far_addr[1])\n",
     "new": "        header = struct.pack(\"!HBB\", 0, 0, 1) + struct.pack(\n"
            "            \"!4sH\", socket.inet_aton(packet.far_addr[0]), packet.far_addr[1])\n"},
    {"name": "P R1 rename parser local", "expect": "silent", "edits": [
        {"file": SP, "old": 'rsv, frag, address_type = struct.unpack("!HBB", data[:4])', "new": 'rsv, fragment, address_type = struct.unpack("!HBB", data[:4])'},
        {"file": SP, "old": "        if rsv != 0 or frag != 0:\n", "new": "        if rsv != 0 or fragment != 0:\n"}]},
    {"name": "P R1 truthiness form of the rsv/frag test", "file": SP, "expect": "silent",
     "old": "        if rsv != 0 or frag != 0:\n", "new": "        if rsv or frag:\n"},
    # ------------------------------------------------------------------ R2 roles
    {"name": "R2 OUT packet addressed back to the viewer", "file": SP, "expect": "C06.R2",
     "old": "                    dst_addr=remote_addr,\n", "new": "                    dst_addr=source_addr,\n"},
    {"name": "R2 IN packet addressed to its own source", "file": SP, "expect": "C06.R2",
     "old": "                dst_addr=near_addr,\n", "new": "                dst_addr=source_addr,\n"},
    {"name": "R2 far->near map never learnt", "file": SP, "expect": "C06.R2",
     "old": "                self.far_to_near_map[remote_addr] = source_addr\n", "new": ""},
    {"name": "R2 send_datagram swaps for IN instead of OUT", "file": BC, "expect": "C06.R2",
     "old": "        if direction == Direction.OUT:\n            src_addr, dst_addr = self.near_host, self.host\n",
     "new": "        if direction == Direction.IN:\n            src_addr, dst_addr = self.near_host, self.host\n"},
    {"name": "R2 SOCKS transport sends to src_addr", "file": PT, "expect": "C06.R2",
     "old": "self.transport.sendto(self.serialize(packet), packet.dst_addr)", "new": "self.transport.sendto(self.serialize(packet), packet.src_addr)"},
    {"name": "R2 far_addr roles swapped", "file": BT, "expect": "C06.R2",
     "old": "        if self.outgoing:\n            return self.dst_addr\n", "new": "        if self.incoming:\n            return self.dst_addr\n"},
    {"name": "R2 datagram from unknown host still handled", "file": SP, "expect": "C06.R2",
     "old": '                logging.warning("Got datagram from unknown host %s:%s" % source_addr)\n                return\n',
     "new": '                logging.warning("Got datagram from unknown host %s:%s" % source_addr)\n'},
    {"name": "R2 region lookup ignores the address", "file": ST, "expect": "C06.R2",
     "old": "            if region.circuit_addr == circuit_addr and region.circuit:\n", "new": "            if region.circuit:\n"},
    {"name": "R2 circuit opened with swapped peers", "file": LP, "expect": "C06.R2",
     "old": "self.session.open_circuit(packet.src_addr, packet.dst_addr, self.transport)",
     "new": "self.session.open_circuit(packet.dst_addr, packet.src_addr, self.transport)"},
    {"name": "R2 ~Direction is the identity for IN", "file": BT, "expect": "C06.R2",
     "old": "        if self == self.OUT:\n            return self.IN\n        return self.OUT\n",
     "new": "        if self == self.OUT:\n            return self.IN\n        return self.IN\n"},
    {"name": "P R2 positional UDPPacket construction", "file": SP, "expect": "silent",
     "old": "            src_packet = UDPPacket(\n                src_addr=source_addr,\n                dst_addr=near_addr,\n"
            "                data=data,\n                direction=Direction.IN,\n            )\n",
     "new": "            src_packet = UDPPacket(source_addr, near_addr, data, Direction.IN)\n"},
    {"name": "P R2 send_datagram as if/else", "file": BC, "expect": "silent",
     "old": "        src_addr, dst_addr = self.host, self.near_host\n        if direction == Direction.OUT:\n"
            "            src_addr, dst_addr = self.near_host, self.host\n",
     "new": "        if direction == Direction.OUT:\n            src_addr, dst_addr = self.near_host, self.host\n"
            "        else:\n            src_addr, dst_addr = self.host, self.near_host\n"},
    # ------------------------------------------------------------------ R3 validity dominates effects
    {"name": "R3 UDP-ban check deleted", "file": LP, "expect": "C06.R3",
     "old": "        if packet.incoming:\n            try:\n                self._ensure_message_allowed(message)\n            except PermissionError:\n                # ACKs the sender if needed and forwards the piggy-backed ACKs\n                region.circuit.drop_message(message)\n                raise\n", "new": ""},
    {"name": "R3 UDP-ban check moved behind the handlers (seed C06/1)", "expect": "C06.R3", "edits": [
        {"file": LP, "old": "        if packet.incoming:\n            try:\n                self._ensure_message_allowed(message)\n            except PermissionError:\n                # ACKs the sender if needed and forwards the piggy-backed ACKs\n                region.circuit.drop_message(message)\n                raise\n", "new": ""},
        {"file": LP, "old": "        if handled:\n            return\n",
         "new": "        if packet.incoming:\n            self._ensure_message_allowed(message)\n\n        if handled:\n            return\n"}]},
    {"name": "R3 UDP-ban check applied to outgoing packets only", "file": LP, "expect": "C06.R3",
     "old": "        if packet.incoming:\n            try:\n                self._ensure_message_allowed(message)\n",
     "new": "        if packet.outgoing:\n            try:\n                self._ensure_message_allowed(message)\n"},
    {"name": "R3 _ensure_message_allowed only logs", "file": LP, "expect": "C06.R3",
     "old": '            raise PermissionError(f"UDPBanned message {msg.name}")\n', "new": ""},
    {"name": "R3 unknown circuit no longer discarded", "file": LP, "expect": "C06.R3",
     "old": '            LOG.error("No circuit for %r, dropping packet!" % (packet.far_addr,))\n            return\n',
     "new": '            LOG.error("No circuit for %r, dropping packet!" % (packet.far_addr,))\n'},
    {"name": "R3 circuit opened for inbound UseCircuitCode too", "file": LP, "expect": "C06.R3",
     "old": '        if message.name == "UseCircuitCode" and packet.outgoing:\n            # This will create a circuit',
     "new": '        if message.name == "UseCircuitCode":\n            # This will create a circuit'},
    {"name": "R3 region looked up by the source address", "file": LP, "expect": "C06.R3",
     "old": "        region = self.session.region_by_circuit_addr(packet.far_addr)\n        if not region:\n",
     "new": "        region = self.session.region_by_circuit_addr(packet.src_addr)\n        if not region:\n"},
    {"name": "R3 state store before the region check", "file": LP, "expect": "C06.R3",
     "old": "        region = self.session.region_by_circuit_addr(packet.far_addr)\n        if not region:\n",
     "new": "        region = self.session.region_by_circuit_addr(packet.far_addr)\n"
            "        self.session.active_group = None\n        if not region:\n"},
    {"name": "P R3 incoming flag through a local", "file": LP, "expect": "silent",
     "old": "        if packet.incoming:\n            try:\n                self._ensure_message_allowed(message)\n",
     "new": "        inbound = packet.incoming\n        if inbound:\n            try:\n                self._ensure_message_allowed(message)\n"},
    {"name": "P R3 ban check inlined", "file": LP, "expect": "silent",
     "old": "        if packet.incoming:\n            try:\n                self._ensure_message_allowed(message)\n            except PermissionError:\n                # ACKs the sender if needed and forwards the piggy-backed ACKs\n                region.circuit.drop_message(message)\n                raise\n",
     "new": "        if packet.incoming:\n            if not self.message_xml.validate_udp_msg(message.name):\n"
            "                region.circuit.drop_message(message)\n"
            "                raise PermissionError(f\"UDPBanned message {message.name}\")\n"},
    {"name": "P R3 reorder the two independent handler dispatches", "file": LP, "expect": "silent",
     "old": "        try:\n            self.session.message_handler.handle(message)\n        except:\n"
            "            LOG.exception(\"Failed in session message handler\")\n        try:\n"
            "            region.message_handler.handle(message)\n        except:\n"
            "            LOG.exception(\"Failed in region message handler\")\n",
     "new": "        try:\n            region.message_handler.handle(message)\n        except:\n"
            "            LOG.exception(\"Failed in region message handler\")\n        try:\n"
            "            self.session.message_handler.handle(message)\n        except:\n"
            "            LOG.exception(\"Failed in session message handler\")\n"},
    # ------------------------------------------------------------------ R4 one forward
    {"name": "R4 second circuit.send before the hooks", "file": LP, "expect": "C06.R4",
     "old": "        message_logger = self.session_manager.message_logger\n",
     "new": "        region.circuit.send(message)\n        message_logger = self.session_manager.message_logger\n"},
    {"name": "R4 unguarded final send", "file": LP, "expect": "C06.R4",
     "old": "        if not message.finalized:\n            region.circuit.send(message)\n",
     "new": "        region.circuit.send(message)\n"},
    {"name": "R4 some message types not forwarded", "file": LP, "expect": "C06.R4",
     "old": "        if not message.finalized:\n            region.circuit.send(message)\n",
     "new": "        if not message.finalized and message.name != \"AgentUpdate\":\n            region.circuit.send(message)\n"},
    {"name": "R4 raw transport used from the interceptor", "file": LP, "expect": "C06.R4",
     "old": "        if not message.finalized:\n            region.circuit.send(message)\n",
     "new": "        if not message.finalized:\n            region.circuit.send(message)\n            self.transport.send_packet(packet)\n"},
    {"name": "R4 final send deleted", "file": LP, "expect": "C06.R4",
     "old": "        if not message.finalized:\n            region.circuit.send(message)\n", "new": ""},
    {"name": "P R4 tail extracted into _forward", "file": LP, "expect": "silent",
     "old": "        if not message.finalized:\n            region.circuit.send(message)\n\n    def close(self):\n",
     "new": "        self._forward(message, region)\n\n    def _forward(self, message, region):\n"
            "        if not message.finalized:\n            region.circuit.send(message)\n\n    def close(self):\n"},
    {"name": "P R4 early-exit form of the finalized guard", "file": LP, "expect": "silent",
     "old": "        if not message.finalized:\n            region.circuit.send(message)\n",
     "new": "        if message.finalized:\n            return\n        region.circuit.send(message)\n"},
    # ------------------------------------------------------------------ R5 open_circuit verdict
    {"name": "R5 re-opening a live circuit reports failure (seed C06/2)", "file": SE, "expect": "C06.R5",
     "old": "                if region.circuit and region.circuit.is_alive:\n                    # Whatever, already open\n"
            "                    logging.debug(\"Tried to re-open circuit for %r\" % (circuit_addr,))\n                    return True\n",
     "new": "                logging.debug(\"Tried to re-open circuit for %r\" % (circuit_addr,))\n                break\n"},
    {"name": "R5 already-open branch returns False", "file": SE, "expect": "C06.R5",
     "old": "                    logging.debug(\"Tried to re-open circuit for %r\" % (circuit_addr,))\n                    return True\n",
     "new": "                    logging.debug(\"Tried to re-open circuit for %r\" % (circuit_addr,))\n                    return False\n"},
    {"name": "R5 freshly created circuit not reported", "file": SE, "expect": "C06.R5",
     "old": "                    AddonManager.handle_circuit_created(self, region)\n                    return True\n",
     "new": "                    AddonManager.handle_circuit_created(self, region)\n                    return\n"},
    {"name": "P R5 second test as else branch", "file": SE, "expect": "silent",
     "old": "                if region.circuit and region.circuit.is_alive:\n                    # Whatever, already open\n",
     "new": "                else:\n                    # Whatever, already open\n"},
    # ------------------------------------------------------------------ strengthening round
    {"name": "R3 claim_session ignores the pending flag", "file": SE, "expect": "C06.R3",
     "old": "            if session.pending and session.id == session_id:\n", "new": "            if session.id == session_id:\n"},
    {"name": "R3 claimed session stays pending", "file": SE, "expect": "C06.R3",
     "old": "                session.pending = False\n", "new": ""},
    {"name": "P R3 claim_session with a guard clause", "file": SE, "expect": "silent",
     "old": "            if session.pending and session.id == session_id:\n                logging.info(\"Claimed %r\" % session)\n"
            "                session.pending = False\n                return session\n",
     "new": "            if not session.pending or session.id != session_id:\n                continue\n"
            "            logging.info(\"Claimed %r\" % session)\n            session.pending = False\n            return session\n"},
    {"name": "R2 route forgotten on a discard path", "file": SP, "expect": "C06.R2",
     "old": '                logging.warning("Got non-SOCKS packet from local? %r" % data)\n                return\n',
     "new": '                logging.warning("Got non-SOCKS packet from local? %r" % data)\n'
            '                self.far_to_near_map.clear()\n                return\n'},
    {"name": "P R2 learning store extracted into a helper", "expect": "silent", "edits": [
        {"file": SP, "old": "                self.far_to_near_map[remote_addr] = source_addr\n",
         "new": "                self._learn_route(remote_addr, source_addr)\n"},
        {"file": SP, "old": "    def datagram_received(self, data, source_addr):\n",
         "new": "    def _learn_route(self, far_addr, viewer_addr):\n        self.far_to_near_map[far_addr] = viewer_addr\n\n"
                "    def datagram_received(self, data, source_addr):\n"}]},
    {"name": "R2 helper learns the route the wrong way round", "expect": "C06.R2", "edits": [
        {"file": SP, "old": "                self.far_to_near_map[remote_addr] = source_addr\n",
         "new": "                self._learn_route(source_addr, remote_addr)\n"},
        {"file": SP, "old": "    def datagram_received(self, data, source_addr):\n",
         "new": "    def _learn_route(self, far_addr, viewer_addr):\n        self.far_to_near_map[far_addr] = viewer_addr\n\n"
                "    def datagram_received(self, data, source_addr):\n"}]},
    {"name": "R2 register_region re-points an existing region", "file": ST, "expect": "C06.R2",
     "old": '            if seed_url and region.cap_urls.get("Seed") == seed_url:\n                return region\n',
     "new": '            if seed_url and region.cap_urls.get("Seed") == seed_url:\n                if circuit_addr:\n'
            '                    region.circuit_addr = circuit_addr\n                return region\n'},
    {"name": "P R2 register_region comparison mirrored", "file": ST, "expect": "silent",
     "old": "            if region.circuit_addr == circuit_addr:\n                if seed_url and",
     "new": "            if circuit_addr == region.circuit_addr:\n                if seed_url and"},
    {"name": "P R2 datagram_received flattened into guard clauses", "file": SP, "expect": "silent",
     "old": "            if not near_addr:\n                logging.warning(\"Got datagram from unknown host %s:%s\" % source_addr)\n"
            "                return\n",
     "new": "            if near_addr is None:\n                logging.warning(\"Got datagram from unknown host %s:%s\" % source_addr)\n"
            "                return\n"},
    {"name": "P R3 session claim split into a helper", "expect": "silent", "edits": [
        {"file": LP, "old": "                session_id = message[\"CircuitCode\"][0][\"SessionID\"]\n"
                            "                self.session = self.session_manager.claim_session(session_id)\n",
         "new": "                self._claim(message)\n"},
        {"file": LP, "old": "                    LOG.error(f\"Wasn't able to claim session {session_id!r}! Generally",
         "new": "                    LOG.error(f\"Wasn't able to claim session {message.name!r}! Generally"},
        {"file": LP, "old": "    def handle_proxied_packet(self, packet: UDPPacket):\n",
         "new": "    def _claim(self, msg):\n        self.session = self.session_manager.claim_session(msg[\"CircuitCode\"][0][\"SessionID\"])\n\n"
                "    def handle_proxied_packet(self, packet: UDPPacket):\n"}]},
    # ------------------------------------------------------------------ round 3
    {"name": "R6 falsy test of the packet id in drop_message", "file": "hippolyzer/lib/proxy/circuit.py", "expect": "C06.R6",
     "old": "        if message.packet_id is None:\n            # Never was on the wire", "new": "        if not message.packet_id:\n            # Never was on the wire"},
    {"name": "P R6 None test joined with another condition", "file": "hippolyzer/lib/proxy/circuit.py", "expect": "silent",
     "old": "        if message.packet_id is None:\n            # Never was on the wire",
     "new": "        if message.packet_id is None or message.finalized:\n            # Never was on the wire"},
    {"name": "P R5 deadness spelled through the region property", "file": SE, "expect": "silent",
     "old": "                if not region.circuit or not region.circuit.is_alive:\n                    logging_hook = None\n",
     "new": "                if not region.is_alive:\n                    logging_hook = None\n"},
    {"name": "P R2 region lookup as next(generator, None)", "file": ST, "expect": "silent",
     "old": "        for region in self.regions:\n            if region.circuit_addr == circuit_addr and region.circuit:\n"
            "                return region\n        return None\n",
     "new": "        return next((r for r in self.regions if r.circuit_addr == circuit_addr and r.circuit), None)\n"},
    {"name": "R2 next(generator) lookup without the address filter", "file": ST, "expect": "C06.R2",
     "old": "        for region in self.regions:\n            if region.circuit_addr == circuit_addr and region.circuit:\n"
            "                return region\n        return None\n",
     "new": "        return next((r for r in self.regions if r.circuit), None)\n"},
    {"name": "P R1/R2 parse result accessed by index", "expect": "silent", "edits": [
        {"file": SP, "old": "                remote_addr, data = socks_parsed\n",
         "new": "                remote_addr = socks_parsed[0]\n                data = socks_parsed[1]\n"}]},
    # ------------------------------------------------------------------ round 4
    {"name": "R3 ban verdict consults something besides the flavor", "file": "hippolyzer/lib/base/message/message_dot_xml.py",
     "expect": "C06.R3", "old": "                return False\n", "new": "                return msg_name.endswith(\"Request\")\n"},
    {"name": "P R3 ban verdict through dict.get and one comparison", "file": "hippolyzer/lib/base/message/message_dot_xml.py",
     "expect": "silent", "old": "        if msg_name in self.messages:\n            if self.messages[msg_name]['flavor'] == 'template':\n                return True\n            else:\n                return False\n        else:\n            return True\n",
     "new": "        details = self.messages.get(msg_name)\n        if details is None:\n            return True\n"
            "        return details['flavor'] == 'template'\n"},
    {"name": "P R2 far_addr as a conditional expression", "file": BT, "expect": "silent",
     "old": "        if self.outgoing:\n            return self.dst_addr\n        return self.src_addr\n",
     "new": "        return self.src_addr if self.incoming else self.dst_addr\n"},
    {"name": "R2 far_addr conditional expression with the roles swapped", "file": BT, "expect": "C06.R2",
     "old": "        if self.outgoing:\n            return self.dst_addr\n        return self.src_addr\n",
     "new": "        return self.src_addr if self.outgoing else self.dst_addr\n"},
    {"name": "P R3 claim_session through next(generator)", "file": SE, "expect": "silent",
     "old": "        for session in self.sessions:\n            if session.pending and session.id == session_id:\n"
            "                logging.info(\"Claimed %r\" % session)\n                session.pending = False\n"
            "                return session\n        return None\n",
     "new": "        found = next((s for s in self.sessions if s.id == session_id and s.pending), None)\n"
            "        if found is not None:\n            found.pending = False\n        return found\n"},
    # ------------------------------------------------------------------ round 5
    {"name": "R3 banned message listed a second time as template", "file": "hippolyzer/lib/base/message/data/message.xml",
     "expect": "C06.R3",
     "old": "\t\t\t\t<key>LandStatReply</key>\n\t\t\t\t<map>\n\t\t\t\t\t<key>flavor</key>\n\t\t\t\t\t<string>llsd</string>\n"
            "\t\t\t\t\t<key>trusted-sender</key>\n\t\t\t\t\t<boolean>false</boolean>\n",
     "new": "\t\t\t\t<key>LandStatReply</key>\n\t\t\t\t<map>\n\t\t\t\t\t<key>flavor</key>\n\t\t\t\t\t<string>template</string>\n"
            "\t\t\t\t\t<key>trusted-sender</key>\n\t\t\t\t\t<boolean>false</boolean>\n"},
    {"name": "P R3 new message row with a fresh key", "file": "hippolyzer/lib/base/message/data/message.xml", "expect": "silent",
     "old": "\t\t\t\t<key>LandStatReply</key>\n\t\t\t\t<map>\n\t\t\t\t\t<key>flavor</key>\n\t\t\t\t\t<string>llsd</string>\n"
            "\t\t\t\t\t<key>trusted-sender</key>\n\t\t\t\t\t<boolean>false</boolean>\n",
     "new": "\t\t\t\t<key>HipposaSelfTestOnly</key>\n\t\t\t\t<map>\n\t\t\t\t\t<key>flavor</key>\n\t\t\t\t\t<string>template</string>\n"
            "\t\t\t\t\t<key>trusted-sender</key>\n\t\t\t\t\t<boolean>false</boolean>\n"},
    {"name": "P R2 UDPPacket as a dataclass", "file": BT, "expect": "silent",
     "old": "class UDPPacket:\n    def __init__(\n            self,\n            src_addr: Optional[ADDR_TUPLE],\n"
            "            dst_addr: ADDR_TUPLE,\n            data: bytes,\n            direction: Direction\n    ):\n"
            "        self.src_addr = src_addr\n        self.dst_addr = dst_addr\n        self.data = data\n"
            "        self.direction = direction\n        self.meta = {}\n",
     "new": "import dataclasses as _dc\n\n\n@_dc.dataclass(eq=False)\nclass UDPPacket:\n    src_addr: Optional[ADDR_TUPLE]\n"
            "    dst_addr: ADDR_TUPLE\n    data: bytes\n    direction: Direction\n"
            "    meta: dict = _dc.field(default_factory=dict, init=False)\n"},
    {"name": "R2 dataclass UDPPacket with src/dst fields swapped", "file": BT, "expect": "C06.R2",
     "old": "class UDPPacket:\n    def __init__(\n            self,\n            src_addr: Optional[ADDR_TUPLE],\n"
            "            dst_addr: ADDR_TUPLE,\n            data: bytes,\n            direction: Direction\n    ):\n"
            "        self.src_addr = src_addr\n        self.dst_addr = dst_addr\n        self.data = data\n"
            "        self.direction = direction\n        self.meta = {}\n",
     "new": "import dataclasses as _dc\n\n\n@_dc.dataclass(eq=False)\nclass UDPPacket:\n    dst_addr: ADDR_TUPLE\n"
            "    src_addr: Optional[ADDR_TUPLE]\n    data: bytes\n    direction: Direction\n"
            "    meta: dict = _dc.field(default_factory=dict, init=False)\n"},
    # ------------------------------------------------------------------ round 6
    {"name": "R4 session handler guard narrowed to KeyError", "file": LP, "expect": "C06.R4",
     "old": "        try:\n            self.session.message_handler.handle(message)\n        except:\n",
     "new": "        try:\n            self.session.message_handler.handle(message)\n        except KeyError:\n"},
    {"name": "R4 cache-load guard re-raises", "file": LP, "expect": "C06.R4",
     "old": "                    LOG.exception(\"Failed to load region cache, skipping\")\n",
     "new": "                    LOG.exception(\"Failed to load region cache, skipping\")\n                    raise\n"},
    {"name": "P R4 bare except spelled `except Exception`", "file": LP, "expect": "silent",
     "old": "                except:\n                    LOG.exception(\"Failed to load region cache, skipping\")\n",
     "new": "                except Exception:\n                    LOG.exception(\"Failed to load region cache, skipping\")\n"},
    {"name": "P R1 address type compared through a module constant", "expect": "silent", "edits": [
        {"file": SP, "old": "        if address_type == 1:  # IPv4\n            address = socket.inet_ntoa(data[:4])\n",
         "new": "        if address_type == ATYP_IPV4:\n            address = socket.inet_ntoa(data[:4])\n"},
        {"file": SP, "old": "class SOCKS5Server:\n", "new": "ATYP_IPV4 = 1\n\n\nclass SOCKS5Server:\n"}]},
    # ------------------------------------------------------------------ round 7
    {"name": "P R1 header built by a classmethod helper from a class-level prefix", "expect": "silent", "edits": [
        {"file": PT, "old": "        header = cls.HEADER_STRUCT.pack(\n            0, 0, 1, socket.inet_aton(packet.far_addr[0]), packet.far_addr[1])\n"
                            "        return header + packet.data\n",
         "new": "        return cls._header_for(packet.far_addr) + packet.data\n\n    FIXED = (0, 0, 1)\n\n    @classmethod\n"
                "    def _header_for(cls, addr):\n        return cls.HEADER_STRUCT.pack(*cls.FIXED, socket.inet_aton(addr[0]), addr[1])\n"}]},
    {"name": "R1 header helper emits the port before the address", "expect": "C06.R1", "edits": [
        {"file": PT, "old": "        header = cls.HEADER_STRUCT.pack(\n            0, 0, 1, socket.inet_aton(packet.far_addr[0]), packet.far_addr[1])\n"
                            "        return header + packet.data\n",
         "new": "        return cls._header_for(packet.far_addr) + packet.data\n\n    FIXED = (0, 0, 1)\n\n    @classmethod\n"
                "    def _header_for(cls, addr):\n        return struct.pack(\"!HBBH4s\", *cls.FIXED, addr[1], socket.inet_aton(addr[0]))\n"}]},
    {"name": "P R2 validated cache in front of the region scan", "file": ST, "expect": "silent",
     "old": "        for region in self.regions:\n            if region.circuit_addr == circuit_addr and region.circuit:\n"
            "                return region\n        return None\n",
     "new": "        last = getattr(self, \"_last_region\", None)\n"
            "        if last is not None and last.circuit_addr == circuit_addr and last.circuit and last in self.regions:\n"
            "            return last\n        for region in self.regions:\n"
            "            if region.circuit_addr == circuit_addr and region.circuit:\n                self._last_region = region\n"
            "                return region\n        return None\n"},
    {"name": "R2 unvalidated cache in front of the region scan", "file": ST, "expect": "C06.R2",
     "old": "        for region in self.regions:\n            if region.circuit_addr == circuit_addr and region.circuit:\n"
            "                return region\n        return None\n",
     "new": "        last = getattr(self, \"_last_region\", None)\n        if last is not None and last.circuit:\n"
            "            return last\n        for region in self.regions:\n"
            "            if region.circuit_addr == circuit_addr and region.circuit:\n                self._last_region = region\n"
            "                return region\n        return None\n"},
    {"name": "P R3 handler stage moved into a helper of the protocol", "expect": "silent", "edits": [
        {"file": LP, "old": "        try:\n            self.session.message_handler.handle(message)\n        except:\n"
                            "            LOG.exception(\"Failed in session message handler\")\n        try:\n"
                            "            region.message_handler.handle(message)\n        except:\n"
                            "            LOG.exception(\"Failed in region message handler\")\n",
         "new": "        self._internal_handlers(region, message)\n"},
        {"file": LP, "old": "    def handle_proxied_packet(self, packet: UDPPacket):\n",
         "new": "    def _internal_handlers(self, rgn, msg):\n        try:\n            self.session.message_handler.handle(msg)\n"
                "        except:\n            LOG.exception(\"Failed in session message handler\")\n        try:\n"
                "            rgn.message_handler.handle(msg)\n        except:\n            LOG.exception(\"Failed in region message handler\")\n\n"
                "    def handle_proxied_packet(self, packet: UDPPacket):\n"}]},
    # ------------------------------------------------------------------ round 8
    {"name": "R3 socket error callback closes the association", "file": SP, "expect": "C06.R3",
     "old": "    def _parse_socks_datagram(self, data):\n",
     "new": "    def error_received(self, exc):\n        logging.warning(\"socket error %r\", exc)\n        self.transport.close()\n\n"
            "    def _parse_socks_datagram(self, data):\n"},
    {"name": "P R3 socket error callback that only logs", "file": SP, "expect": "silent",
     "old": "    def _parse_socks_datagram(self, data):\n",
     "new": "    def error_received(self, exc):\n        logging.warning(\"socket error %r\", exc)\n\n"
            "    def connection_lost(self, exc):\n        logging.info(\"association closed\")\n\n"
            "    def _parse_socks_datagram(self, data):\n"},
    {"name": "P R2 region lookup through a finder that takes a predicate", "expect": "silent", "edits": [
        {"file": ST, "old": "        for region in self.regions:\n            if region.circuit_addr == circuit_addr and region.circuit:\n"
                            "                return region\n        return None\n",
         "new": "        return self._first(lambda r: r.circuit and r.circuit_addr == circuit_addr)\n\n"
                "    def _first(self, accept):\n        for candidate in self.regions:\n            if accept(candidate):\n"
                "                return candidate\n        return None\n"}]},
    {"name": "R2 finder predicate without the address test", "expect": "C06.R2", "edits": [
        {"file": ST, "old": "        for region in self.regions:\n            if region.circuit_addr == circuit_addr and region.circuit:\n"
                            "                return region\n        return None\n",
         "new": "        return self._first(lambda r: r.circuit)\n\n"
                "    def _first(self, accept):\n        for candidate in self.regions:\n            if accept(candidate):\n"
                "                return candidate\n        return None\n"}]},
    {"name": "P R5 circuit creation moved into a helper that reports success", "expect": "silent", "edits": [
        {"file": SE, "old": "            if region.circuit_addr == circuit_addr:\n                if not region.circuit or not region.circuit.is_alive:\n",
         "new": "            if region.circuit_addr == circuit_addr:\n                if self._ensure(region, near_addr, circuit_addr, transport):\n"
                "                    return True\n        return False\n\n"
                "    def _ensure(self, region, near_addr, circuit_addr, transport):\n        if True:\n"
                "                if not region.circuit or not region.circuit.is_alive:\n"}]},
    # ------------------------------------------------------------------ audit round (anchored on the fixed text: inapplicable until the fixes are committed)
    {'name': 'R2 near endpoint learnt as a far address again (audit C06#1 reverted)', 'file': 'hippolyzer/lib/proxy/socks_proxy.py', 'expect': 'C06.R2', 'old': '                # A near (SOCKS client side) endpoint must never be learnt as a far one, that would\n                # flip the direction inference for everything that endpoint sends from now on.\n                if remote_addr == source_addr or remote_addr in self.far_to_near_map.values():\n                    logging.warning("Got SOCKS packet addressed to near endpoint %s:%s, discarding" % remote_addr)\n                    return\n', 'new': ''},
    {'name': 'P R2 near-endpoint test split into two guard clauses', 'file': 'hippolyzer/lib/proxy/socks_proxy.py', 'expect': 'silent', 'old': '                if remote_addr == source_addr or remote_addr in self.far_to_near_map.values():\n', 'new': '                if remote_addr == source_addr:\n                    return\n                if remote_addr in self.far_to_near_map.values():\n'},
    {'name': 'R4 empty PacketAck swallowed again (audit C06#3 reverted)', 'file': 'hippolyzer/lib/proxy/circuit.py', 'expect': 'C06.R4', 'old': '        if had_blocks and not new_blocks:\n', 'new': '        if not new_blocks:\n'},
    {'name': 'P R4 original block count taken with len()', 'file': 'hippolyzer/lib/proxy/circuit.py', 'expect': 'silent', 'old': '        had_blocks = bool(message["Packets"])\n', 'new': '        had_blocks = len(message["Packets"]) != 0\n'},
    # ------------------------------------------------------------------ audit round 2 (anchored on the fixed text: inapplicable until the fixes are committed)
    {'name': 'R3 main region moved before the body is decoded (audit2 C06#3 reverted)', 'file': 'hippolyzer/lib/proxy/lludp_proxy.py', 'expect': 'C06.R3', 'old': '            region_handle = message["Data"]["RegionHandle"]\n            self.session.main_region = region\n            if region.handle is None:\n                region.handle = region_handle\n', 'new': '            self.session.main_region = region\n            if region.handle is None:\n                region.handle = message["Data"]["RegionHandle"]\n'},
    {'name': 'R3 body decoded only when the handle is unknown, main region moved regardless', 'file': 'hippolyzer/lib/proxy/lludp_proxy.py', 'expect': 'C06.R3', 'old': '            region_handle = message["Data"]["RegionHandle"]\n            self.session.main_region = region\n            if region.handle is None:\n                region.handle = region_handle\n', 'new': '            if region.handle is None:\n                region.handle = message["Data"]["RegionHandle"]\n            self.session.main_region = region\n'},
    {'name': 'P R3 block fetched first, handle read from it later', 'file': 'hippolyzer/lib/proxy/lludp_proxy.py', 'expect': 'silent', 'old': '            region_handle = message["Data"]["RegionHandle"]\n            self.session.main_region = region\n            if region.handle is None:\n                region.handle = region_handle\n', 'new': '            data_block = message["Data"]\n            self.session.main_region = region\n            if region.handle is None:\n                region.handle = data_block["RegionHandle"]\n'},
    {'name': 'P R3 main region moved by a stage helper that decodes first', 'expect': 'silent', 'edits': [{'file': 'hippolyzer/lib/proxy/lludp_proxy.py', 'old': '            region_handle = message["Data"]["RegionHandle"]\n            self.session.main_region = region\n            if region.handle is None:\n                region.handle = region_handle\n', 'new': '            self._agent_moved(region, message)\n'}, {'file': 'hippolyzer/lib/proxy/lludp_proxy.py', 'old': '    def handle_proxied_packet(self, packet: UDPPacket):\n', 'new': '    def _agent_moved(self, region, msg):\n        handle = msg["Data"]["RegionHandle"]\n        self.session.main_region = region\n        if region.handle is None:\n            region.handle = handle\n\n    def handle_proxied_packet(self, packet: UDPPacket):\n'}]},
    {'name': 'R4 command channel taken from either direction (audit2 C06#2 reverted)', 'file': 'hippolyzer/lib/proxy/addons.py', 'expect': 'C06.R4', 'old': '        if message.name == "ChatFromViewer" and message.direction == Direction.OUT and "ChatData" in message:\n', 'new': '        if message.name == "ChatFromViewer" and "ChatData" in message:\n'},
    {'name': "R4 command channel taken from the simulator's side", 'file': 'hippolyzer/lib/proxy/addons.py', 'expect': 'C06.R4', 'old': '        if message.name == "ChatFromViewer" and message.direction == Direction.OUT and "ChatData" in message:\n', 'new': '        if message.name == "ChatFromViewer" and message.direction == Direction.IN and "ChatData" in message:\n'},
    {'name': 'P R4 command direction test as `is not IN`', 'file': 'hippolyzer/lib/proxy/addons.py', 'expect': 'silent', 'old': '        if message.name == "ChatFromViewer" and message.direction == Direction.OUT and "ChatData" in message:\n', 'new': '        if message.name == "ChatFromViewer" and message.direction is not Direction.IN and "ChatData" in message:\n'},
    {'name': 'P R4 command direction tested next to the channel', 'expect': 'silent', 'edits': [{'file': 'hippolyzer/lib/proxy/addons.py', 'old': '        if message.name == "ChatFromViewer" and message.direction == Direction.OUT and "ChatData" in message:\n', 'new': '        if message.name == "ChatFromViewer" and "ChatData" in message:\n'}, {'file': 'hippolyzer/lib/proxy/addons.py', 'old': '            if message["ChatData"]["Channel"] == cls.COMMAND_CHANNEL:\n', 'new': '            from_viewer = message.direction == Direction.OUT\n            if from_viewer and message["ChatData"]["Channel"] == cls.COMMAND_CHANNEL:\n'}]},
    # ------------------------------------------------------------------ refactor round 8
    {'name': 'P R1/R2 one send_packet in the plain transport driven by serialize() and class constants (refac8 G2/5)', 'expect': 'silent', 'edits': [{'file': 'hippolyzer/lib/base/network/transport.py', 'old': '    def send_packet(self, packet: UDPPacket) -> None:\n        if not packet.outgoing:\n            raise ValueError(f"{self.__class__.__name__} can only send outbound packets")\n        self.transport.sendto(packet.data, packet.dst_addr)\n', 'new': '    OUTBOUND_ONLY = True\n\n    @classmethod\n    def serialize(cls, packet: UDPPacket) -> bytes:\n        return packet.data\n\n    def send_packet(self, packet: UDPPacket) -> None:\n        if self.OUTBOUND_ONLY and not packet.outgoing:\n            raise ValueError(f"{self.__class__.__name__} can only send outbound packets")\n        self.transport.sendto(self.serialize(packet), packet.dst_addr)\n'}, {'file': 'hippolyzer/lib/proxy/transport.py', 'old': '        header = cls.HEADER_STRUCT.pack(\n            0, 0, 1, socket.inet_aton(packet.far_addr[0]), packet.far_addr[1])\n        return header + packet.data\n\n    def send_packet(self, packet: UDPPacket) -> None:\n        self.transport.sendto(self.serialize(packet), packet.dst_addr)\n', 'new': '        return cls.make_header(packet.far_addr) + packet.data\n\n    HEADER_RSV = 0\n    HEADER_FRAG = 0\n    HEADER_ATYP_IPV4 = 1\n    OUTBOUND_ONLY = False\n\n    @classmethod\n    def make_header(cls, far_addr) -> bytes:\n        return cls.HEADER_STRUCT.pack(\n            cls.HEADER_RSV, cls.HEADER_FRAG, cls.HEADER_ATYP_IPV4, socket.inet_aton(far_addr[0]), far_addr[1])\n'}]},
    {'name': 'R2 SOCKS transport inherits the outbound-only refusal', 'expect': 'C06.R2', 'edits': [{'file': 'hippolyzer/lib/base/network/transport.py', 'old': '    def send_packet(self, packet: UDPPacket) -> None:\n        if not packet.outgoing:\n            raise ValueError(f"{self.__class__.__name__} can only send outbound packets")\n        self.transport.sendto(packet.data, packet.dst_addr)\n', 'new': '    OUTBOUND_ONLY = True\n\n    @classmethod\n    def serialize(cls, packet: UDPPacket) -> bytes:\n        return packet.data\n\n    def send_packet(self, packet: UDPPacket) -> None:\n        if self.OUTBOUND_ONLY and not packet.outgoing:\n            raise ValueError(f"{self.__class__.__name__} can only send outbound packets")\n        self.transport.sendto(self.serialize(packet), packet.dst_addr)\n'}, {'file': 'hippolyzer/lib/proxy/transport.py', 'old': '        header = cls.HEADER_STRUCT.pack(\n            0, 0, 1, socket.inet_aton(packet.far_addr[0]), packet.far_addr[1])\n        return header + packet.data\n\n    def send_packet(self, packet: UDPPacket) -> None:\n        self.transport.sendto(self.serialize(packet), packet.dst_addr)\n', 'new': '        return cls.make_header(packet.far_addr) + packet.data\n\n    HEADER_RSV = 0\n    HEADER_FRAG = 0\n    HEADER_ATYP_IPV4 = 1\n    OUTBOUND_ONLY = True\n\n    @classmethod\n    def make_header(cls, far_addr) -> bytes:\n        return cls.HEADER_STRUCT.pack(\n            cls.HEADER_RSV, cls.HEADER_FRAG, cls.HEADER_ATYP_IPV4, socket.inet_aton(far_addr[0]), far_addr[1])\n'}]},
    {'name': 'R1 header address type constant of the class is 4', 'expect': 'C06.R1', 'edits': [{'file': 'hippolyzer/lib/base/network/transport.py', 'old': '    def send_packet(self, packet: UDPPacket) -> None:\n        if not packet.outgoing:\n            raise ValueError(f"{self.__class__.__name__} can only send outbound packets")\n        self.transport.sendto(packet.data, packet.dst_addr)\n', 'new': '    OUTBOUND_ONLY = True\n\n    @classmethod\n    def serialize(cls, packet: UDPPacket) -> bytes:\n        return packet.data\n\n    def send_packet(self, packet: UDPPacket) -> None:\n        if self.OUTBOUND_ONLY and not packet.outgoing:\n            raise ValueError(f"{self.__class__.__name__} can only send outbound packets")\n        self.transport.sendto(self.serialize(packet), packet.dst_addr)\n'}, {'file': 'hippolyzer/lib/proxy/transport.py', 'old': '        header = cls.HEADER_STRUCT.pack(\n            0, 0, 1, socket.inet_aton(packet.far_addr[0]), packet.far_addr[1])\n        return header + packet.data\n\n    def send_packet(self, packet: UDPPacket) -> None:\n        self.transport.sendto(self.serialize(packet), packet.dst_addr)\n', 'new': '        return cls.make_header(packet.far_addr) + packet.data\n\n    HEADER_RSV = 0\n    HEADER_FRAG = 0\n    HEADER_ATYP_IPV4 = 4\n    OUTBOUND_ONLY = False\n\n    @classmethod\n    def make_header(cls, far_addr) -> bytes:\n        return cls.HEADER_STRUCT.pack(\n            cls.HEADER_RSV, cls.HEADER_FRAG, cls.HEADER_ATYP_IPV4, socket.inet_aton(far_addr[0]), far_addr[1])\n'}]},
    {'name': 'R2 shared send_packet sends the bare data, SOCKS framing bypassed', 'expect': 'C06.R2', 'edits': [{'file': 'hippolyzer/lib/base/network/transport.py', 'old': '    def send_packet(self, packet: UDPPacket) -> None:\n        if not packet.outgoing:\n            raise ValueError(f"{self.__class__.__name__} can only send outbound packets")\n        self.transport.sendto(packet.data, packet.dst_addr)\n', 'new': '    OUTBOUND_ONLY = True\n\n    @classmethod\n    def serialize(cls, packet: UDPPacket) -> bytes:\n        return packet.data\n\n    def send_packet(self, packet: UDPPacket) -> None:\n        if self.OUTBOUND_ONLY and not packet.outgoing:\n            raise ValueError(f"{self.__class__.__name__} can only send outbound packets")\n        self.transport.sendto(packet.data, packet.dst_addr)\n'}, {'file': 'hippolyzer/lib/proxy/transport.py', 'old': '        header = cls.HEADER_STRUCT.pack(\n            0, 0, 1, socket.inet_aton(packet.far_addr[0]), packet.far_addr[1])\n        return header + packet.data\n\n    def send_packet(self, packet: UDPPacket) -> None:\n        self.transport.sendto(self.serialize(packet), packet.dst_addr)\n', 'new': '        return cls.make_header(packet.far_addr) + packet.data\n\n    HEADER_RSV = 0\n    HEADER_FRAG = 0\n    HEADER_ATYP_IPV4 = 1\n    OUTBOUND_ONLY = False\n\n    @classmethod\n    def make_header(cls, far_addr) -> bytes:\n        return cls.HEADER_STRUCT.pack(\n            cls.HEADER_RSV, cls.HEADER_FRAG, cls.HEADER_ATYP_IPV4, socket.inet_aton(far_addr[0]), far_addr[1])\n'}]},
    # ------------------------------------------------------------------ round 9 seeds
    {'name': 'R2 association bound to the address announced in the request (seed C06-r9-1)', 'expect': 'C06.R2', 'edits': [{'file': 'hippolyzer/lib/proxy/socks_proxy.py', 'old': '                    self._udp_protocol_creator(writer.get_extra_info("peername")),\n', 'new': '                    self._udp_protocol_creator((_address, _port)),\n'}]},
    {'name': 'P R2 peer address of the control connection taken into a local first', 'expect': 'silent', 'edits': [{'file': 'hippolyzer/lib/proxy/socks_proxy.py', 'old': '                transport, protocol = await loop.create_datagram_endpoint(\n                    self._udp_protocol_creator(writer.get_extra_info("peername")),\n', 'new': '                client_addr = writer.get_extra_info("peername")\n                transport, protocol = await loop.create_datagram_endpoint(\n                    self._udp_protocol_creator(client_addr),\n'}]},
]
