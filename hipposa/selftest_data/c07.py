"""Self-test corpus for C07: text edits on a scratch overlay (never on /repo)."""
ADDONS = "hippolyzer/lib/proxy/addons.py"
EVENTS = "hippolyzer/lib/base/events.py"
LLUDP = "hippolyzer/lib/proxy/lludp_proxy.py"
PCIRC = "hippolyzer/lib/proxy/circuit.py"
BCIRC = "hippolyzer/lib/base/message/circuit.py"
MSG = "hippolyzer/lib/base/message/message.py"
MH = "hippolyzer/lib/base/message/message_handler.py"
RLV = "hippolyzer/lib/client/rlv.py"
SCHED = "hippolyzer/lib/proxy/task_scheduler.py"
HELPERS = "hippolyzer/lib/base/helpers.py"

_HOOK_TAIL = ("            return hook_func(*args, **kwargs)\n"
              "        except:\n"
              "            logging.exception(\"Exploded in %r's %s hook\" % (addon, hook_name))\n"
              "            if not cls._SWALLOW_ADDON_EXCEPTIONS:\n"
              "                raise\n")

_HOOK_TAIL_FIXED = ("            return ret if ret else None\n"
                    "        except:\n"
                    "            logging.exception(\"Exploded in %r's %s hook\" % (addon, hook_name))\n"
                    "            if not cls._SWALLOW_ADDON_EXCEPTIONS:\n"
                    "                raise\n")

_PRED_TRY = ("            try:\n"
             "                if predicate and not predicate(args):\n"
             "                    continue\n"
             "            except:\n"
             "                # A failing predicate shouldn't prevent notification of other handlers either.\n"
             "                LOG.exception(f\"Failed in predicate for {self.name}\")\n"
             "                continue\n")

_ONE_SHOT_TRY = ("                try:\n"
                 "                    self.unsubscribe(handler, *inner_args, **kwargs)\n"
                 "                except ValueError:\n"
                 "                    # An earlier handler already unsubscribed it during this notification,\n"
                 "                    # that shouldn't prevent notification of other handlers.\n"
                 "                    pass\n")

_SYNC_TRY = ("                try:\n"
             "                    if handler(args, *inner_args, **kwargs) and not one_shot:\n"
             "                        self.unsubscribe(handler, *inner_args, **kwargs)\n"
             "                except:\n"
             "                    # One handler failing shouldn't prevent notification of other handlers.\n"
             "                    LOG.exception(f\"Failed in handler for {self.name}\")\n")

_HANDLER_TRIES = ("        try:\n"
                  "            self.session.message_handler.handle(message)\n"
                  "        except:\n"
                  "            LOG.exception(\"Failed in session message handler\")\n"
                  "        try:\n"
                  "            region.message_handler.handle(message)\n"
                  "        except:\n"
                  "            LOG.exception(\"Failed in region message handler\")\n")

VARIANTS = [
    # ------------------------------------------------------------------ R1
    {"name": "R1 entry point calls hooks directly", "file": ADDONS, "expect": "C07.R1",
     "old": '            return cls._call_all_addon_hooks("handle_session_init", session)\n',
     "new": ('            for addon in cls._get_all_addon_objects():\n'
             '                addon.handle_session_init(session)\n'
             '            return None\n')},
    {"name": "R1 direct hook call from the UDP proxy", "file": LLUDP, "expect": "C07.R1",
     "old": "        message_logger = self.session_manager.message_logger\n\n        handled = ",
     "new": ("        message_logger = self.session_manager.message_logger\n"
             "        for extra in getattr(self.session_manager, 'extra_addons', []):\n"
             "            extra.handle_lludp_message(self.session, region, message)\n\n        handled = ")},
    {"name": "R1 command channel unguarded", "file": ADDONS, "expect": "C07.R1",
     "old": ("                    try:\n"
             "                        cls._handle_command(session, region, message[\"ChatData\"][\"Message\"])\n"
             "                    except Exception as e:\n"
             "                        LOG.exception(f'Failed while handling command {message[\"ChatData\"][\"Message\"]}')\n"
             "                        cls._show_message(str(e), session)\n"
             "                        if not cls._SWALLOW_ADDON_EXCEPTIONS:\n"
             "                            raise\n"),
     "new": "                    cls._handle_command(session, region, message[\"ChatData\"][\"Message\"])\n"},
    {"name": "R1 handler formats the hook's kwargs eagerly (f-string)", "file": ADDONS, "expect": "C07.R1",
     "old": "            logging.exception(\"Exploded in %r's %s hook\" % (addon, hook_name))\n",
     "new": "            logging.exception(f\"Exploded in {addon!r}'s {hook_name} hook, called with {kwargs!r}\")\n"},
    {"name": "R1 handler summarises the hook's args with a helper call", "file": ADDONS, "expect": "C07.R1",
     "old": "            logging.exception(\"Exploded in %r's %s hook\" % (addon, hook_name))\n",
     "new": "            logging.exception(\"Exploded in %r's %s hook\" % (addon, hook_name))\n"
            "            logging.error(\"first argument was %s\", str(args[0]) if args else None)\n"},
    {"name": "P R1 handler logs the hook's args lazily", "file": ADDONS, "expect": "silent",
     "old": "            logging.exception(\"Exploded in %r's %s hook\" % (addon, hook_name))\n",
     "new": "            logging.exception(\"Exploded in %r's %s hook, args: %r\", addon, hook_name, args)\n"},
    {"name": "R1 entry point asks the reload check to raise load errors", "file": ADDONS, "expect": "C07.R1",
     "old": "        cls._reload_addons()\n        with addon_ctx.push(session, region):\n"
            "            return cls._call_all_addon_hooks(\"handle_eq_event\"",
     "new": "        cls._reload_addons(raise_exceptions=True)\n        with addon_ctx.push(session, region):\n"
            "            return cls._call_all_addon_hooks(\"handle_eq_event\""},
    {"name": "P R1 entry point passes raise_exceptions=False explicitly", "file": ADDONS, "expect": "silent",
     "old": "        cls._reload_addons()\n        with addon_ctx.push(session, region):\n"
            "            return cls._call_all_addon_hooks(\"handle_eq_event\"",
     "new": "        cls._reload_addons(raise_exceptions=False)\n        with addon_ctx.push(session, region):\n"
            "            return cls._call_all_addon_hooks(\"handle_eq_event\""},
    {"name": "P R1 rename hook_func local", "expect": "silent",
     "edits": [{"file": ADDONS, "old": "hook_func", "new": "hook_callable", "all": True}]},
    # ------------------------------------------------------------------ R2
    {"name": "R2 predicate outside the try again (D5)", "file": EVENTS, "expect": "C07.R2",
     "old": _PRED_TRY, "new": "            if predicate and not predicate(args):\n                continue\n"},
    {"name": "R2 one-shot unsubscribe unguarded again (78d6a3d reverted)", "file": EVENTS, "expect": "C07.R2",
     "old": _ONE_SHOT_TRY, "new": "                self.unsubscribe(handler, *inner_args, **kwargs)\n"},
    {"name": "R2 one-shot unsubscribe guarded for the wrong exception", "file": EVENTS, "expect": "C07.R2",
     "old": _ONE_SHOT_TRY, "new": _ONE_SHOT_TRY.replace("except ValueError:", "except KeyError:")},
    {"name": "R2 handler failure re-raised", "file": EVENTS, "expect": "C07.R2",
     "old": _SYNC_TRY, "new": _SYNC_TRY + "                    raise\n"},
    {"name": "R2 failing predicate ends the loop", "file": EVENTS, "expect": "C07.R2",
     "old": _PRED_TRY, "new": _PRED_TRY.replace("                continue\n", "                break\n")},
    {"name": "R2 truthy-return unsubscribe moved after the try", "file": EVENTS, "expect": "C07.R2",
     "old": _SYNC_TRY,
     "new": ("                try:\n"
             "                    unsubscribe = handler(args, *inner_args, **kwargs)\n"
             "                except:\n"
             "                    LOG.exception(f\"Failed in handler for {self.name}\")\n"
             "                    continue\n"
             "                if unsubscribe and not one_shot:\n"
             "                    self.unsubscribe(handler, *inner_args, **kwargs)\n")},
    {"name": "R2 async handler awaited inline", "file": EVENTS, "expect": "C07.R2",
     "old": "                create_logged_task(_run_handler_wrapper(), self.name, LOG)\n",
     "new": "                asyncio.ensure_future(_run_handler_wrapper())\n"},
    {"name": "R2 one-shot removal only after the sync handler returned", "expect": "C07.R2",
     "edits": [{"file": EVENTS, "old": "            if one_shot:\n" + _ONE_SHOT_TRY,
                "new": "            if one_shot and asyncio.iscoroutinefunction(handler):\n" + _ONE_SHOT_TRY},
               {"file": EVENTS, "old": "                    if handler(args, *inner_args, **kwargs) and not one_shot:\n"
                                       "                        self.unsubscribe(handler, *inner_args, **kwargs)\n",
                "new": "                    done = handler(args, *inner_args, **kwargs)\n"
                       "                    if done or one_shot:\n"
                       "                        self.unsubscribe(handler, *inner_args, **kwargs)\n"}]},
    {"name": "P R2 loop over a local snapshot of the subscriber list", "file": EVENTS, "expect": "silent",
     "old": "        for handler in self.subscribers[:]:\n",
     "new": "        snapshot = list(self.subscribers)\n        for handler in snapshot:\n"},
    {"name": "R1 hot-reload bookkeeping deletes an mtime that may be gone", "file": ADDONS, "expect": "C07.R1",
     "old": "                    if importer in cls.FILE_MTIMES:\n                        del cls.FILE_MTIMES[importer]\n",
     "new": "                    del cls.FILE_MTIMES[importer]\n"},
    {"name": "P R1 hot-reload bookkeeping pops with a default", "file": ADDONS, "expect": "silent",
     "old": "                    if importer in cls.FILE_MTIMES:\n                        del cls.FILE_MTIMES[importer]\n",
     "new": "                    cls.FILE_MTIMES.pop(importer, None)\n"},
    {"name": "P R2 rename unpacked locals", "expect": "silent",
     "edits": [{"file": EVENTS, "old": "inner_args", "new": "sub_args", "all": True}]},
    {"name": "P R2 one-shot unsubscribe under a catch-all", "file": EVENTS, "expect": "silent",
     "old": _ONE_SHOT_TRY, "new": _ONE_SHOT_TRY.replace("except ValueError:", "except Exception:")},
    {"name": "P R2 truthy-return unsubscribe in its own try", "file": EVENTS, "expect": "silent",
     "old": _SYNC_TRY,
     "new": ("                try:\n"
             "                    unsubscribe = handler(args, *inner_args, **kwargs)\n"
             "                except:\n"
             "                    LOG.exception(f\"Failed in handler for {self.name}\")\n"
             "                    continue\n"
             "                if unsubscribe and not one_shot:\n"
             "                    try:\n"
             "                        self.unsubscribe(handler, *inner_args, **kwargs)\n"
             "                    except ValueError:\n"
             "                        LOG.debug('already unsubscribed')\n")},
    {"name": "P R2 loop body extracted into a per-subscriber helper", "file": EVENTS, "expect": "silent",
     "old": ("        for handler in self.subscribers[:]:\n"
             "            handler, inner_args, kwargs, one_shot, predicate = handler\n"),
     "new": ("        for handler in self.subscribers[:]:\n"
             "            self._notify_one(handler, args)\n"
             "\n"
             "    def _notify_one(self, handler, args):\n"
             "        for _once in (0,):\n"
             "            handler, inner_args, kwargs, one_shot, predicate = handler\n")},
    # ------------------------------------------------------------------ R3
    {"name": "R3 finalized guard removed from drop_message", "file": PCIRC, "expect": "C07.R3",
     "old": "        if message.finalized:\n            raise RuntimeError(f\"Trying to drop finalized {message!r}\")\n", "new": ""},
    {"name": "R3 finalized written by Message.to_dict", "file": MSG, "expect": "C07.R3",
     "old": "        self.ensure_parsed()\n        base_repr = {'message': self.name, 'body': {}}\n",
     "new": "        self.ensure_parsed()\n        self.finalized = True\n        base_repr = {'message': self.name, 'body': {}}\n"},
    {"name": "R3 take() queues a finalized original", "file": MSG, "expect": "C07.R3",
     "old": "        if not self.finalized:\n            self.queued = True\n", "new": "        self.queued = True\n"},
    {"name": "R3 take() un-finalizes the original", "file": MSG, "expect": "C07.R3",
     "old": "        message_copy.finalized = False\n", "new": "        message_copy.finalized = False\n        self.finalized = False\n"},
    {"name": "R3 copy keeps the dropped flag", "file": MSG, "expect": "C07.R3",
     "old": "        message_copy.dropped = False\n", "new": ""},
    {"name": "R3 prepare_message no longer refuses finalized messages", "file": BCIRC, "expect": "C07.R3",
     "old": "        if message.finalized:\n            raise RuntimeError(f\"Trying to re-send finalized {message!r}\")\n", "new": ""},
    {"name": "P R3 inverted guard form", "file": BCIRC, "expect": "silent",
     "old": "        if message.finalized:\n            raise RuntimeError(f\"Trying to re-send finalized {message!r}\")\n",
     "new": ("        if not message.finalized:\n            pass\n        else:\n"
             "            raise RuntimeError(f\"Trying to re-send finalized {message!r}\")\n")},
    {"name": "P R3 reorder the two independent flag stores", "file": PCIRC, "expect": "silent",
     "old": "        message.dropped = True\n        message.finalized = True\n",
     "new": "        message.finalized = True\n        message.dropped = True\n"},
    {"name": "P R3 logging between drop and finalize", "file": PCIRC, "expect": "silent",
     "old": "        message.dropped = True\n        message.finalized = True\n",
     "new": "        message.dropped = True\n        logging.debug('dropping %r' % (message.packet_id,))\n        message.finalized = True\n"},
    # ------------------------------------------------------------------ R4
    {"name": "R4 final send unguarded", "file": LLUDP, "expect": "C07.R4",
     "old": "        if not message.finalized:\n            region.circuit.send(message)\n",
     "new": "        region.circuit.send(message)\n"},
    {"name": "R4 second send before the hooks", "file": LLUDP, "expect": "C07.R4",
     "old": "        message_logger = self.session_manager.message_logger\n\n        handled = ",
     "new": "        message_logger = self.session_manager.message_logger\n        region.circuit.send(message)\n\n        handled = "},
    {"name": "R4 claimed message still forwarded", "file": LLUDP, "expect": "C07.R4",
     "old": "        if handled:\n            return\n", "new": "        if handled:\n            LOG.debug('claimed')\n"},
    {"name": "R4 claimed packet still parsed and forwarded", "file": LLUDP, "expect": "C07.R4",
     "old": "                                              self.session, region):\n            return\n",
     "new": "                                              self.session, region):\n            LOG.debug('claimed')\n"},
    {"name": "P R4 tail extracted into _forward()", "file": LLUDP, "expect": "silent",
     "old": "        if not message.finalized:\n            region.circuit.send(message)\n",
     "new": ("        self._forward(message, region)\n\n"
             "    def _forward(self, msg, region):\n"
             "        if not msg.finalized:\n            region.circuit.send(msg)\n")},
    {"name": "P R4 early return on finalized", "file": LLUDP, "expect": "silent",
     "old": "        if not message.finalized:\n            region.circuit.send(message)\n",
     "new": "        if message.finalized:\n            return\n        region.circuit.send(message)\n"},
    # ------------------------------------------------------------------ R5
    {"name": "R5 raw send_packet from the intercepting proxy", "file": LLUDP, "expect": "C07.R5",
     "old": "            LOG.error(\"No circuit for %r, dropping packet!\" % (packet.far_addr,))\n            return\n",
     "new": "            LOG.error(\"No circuit for %r, passing packet through\" % (packet.far_addr,))\n"
            "            self.transport.send_packet(packet)\n            return\n"},
    {"name": "R5 send_acks bypasses prepare_message", "file": BCIRC, "expect": "C07.R5",
     "old": "        message.direction = direction\n        self.send(message)\n",
     "new": "        message.direction = direction\n        self._send_prepared_message(message)\n"},
    {"name": "R5 send ignores prepare_message's verdict", "file": BCIRC, "expect": "C07.R5",
     "old": "        if self.prepare_message(message):\n", "new": "        self.prepare_message(message)\n        if True:\n"},
    {"name": "P R5 rename packet local in send_datagram", "file": BCIRC, "expect": "silent",
     "old": ("        packet = UDPPacket(src_addr, dst_addr, data, direction)\n"
             "        (transport or self.transport).send_packet(packet)\n        return packet\n"),
     "new": ("        pkt = UDPPacket(src_addr, dst_addr, data, direction)\n"
             "        (transport or self.transport).send_packet(pkt)\n        return pkt\n")},
    # ------------------------------------------------------------------ R6
    {"name": "R6 session handler outside a try", "file": LLUDP, "expect": "C07.R6",
     "old": _HANDLER_TRIES,
     "new": _HANDLER_TRIES.replace("        try:\n            self.session.message_handler.handle(message)\n        except:\n"
                                   "            LOG.exception(\"Failed in session message handler\")\n",
                                   "        self.session.message_handler.handle(message)\n")},
    {"name": "R6 region handler failure re-raised", "file": LLUDP, "expect": "C07.R6",
     "old": _HANDLER_TRIES, "new": _HANDLER_TRIES + "            raise\n"},
    {"name": "P R6 both handlers dispatched from a helper", "file": LLUDP, "expect": "silent",
     "edits": [{"file": LLUDP, "old": _HANDLER_TRIES, "new": "        self._run_message_handlers(region, message)\n"},
               {"file": LLUDP, "old": "    def close(self):\n        super().close()\n",
                "new": ("    def _run_message_handlers(self, region, message):\n" + _HANDLER_TRIES +
                        "\n    def close(self):\n        super().close()\n")}]},
    {"name": "P R6 except BaseException", "file": LLUDP, "expect": "silent",
     "old": _HANDLER_TRIES, "new": _HANDLER_TRIES.replace("        except:\n", "        except BaseException:\n")},
    # ------------------------------------------------------------------ R7
    {"name": "R7 no short circuit across modules", "file": ADDONS, "expect": "C07.R7",
     "old": ("            ret = cls._call_module_hooks(module, hook_name, *args, call_async=call_async, **kwargs)\n"
             "            if ret:\n                return ret\n"),
     "new": "            ret = cls._call_module_hooks(module, hook_name, *args, call_async=call_async, **kwargs)\n"},
    {"name": "R7 truthy result skipped inside a module", "file": ADDONS, "expect": "C07.R7",
     "old": ("            ret = cls._try_call_hook(addon, hook_name, *args, call_async=call_async, **kwargs)\n"
             "            if ret:\n                return ret\n"),
     "new": ("            ret = cls._try_call_hook(addon, hook_name, *args, call_async=call_async, **kwargs)\n"
             "            if ret:\n                continue\n")},
    {"name": "P R7 collect into a local then return", "file": ADDONS, "expect": "silent",
     "old": ("            ret = cls._call_module_hooks(module, hook_name, *args, call_async=call_async, **kwargs)\n"
             "            if ret:\n                return ret\n\n        return None\n"),
     "new": ("            ret = cls._call_module_hooks(module, hook_name, *args, call_async=call_async, **kwargs)\n"
             "            if ret:\n                claimed = ret\n                break\n        else:\n            claimed = None\n\n"
             "        return claimed\n")},
    # ------------------------------------------------------------------ R8
    {"name": "P R8 wait_for handler removed from the first notifier only (takes at most once since D33)", "file": MH, "expect": "silent",
     "old": "            # Make sure to unregister this handler for all message types\n            for n in notifiers:\n"
            "                n.unsubscribe(_handler)\n",
     "new": "            notifiers[0].unsubscribe(_handler)\n"},
    {"name": "P R8 wait_for handler unsubscribes only when it completed the future (takes at most once since D33)", "file": MH,
     "expect": "silent",
     "old": '            if not fut.done():\n                # Whatever was awaiting this future now owns this message\n                if take:\n                    message = message.take()\n                fut.set_result(message)\n            # Make sure to unregister this handler for all message types\n            for n in notifiers:\n                n.unsubscribe(_handler)\n',
     "new": '            if not fut.done():\n                # Whatever was awaiting this future now owns this message\n                if take:\n                    message = message.take()\n                fut.set_result(message)\n                for n in notifiers:\n                    n.unsubscribe(_handler)\n'},
    {"name": "R8 wait_for handler takes the message before asking whether anybody still waits (71c6441 reverted)", "file": MH,
     "expect": "C07.R8", "old": '            if not fut.done():\n                # Whatever was awaiting this future now owns this message\n                if take:\n                    message = message.take()\n                fut.set_result(message)\n',
     "new": "            if take:\n                message = message.take()\n"
            "            if not fut.done():\n                fut.set_result(message)\n"},
    {"name": "P R8 liveness test as a guard clause around take()", "file": MH, "expect": "silent", "old": '            if not fut.done():\n                # Whatever was awaiting this future now owns this message\n                if take:\n                    message = message.take()\n                fut.set_result(message)\n',
     "new": "            waiting = not fut.done()\n            if waiting:\n                if take:\n"
            "                    message = message.take()\n                fut.set_result(message)\n"},
    {"name": "R8 unsubscription by return value and the pending-future test removed", "file": MH, "expect": "C07.R8",
     "old": '            if not fut.done():\n                # Whatever was awaiting this future now owns this message\n                if take:\n                    message = message.take()\n                fut.set_result(message)\n            # Make sure to unregister this handler for all message types\n            for n in notifiers:\n                n.unsubscribe(_handler)\n',
     "new": "            if take:\n                message = message.take()\n"
            "            if not fut.done():\n                fut.set_result(message)\n"
            "            # returning a truthy value makes the notifier that fired drop this handler\n            return True\n"},
    {"name": "R8 stale registration of a handler that takes unconditionally (first notifier only)", "file": MH, "expect": "C07.R8",
     "old": '            if not fut.done():\n                # Whatever was awaiting this future now owns this message\n                if take:\n                    message = message.take()\n                fut.set_result(message)\n            # Make sure to unregister this handler for all message types\n            for n in notifiers:\n                n.unsubscribe(_handler)\n',
     "new": "            if take:\n                message = message.take()\n"
            "            if not fut.done():\n                fut.set_result(message)\n"
            "            notifiers[0].unsubscribe(_handler)\n"},
    {"name": "R8 subscribe_async cleanup no longer in a finally", "file": MH, "expect": "C07.R8",
     "old": "        try:\n            yield _get_wrapper\n        finally:\n            for n in notifiers:\n"
            "                n.unsubscribe(_handler_wrapper)\n",
     "new": "        yield _get_wrapper\n        for n in notifiers:\n            n.unsubscribe(_handler_wrapper)\n"},
    {"name": "P R8 unsubscribe everywhere before completing the future", "file": MH, "expect": "silent",
     "old": '            if not fut.done():\n                # Whatever was awaiting this future now owns this message\n                if take:\n                    message = message.take()\n                fut.set_result(message)\n            # Make sure to unregister this handler for all message types\n            for n in notifiers:\n                n.unsubscribe(_handler)\n',
     "new": '            for event in notifiers:\n                event.unsubscribe(_handler)\n            if not fut.done():\n                # Whatever was awaiting this future now owns this message\n                if take:\n                    message = message.take()\n                fut.set_result(message)\n'},
    {"name": "P R8 notifier list kept under another name", "file": MH, "expect": "silent",
     "old": "        notifiers = self._subscribe_all(message_names, _handler_wrapper, predicate=predicate)\n",
     "new": "        registered = self._subscribe_all(message_names, _handler_wrapper, predicate=predicate)\n"
            "        notifiers = registered\n"},
    {"name": "R8 taken copy discarded when parking it fails", "file": MH, "expect": "C07.R8",
     "old": "            msg_queue.put_nowait(message)\n",
     "new": "            try:\n                msg_queue.put_nowait(message)\n            except Exception:\n"
            "                LOG.warning('could not park %r' % (message,))\n"},
    {"name": "P R8 parking failure logged and re-raised", "file": MH, "expect": "silent",
     "old": "            msg_queue.put_nowait(message)\n",
     "new": "            try:\n                msg_queue.put_nowait(message)\n            except Exception:\n"
            "                LOG.warning('could not park %r' % (message,))\n                raise\n"},
    {"name": "R8 parking queue bounded", "file": MH, "expect": "C07.R8",
     "old": "        msg_queue = asyncio.Queue()\n", "new": "        msg_queue = asyncio.Queue(maxsize=500)\n"},
    {"name": "P R8 parking queue explicitly unbounded", "file": MH, "expect": "silent",
     "old": "        msg_queue = asyncio.Queue()\n", "new": "        msg_queue = asyncio.Queue(maxsize=0)\n"},
    {"name": "R3 take() marks the original queued before copying it", "file": MSG, "expect": "C07.R3",
     "old": '        message_copy = copy.deepcopy(self)\n\n        # Set the queued flag so the original will be dropped and acks will be sent\n        if not self.finalized:\n            self.queued = True\n',
     "new": "        # Set the queued flag so the original will be dropped and acks will be sent\n"
            "        if not self.finalized:\n            self.queued = True\n\n        message_copy = copy.deepcopy(self)\n"},
    {"name": "P R3 take() logs after marking the original", "file": MSG, "expect": "silent",
     "old": '        message_copy = copy.deepcopy(self)\n\n        # Set the queued flag so the original will be dropped and acks will be sent\n        if not self.finalized:\n            self.queued = True\n',
     "new": "        message_copy = copy.deepcopy(self)\n\n        # Set the queued flag so the original will be dropped and acks will be sent\n        if not self.finalized:\n            self.queued = True\n            logging.debug('taken %s' % (self.name,))\n"},
    {"name": "R1 mtime helper tolerates only some stat failures", "file": HELPERS, "expect": "C07.R1",
     "old": "        return os.stat(path).st_mtime\n    except:\n        return None\n",
     "new": "        return os.stat(path).st_mtime\n    except (FileNotFoundError, PermissionError):\n        return None\n"},
    {"name": "P R1 mtime helper catches OSError", "file": HELPERS, "expect": "silent",
     "old": "        return os.stat(path).st_mtime\n    except:\n        return None\n",
     "new": "        return os.stat(path).st_mtime\n    except OSError:\n        return None\n"},
    # ------------------------------------------------------------------ R9
    {"name": "X empty RLV message counted as handled again (now dropped and acked cleanly; whether an empty command "
             "list is 'handled' is value-level)", "file": ADDONS, "expect": "miss",
     "old": "                all_cmds_handled = bool(commands)\n", "new": "                all_cmds_handled = True\n"},
    {"name": "R9 RLV claim no longer drops the message", "file": ADDONS, "expect": "C07.R9",
     "old": '                if all_cmds_handled:\n                    if not message.finalized:\n                        region.circuit.drop_message(message)\n                    return True\n', "new": "                if all_cmds_handled:\n                    return True\n"},
    {"name": "R9 message dropped once per handled RLV command (7741823 reverted)", "expect": "C07.R9",
     "edits": [{"file": ADDONS, "old": "                        if not handled:\n                            all_cmds_handled = False\n",
                "new": "                        if handled:\n                            region.circuit.drop_message(message)\n"
                       "                        else:\n                            all_cmds_handled = False\n"},
               {"file": ADDONS, "old": '                if all_cmds_handled:\n                    if not message.finalized:\n                        region.circuit.drop_message(message)\n                    return True\n', "new": "                if all_cmds_handled:\n                    return True\n"}]},
    {"name": "P R9 RLV claim drops through an early-exit test on finalized", "file": ADDONS, "expect": "silent",
     "old": '                if all_cmds_handled:\n                    if not message.finalized:\n                        region.circuit.drop_message(message)\n                    return True\n',
     "new": "                if all_cmds_handled:\n                    if not message.finalized:\n"
            "                        LOG.debug('dropping handled RLV chat')\n"
            "                        region.circuit.drop_message(message)\n                    return True\n"},
    {"name": "P R9 non-empty test moved into the claim condition", "expect": "silent",
     "edits": [{"file": ADDONS, "old": "                all_cmds_handled = bool(commands)\n", "new": "                all_cmds_handled = True\n"},
               {"file": ADDONS, "old": "                if all_cmds_handled:\n                    if not message.finalized:\n",
                "new": "                if commands and all_cmds_handled:\n                    if not message.finalized:\n"}]},
    # ------------------------------------------------------------------ R10
    {"name": "R10 RLV sniffing calls startswith on undecoded chat again (D29 reverted)", "file": RLV, "expect": "C07.R10",
     "old": "chat_type == ChatType.OWNER and isinstance(chat, str) and chat.startswith(\"@\")",
     "new": "chat_type == ChatType.OWNER and chat.startswith(\"@\")"},
    {"name": "P R10 isinstance test as a guard clause", "file": RLV, "expect": "silent",
     "old": "        return chat_type == ChatType.OWNER and isinstance(chat, str) and chat.startswith(\"@\")\n",
     "new": "        if not isinstance(chat, str):\n            return False\n"
            "        return chat_type == ChatType.OWNER and chat.startswith(\"@\")\n"},
    {"name": "R10 RLV command parsed with an unchecked re.match", "expect": "C07.R10",
     "edits": [{"file": RLV, "old": "            options, _, param = command_str.partition(\"=\")\n"
                                    "            behaviour, _, options = options.partition(\":\")\n",
                "new": "            found = re.match(r\"([^:=]+)(?::([^=]*))?=(\\w*)\", command_str)\n"
                       "            behaviour, options, param = found.group(1), found.group(2) or \"\", found.group(3)\n"},
               {"file": RLV, "old": "from typing import NamedTuple, List, Sequence\n",
                "new": "import re\nfrom typing import NamedTuple, List, Sequence\n"}]},
    {"name": "P R10 RLV command parsed with re.match and a None check", "expect": "silent",
     "edits": [{"file": RLV, "old": "            options, _, param = command_str.partition(\"=\")\n"
                                    "            behaviour, _, options = options.partition(\":\")\n",
                "new": "            found = re.match(r\"([^:=]+)(?::([^=]*))?=(\\w*)\", command_str)\n"
                       "            if found is None:\n                continue\n"
                       "            behaviour, options, param = found.group(1), found.group(2) or \"\", found.group(3)\n"},
               {"file": RLV, "old": "from typing import NamedTuple, List, Sequence\n",
                "new": "import re\nfrom typing import NamedTuple, List, Sequence\n"}]},
    {"name": "R10 scheduler truth-tests the creator proxy", "file": SCHED, "expect": "C07.R10",
     "old": "            if task_data.scope & lifetime_mask:\n", "new": "            if task_data.creator and task_data.scope & lifetime_mask:\n"},
    {"name": "P R10 scheduler compares the creator proxy with None", "file": SCHED, "expect": "silent",
     "old": "            if task_data.scope & lifetime_mask:\n",
     "new": "            if task_data.creator is not None and task_data.scope & lifetime_mask:\n"},
    {"name": "R10 scheduler compares creators by class through the proxy", "file": SCHED, "expect": "C07.R10",
     "old": "            if creator and creator == task_data.creator:\n",
     "new": "            if creator and type(creator) is task_data.creator.__class__ and creator == task_data.creator:\n"},
    {"name": "P R10 scheduler dereferences the proxy under a ReferenceError handler", "file": SCHED, "expect": "silent",
     "old": "            if task_data.scope & lifetime_mask:\n                task.cancel()\n",
     "new": "            if task_data.scope & lifetime_mask:\n                try:\n"
            "                    owner = task_data.creator.__class__.__name__\n                except ReferenceError:\n"
            "                    owner = 'a dead addon'\n                task.cancel(msg=owner)\n"},
    # ------------------------------------------------------------------ P2 loop-closure (structlint)
    {"name": "P2 async wrapper closes over the loop variables again (5f8d112 reverted)", "file": EVENTS, "expect": "C07.P2",
     "old": '                async def _run_handler_wrapper(handler=handler, inner_args=inner_args, kwargs=kwargs):\n', "new": "                async def _run_handler_wrapper():\n"},
    {"name": "P P2 loop values bound with functools.partial", "expect": "silent",
     "edits": [{"file": EVENTS, "old": '                async def _run_handler_wrapper(handler=handler, inner_args=inner_args, kwargs=kwargs):\n', "new": "                async def _run_handler_wrapper(handler, inner_args, kwargs):\n"},
               {"file": EVENTS, "old": "                create_logged_task(_run_handler_wrapper(), self.name, LOG)\n",
                "new": "                bound = functools.partial(_run_handler_wrapper, handler, inner_args, kwargs)\n"
                       "                create_logged_task(bound(), self.name, LOG)\n"},
               {"file": EVENTS, "old": "import asyncio\nimport logging\n", "new": "import asyncio\nimport functools\nimport logging\n"}]},
    # ------------------------------------------------------------------ audit round (variants anchored on the FIXED text)
    {"name": "R3 tail drops a taken original again although it is finalized (audit fix 1 reverted)", "file": LLUDP, "expect": "C07.R3",
     "old": "        if message.queued and not message.finalized:\n", "new": "        if message.queued:\n"},
    {"name": "P R3 tail drop guard as nested ifs", "file": LLUDP, "expect": "silent",
     "old": "        if message.queued and not message.finalized:\n            region.circuit.drop_message(message)\n",
     "new": "        if message.queued:\n            if not message.finalized:\n                region.circuit.drop_message(message)\n"},
    {"name": "R3 command channel drops an already finalized chat (audit fix 2 reverted)", "file": ADDONS, "expect": "C07.R3",
     "old": "                if not message.finalized:\n                    region.circuit.drop_message(message)\n"
            "                with addon_ctx.push(session, region):\n",
     "new": "                region.circuit.drop_message(message)\n                with addon_ctx.push(session, region):\n"},
    {"name": "P R3 command channel drop guard with a comment and a debug line", "file": ADDONS, "expect": "silent",
     "old": "                if not message.finalized:\n                    region.circuit.drop_message(message)\n"
            "                with addon_ctx.push(session, region):\n",
     "new": "                if not message.finalized:\n                    LOG.debug('claiming command chat')\n"
            "                    region.circuit.drop_message(message)\n                with addon_ctx.push(session, region):\n"},
    {"name": "R1 raw hook result returned out of the guarded region (audit fix 3 reverted)", "file": ADDONS, "expect": "C07.R1",
     "old": "            ret = hook_func(*args, **kwargs)\n", "new": "            return hook_func(*args, **kwargs)\n            ret = None\n"},
    {"name": "P R1 hook result truth-tested with an explicit if inside the try", "file": ADDONS, "expect": "silent",
     "old": "            return ret if ret else None\n",
     "new": "            if not ret:\n                return None\n            return ret\n"},
    {"name": "R3 dropping a message without packet id is forgotten (audit fix 4 reverted)", "file": PCIRC, "expect": "C07.R3",
     "old": "            message.dropped = True\n            message.finalized = True\n            return\n", "new": "            return\n"},
    {"name": "P R3 flags set before the packet id test", "expect": "silent",
     "edits": [{"file": PCIRC, "old": "            message.dropped = True\n            message.finalized = True\n            return\n",
                "new": "            return\n"},
               {"file": PCIRC, "old": "            raise RuntimeError(f\"Trying to drop finalized {message!r}\")\n        if message.packet_id is None:\n",
                "new": "            raise RuntimeError(f\"Trying to drop finalized {message!r}\")\n        message.dropped = True\n"
                       "        message.finalized = True\n        if message.packet_id is None:\n"},
               {"file": PCIRC, "old": "        fwd_injections.mark_dropped(message.packet_id)\n        message.dropped = True\n"
                                      "        message.finalized = True\n",
                "new": "        fwd_injections.mark_dropped(message.packet_id)\n"}]},
    # ---- twins of earlier variants re-anchored on the text of the audit fixes (inapplicable until those are committed)
    {"name": "R1 hook re-raised unconditionally [post-audit text]", "file": ADDONS, "expect": "C07.R1",
     "old": _HOOK_TAIL_FIXED, "new": _HOOK_TAIL_FIXED.replace("            if not cls._SWALLOW_ADDON_EXCEPTIONS:\n                raise\n",
                                                              "            raise\n")},
    {"name": "R1 hook called after the try [post-audit text]", "file": ADDONS, "expect": "C07.R1",
     "old": _HOOK_TAIL_FIXED,
     "new": ("            pass\n"
             "        except:\n"
             "            logging.exception(\"Exploded in %r's %s hook\" % (addon, hook_name))\n"
             "            if not cls._SWALLOW_ADDON_EXCEPTIONS:\n"
             "                raise\n"
             "        ret = hook_func(*args, **kwargs)\n        return ret if ret else None\n")},
    {"name": "R1 failing hook claims the message [post-audit text]", "file": ADDONS, "expect": "C07.R1",
     "old": _HOOK_TAIL_FIXED, "new": _HOOK_TAIL_FIXED + "            return True\n"},
    {"name": "P R1 bare except -> except BaseException [post-audit text]", "file": ADDONS, "expect": "silent",
     "old": _HOOK_TAIL_FIXED, "new": _HOOK_TAIL_FIXED.replace("        except:\n", "        except BaseException:\n")},
    {"name": "R3 drop finalized only after the acks went out [post-audit text]", "expect": "C07.R3",
     "edits": [{"file": PCIRC, "old": "packet_id)\n        message.dropped = True\n        message.finalized = True\n",
                "new": "packet_id)\n        message.dropped = True\n"},
               {"file": PCIRC, "old": "            self.send_acks(effective_acks, message.direction, packet_id=wire_id)\n",
                "new": "            self.send_acks(effective_acks, message.direction, packet_id=wire_id)\n"
                       "        message.finalized = True\n"}]},
    {"name": "P R1 nested-if form of the swallow test [post-audit text]", "file": ADDONS, "expect": "silent",
     "old": _HOOK_TAIL_FIXED,
     "new": _HOOK_TAIL_FIXED.replace("            if not cls._SWALLOW_ADDON_EXCEPTIONS:\n                raise\n",
                                     "            if cls._SWALLOW_ADDON_EXCEPTIONS:\n                return None\n            raise\n")},
    {"name": "P R9 command message dropped in a finally around the dispatch [post-audit text]", "file": ADDONS, "expect": "silent",
     "old": ("                if not message.finalized:\n                    region.circuit.drop_message(message)\n"
             "                with addon_ctx.push(session, region):\n"),
     "new": ("                try:\n                    pass\n                finally:\n"
             "                    if not message.finalized:\n                        region.circuit.drop_message(message)\n"
             "                with addon_ctx.push(session, region):\n")},
    {"name": "R4 queued original not dropped [post-audit text]", "file": LLUDP, "expect": "C07.R4",
     "old": "        if message.queued and not message.finalized:\n            region.circuit.drop_message(message)\n", "new": ""},
    {"name": "R4 unconditional drop [post-audit text]", "file": LLUDP, "expect": "C07.R4",
     "old": "        if message.queued and not message.finalized:\n            region.circuit.drop_message(message)\n",
     "new": "        if not message.finalized:\n            region.circuit.drop_message(message)\n"},
    {"name": "R4 queued original dropped only when reliable [post-audit text]", "file": LLUDP, "expect": "C07.R4",
     "old": "        if message.queued and not message.finalized:\n",
     "new": "        if message.queued and message.reliable and not message.finalized:\n"},
    {"name": "R9 command message dropped only after the command dispatch succeeded [post-audit text]", "file": ADDONS, "expect": "C07.R9",
     "old": ("                if not message.finalized:\n                    region.circuit.drop_message(message)\n"
             "                with addon_ctx.push(session, region):\n"
             "                    try:\n"
             "                        cls._handle_command(session, region, message[\"ChatData\"][\"Message\"])\n"),
     "new": ("                with addon_ctx.push(session, region):\n"
             "                    try:\n"
             "                        cls._handle_command(session, region, message[\"ChatData\"][\"Message\"])\n"
             "                        if not message.finalized:\n"
             "                            region.circuit.drop_message(message)\n")},
    {"name": "R9 command message claimed without being dropped [post-audit text]", "file": ADDONS, "expect": "C07.R9",
     "old": ("                if not message.finalized:\n                    region.circuit.drop_message(message)\n"
             "                with addon_ctx.push(session, region):\n"),
     "new": "                with addon_ctx.push(session, region):\n"},
    # ------------------------------------------------------------------ documented limits
    {"name": "R7 only `is True` claims (truthy non-bool results ignored)", "file": ADDONS, "expect": "C07.R7",
     "old": ("            ret = cls._try_call_hook(addon, hook_name, *args, call_async=call_async, **kwargs)\n"
             "            if ret:\n                return ret\n"),
     "new": ("            ret = cls._try_call_hook(addon, hook_name, *args, call_async=call_async, **kwargs)\n"
             "            if ret is True:\n                return ret\n")},
    {"name": "X swallow flag defaults to off (configuration value, not structure)", "file": ADDONS, "expect": "miss",
     "old": "             swallow_addon_exceptions=True):", "new": "             swallow_addon_exceptions=False):"},
    {"name": "X take() returns a shallow copy (blocks shared with the dropped original; value-level)", "file": MSG, "expect": "miss",
     "old": "        message_copy = copy.deepcopy(self)\n", "new": "        message_copy = copy.copy(self)\n"},
]
