"""Self-test corpus for C08: text edits on a scratch overlay (never on /repo)."""
SER = "hippolyzer/lib/base/serialization.py"
HELPERS = "hippolyzer/lib/base/helpers.py"
MESH = "hippolyzer/lib/base/mesh.py"
DES = "hippolyzer/lib/base/message/udpdeserializer.py"
TEMPL = "hippolyzer/lib/base/templates.py"

VARIANTS = [
    # ------------------------------------------------------------------ R1 breaking
    {"name": "R1 OptionalPrefixed writes the value before the presence flag", "file": SER, "expect": "C08.R1",
     "old": "        writer.write(U8, val is not None, ctx=ctx)\n        if val is not None:\n"
            "            writer.write(self._ser_spec, val, ctx=ctx)\n",
     "new": "        if val is not None:\n            writer.write(self._ser_spec, val, ctx=ctx)\n"
            "        writer.write(U8, val is not None, ctx=ctx)\n"},
    {"name": "R1 ByteArray reads its length as U8 whatever the length spec", "file": SER, "expect": "C08.R1",
     "old": "bytes_len = reader.read(self._len_spec, ctx=ctx)", "new": "bytes_len = reader.read(U8, ctx=ctx)"},
    {"name": "R1 Tuple.deserialize walks the element specs reversed", "file": SER, "expect": "C08.R1",
     "old": "        for p in self._prim_seq:\n            entries.append(reader.read(p, ctx=ctx))",
     "new": "        for p in reversed(self._prim_seq):\n            entries.append(reader.read(p, ctx=ctx))"},
    {"name": "R1 FlagSwitch.serialize writes choices in the value's key order (seed 2)", "file": SER, "expect": "C08.R1",
     "old": "        for flag, choice_spec in self._choice_specs.items():\n            if flag in vals:\n"
            "                writer.write(choice_spec, vals[flag], ctx=ctx)\n            elif flag.name in vals:\n"
            "                writer.write(choice_spec, vals[flag.name], ctx=ctx)\n",
     "new": "        for flag, val in vals.items():\n            if isinstance(flag, str):\n"
            "                flag = self._flag_spec.flag_cls[flag]\n            if flag in self._choice_specs:\n"
            "                writer.write(self._choice_specs[flag], val, ctx=ctx)\n"},
    {"name": "R1 Template.deserialize reads fields in sorted key order", "file": SER, "expect": "C08.R1",
     "old": "        for field_name, field_type in self._template_spec.items():\n            val = field_type.deserialize(reader, ctx=ctx)",
     "new": "        for field_name, field_type in sorted(self._template_spec.items()):\n            val = field_type.deserialize(reader, ctx=ctx)"},
    {"name": "R1 VertexWeights stops writing the terminator", "file": MESH, "expect": "C08.R1",
     "old": "        if len(vals) != cls.INFLUENCE_LIMIT:\n            writer.write(se.U8, cls.INFLUENCE_TERM)\n", "new": ""},
    {"name": "R1 EnumSwitch writes the payload before the discriminator", "file": SER, "expect": "C08.R1",
     "old": "        writer.write(self._enum_spec, flag, ctx=ctx)\n        if isinstance(flag, str):\n"
            "            flag = self._enum_spec.enum_cls[flag]\n        writer.write(self._choice_specs[flag], val, ctx=ctx)\n",
     "new": "        orig_flag = flag\n        if isinstance(flag, str):\n"
            "            flag = self._enum_spec.enum_cls[flag]\n        writer.write(self._choice_specs[flag], val, ctx=ctx)\n"
            "        writer.write(self._enum_spec, orig_flag, ctx=ctx)\n"},
    {"name": "R1 TypedBytes inner reader parses the framing spec instead of the payload spec", "file": SER, "expect": "C08.R1",
     "old": "        val = inner_reader.read(self._spec, ctx=ctx)", "new": "        val = inner_reader.read(self._bytes_tmpl, ctx=ctx)"},
    {"name": "R1 Collection reads the count after the first element", "file": SER, "expect": "C08.R1",
     "old": "            if self._len_spec:\n                size = reader.read(self._len_spec, ctx=ctx)\n",
     "new": "            if self._len_spec:\n                entries.append(reader.read(self._entry_ser, ctx=ctx))\n"
            "                size = reader.read(self._len_spec, ctx=ctx) - 1\n"},
    # ------------------------------------------------------------------ R1 preserving
    {"name": "P R1 TupleCoord.deserialize generator -> explicit loop", "file": SER, "expect": "silent",
     "old": "        vals = (reader.read(cls.ELEM_SPEC, ctx=ctx) for _ in range(cls.NUM_ELEMS))\n",
     "new": "        vals = []\n        for _idx in range(cls.NUM_ELEMS):\n            vals.append(reader.read(cls.ELEM_SPEC, ctx=ctx))\n"},
    {"name": "P R1 FlagSwitch.deserialize dict comprehension -> loop with continue", "file": SER, "expect": "silent",
     "old": "        return {\n            choice_flag.name if self.need_pod(reader) else choice_flag:\n"
            "                reader.read(choice_spec, ctx=ctx)\n"
            "            for choice_flag, choice_spec in self._choice_specs.items()\n"
            "            if flags & choice_flag.value\n        }\n",
     "new": "        out = {}\n        for member, member_spec in self._choice_specs.items():\n"
            "            if not (flags & member.value):\n                continue\n"
            "            out[member.name if self.need_pod(reader) else member] = reader.read(member_spec, ctx=ctx)\n"
            "        return out\n"},
    {"name": "P R1/R2 ByteArray.serialize body extracted into a helper", "file": SER, "expect": "silent",
     "old": "    def serialize(self, instance, writer: BufferWriter, ctx):\n        max_val = self._len_spec.max_val\n"
            "        if max_val < len(instance):\n            raise ValueError(f\"{instance!r} is wider than {max_val}\")\n"
            "        writer.write(self._len_spec, len(instance), ctx=ctx)\n        writer.write_bytes(instance)\n",
     "new": "    def _write_prefixed(self, data, out, ctx):\n        limit = self._len_spec.max_val\n"
            "        if limit < len(data):\n            raise ValueError(f\"{data!r} is wider than {limit}\")\n"
            "        out.write(self._len_spec, len(data), ctx=ctx)\n\n"
            "    def serialize(self, instance, writer: BufferWriter, ctx):\n"
            "        self._write_prefixed(instance, writer, ctx)\n        writer.write_bytes(instance)\n"},
    {"name": "P R1 OptionalPrefixed.deserialize early return inverted", "file": SER, "expect": "silent",
     "old": "        if present:\n            return reader.read(self._ser_spec, ctx=ctx)\n        return None\n",
     "new": "        if not present:\n            return None\n        result = reader.read(self._ser_spec, ctx=ctx)\n        return result\n"},
    {"name": "P R1 EnumSwitch.deserialize locals renamed, spec hoisted into a local", "file": SER, "expect": "silent",
     "old": "        choice_flag = flag\n        # POD mode, need to get the actual enum val to do the lookup\n"
            "        if isinstance(flag, str):\n            choice_flag = self._enum_spec.enum_cls[choice_flag]\n"
            "        val = flag, reader.read(self._choice_specs[choice_flag], ctx=ctx)\n",
     "new": "        lookup = flag\n        if isinstance(flag, str):\n            lookup = self._enum_spec.enum_cls[lookup]\n"
            "        payload_spec = self._choice_specs[lookup]\n        val = flag, reader.read(payload_spec, ctx=ctx)\n"},
    {"name": "P R1 Tuple.serialize zip loop -> index loop over the spec table", "file": SER, "expect": "silent",
     "old": "        for p, v in zip(self._prim_seq, vals):\n            writer.write(p, v, ctx=ctx)\n",
     "new": "        for i, p in enumerate(self._prim_seq):\n            writer.write(p, vals[i], ctx=ctx)\n"},
    {"name": "P R1 Adapter.serialize via spec.serialize instead of writer.write", "file": SER, "expect": "silent",
     "old": "        writer.write(self._child_spec, self.encode(val, ctx), ctx=ctx)",
     "new": "        encoded = self.encode(val, ctx)\n        self._child_spec.serialize(encoded, writer, ctx=ctx)"},
    # ------------------------------------------------------------------ R2 breaking
    {"name": "R2 ByteArray max_val test deleted", "file": SER, "expect": "C08.R2",
     "old": "        if max_val < len(instance):\n            raise ValueError(f\"{instance!r} is wider than {max_val}\")\n", "new": ""},
    {"name": "R2 ByteArray max_val test flipped", "file": SER, "expect": "C08.R2",
     "old": "        if max_val < len(instance):\n            raise ValueError(f\"{instance!r} is wider", "new":
            "        if max_val > len(instance):\n            raise ValueError(f\"{instance!r} is wider"},
    {"name": "R2 Collection max length test deleted", "file": SER, "expect": "C08.R2",
     "old": "            if max_len is not None and max_len < len(entries):\n"
            "                raise ValueError(f\"{len(entries)} is wider than {max_len}\")\n", "new": "            pass\n"},
    {"name": "R2 Collection fixed length test deleted", "file": SER, "expect": "C08.R2",
     "old": "            if len(entries) != self._length:\n"
            "                raise ValueError(f\"Need exactly {self._length} entries, got {len(entries)}\")\n",
     "new": "            pass\n"},
    {"name": "R2 BytesFixed size test deleted", "file": SER, "expect": "C08.R2",
     "old": "        if len(instance) != self._size:\n            raise ValueError(f\"length of {instance!r} is not {self._size}\")\n",
     "new": ""},
    {"name": "R2 StrFixed overflow only logged", "file": SER, "expect": "C08.R2",
     "old": "        if len(instance) > self._length:\n            raise ValueError(f\"{instance!r} can't fit in {self._length}\")\n",
     "new": "        if len(instance) > self._length:\n            instance = instance[:self._length]\n"},
    {"name": "R2 BitField unshifted member check dropped", "file": HELPERS, "expect": "C08.R2",
     "old": "                if val != val & mask:\n                    raise ValueError(\"%r doesn't fit within mask %r\" % (val, mask))\n",
     "new": ""},
    {"name": "R2 VertexWeights influence limit not enforced", "file": MESH, "expect": "C08.R2",
     "old": "        if len(vals) > cls.INFLUENCE_LIMIT:\n            raise ValueError(", "new":
            "        if len(vals) > cls.INFLUENCE_LIMIT:\n            LOG.warning("},
    # ------------------------------------------------------------------ R2 preserving
    {"name": "P R2 ByteArray test written the other way round", "file": SER, "expect": "silent",
     "old": "        if max_val < len(instance):\n            raise ValueError(f\"{instance!r} is wider", "new":
            "        if len(instance) > max_val:\n            raise ValueError(f\"{instance!r} is wider"},
    {"name": "P R2 BytesFixed guard as if/else", "file": SER, "expect": "silent",
     "old": "        if len(instance) != self._size:\n            raise ValueError(f\"length of {instance!r} is not {self._size}\")\n"
            "        writer.write_bytes(instance)\n",
     "new": "        if len(instance) == self._size:\n            writer.write_bytes(instance)\n        else:\n"
            "            raise ValueError(f\"length of {instance!r} is not {self._size}\")\n"},
    {"name": "P R2 Collection limit through a plain attribute read", "file": SER, "expect": "silent",
     "old": "            max_len = getattr(self._len_spec, 'max_val', None)\n", "new": "            max_len = self._len_spec.max_val\n"},
    # ------------------------------------------------------------------ R3 breaking
    {"name": "R3 Tuple.calc_size plain sum again (D6)", "file": SER, "expect": "C08.R3",
     "old": "        sizes = [p.calc_size() for p in self._prim_seq]\n        # No fixed size unless every element has one\n"
            "        if any(size is None for size in sizes):\n            return None\n        return sum(sizes)\n",
     "new": "        return sum(p.calc_size() for p in self._prim_seq)\n"},
    {"name": "R3 Tuple.calc_size None test removed, list kept", "file": SER, "expect": "C08.R3",
     "old": "        if any(size is None for size in sizes):\n            return None\n        return sum(sizes)\n",
     "new": "        return sum(sizes)\n"},
    {"name": "R3 UUID.calc_size reports 15", "file": SER, "expect": "C08.R3",
     "old": "    def calc_size(cls):\n        return 16\n", "new": "    def calc_size(cls):\n        return 15\n"},
    {"name": "R3 Template.calc_size adds without the None test", "file": SER, "expect": "C08.R3",
     "old": "            if size is None:\n                sum_bytes = None\n                break\n            sum_bytes += size\n",
     "new": "            sum_bytes += size\n"},
    {"name": "R3 TupleCoord.calc_size forgets the element count", "file": SER, "expect": "C08.R3",
     "old": "        return cls.ELEM_SPEC.calc_size() * cls.NUM_ELEMS\n", "new": "        return cls.ELEM_SPEC.calc_size()\n"},
    {"name": "R3 BytesFixed gains a second wire shape while reporting a fixed size", "file": SER, "expect": "C08.R3",
     "old": "        return reader.read_bytes(self._size, to_bytes=to_bytes)\n",
     "new": "        if not reader:\n            return b\"\"\n        return reader.read_bytes(self._size, to_bytes=to_bytes)\n"},
    # ------------------------------------------------------------------ R3 preserving
    {"name": "P R3 Tuple.calc_size as an explicit loop with early return", "file": SER, "expect": "silent",
     "old": "        sizes = [p.calc_size() for p in self._prim_seq]\n        # No fixed size unless every element has one\n"
            "        if any(size is None for size in sizes):\n            return None\n        return sum(sizes)\n",
     "new": "        total = 0\n        for p in self._prim_seq:\n            size = p.calc_size()\n            if size is None:\n"
            "                return None\n            total += size\n        return total\n"},
    {"name": "P R3 Tuple.calc_size guard phrased with all()", "file": SER, "expect": "silent",
     "old": "        if any(size is None for size in sizes):\n            return None\n",
     "new": "        if not all(size is not None for size in sizes):\n            return None\n"},
    {"name": "P R3 UUID size through a class constant of the same value", "file": SER, "expect": "silent",
     "old": "    def calc_size(cls):\n        return 16\n", "new": "    def calc_size(cls):\n        return 0x10\n"},
    # ------------------------------------------------------------------ R4 breaking
    {"name": "R4 read_bytes bound test deleted", "file": SER, "expect": "C08.R4",
     "old": "        if end_pos > self._len and check_len:\n            raise ValueError(f\"{len(self)} bytes left, needed {num_bytes}\")\n",
     "new": ""},
    {"name": "R4 consuming read waives the length check", "file": DES, "expect": "C08.R4",
     "old": "reader.read_bytes(3, peek=True, check_len=False)", "new": "reader.read_bytes(3, check_len=False)"},
    {"name": "R4 seek accepts negative positions", "file": SER, "expect": "C08.R4",
     "old": "        if new_pos > self._len or new_pos < 0:\n", "new": "        if new_pos > self._len:\n"},
    {"name": "R4 seek bound test deleted", "file": SER, "expect": "C08.R4",
     "old": "        if new_pos > self._len or new_pos < 0:\n"
            "            raise IOError(f\"Tried to seek to {new_pos} in buffer of {self._len} bytes\")\n", "new": ""},
    {"name": "R4 read_bytes bound waived by the peek flag too", "file": SER, "expect": "C08.R4",
     "old": "        if end_pos > self._len and check_len:\n", "new": "        if end_pos > self._len and check_len and not peek:\n"},
    # ------------------------------------------------------------------ R4 preserving
    {"name": "P R4 read_bytes test written the other way round", "file": SER, "expect": "silent",
     "old": "        if end_pos > self._len and check_len:\n", "new": "        if check_len and self._len < end_pos:\n"},
    {"name": "P R4 seek test operands reordered", "file": SER, "expect": "silent",
     "old": "        if new_pos > self._len or new_pos < 0:\n", "new": "        if new_pos < 0 or self._len < new_pos:\n"},
    # ------------------------------------------------------------------ R5 breaking
    {"name": "R5 typed-bytes trailing test deleted", "file": SER, "expect": "C08.R5",
     "old": "        if self._check_trailing_bytes and len(inner_reader):\n"
            "            raise ValueError(f\"{len(inner_reader)} trailing bytes after {val}\")\n", "new": ""},
    {"name": "R5 subfield trailing test only logs", "file": SER, "expect": "C08.R5",
     "old": "        if cls.CHECK_TRAILING_BYTES and r:\n            raise BufferError(", "new":
            "        if cls.CHECK_TRAILING_BYTES and r:\n            print("},
    {"name": "R5 typed-bytes trailing test inverted", "file": SER, "expect": "C08.R5",
     "old": "        if self._check_trailing_bytes and len(inner_reader):\n", "new":
            "        if self._check_trailing_bytes and not len(inner_reader):\n"},
    # ------------------------------------------------------------------ R5 preserving
    {"name": "P R5 trailing test as nested ifs", "file": SER, "expect": "silent",
     "old": "        if self._check_trailing_bytes and len(inner_reader):\n"
            "            raise ValueError(f\"{len(inner_reader)} trailing bytes after {val}\")\n",
     "new": "        if self._check_trailing_bytes:\n            if len(inner_reader) > 0:\n"
            "                raise ValueError(f\"{len(inner_reader)} trailing bytes after {val}\")\n"},
    {"name": "P R5 subfield trailing test on len(r)", "file": SER, "expect": "silent",
     "old": "        if cls.CHECK_TRAILING_BYTES and r:\n", "new": "        if cls.CHECK_TRAILING_BYTES and len(r) != 0:\n"},
    # ------------------------------------------------------------------ R1 preserving (peek = rewind)
    {"name": "P R1 Reader.read peek path as tell / try / finally seek-back", "file": SER, "expect": "silent",
     "old": "            with self.scoped_seek(pos=0, whence=SEEK_CUR):\n                return ser_type.deserialize(self, ctx)\n",
     "new": "            start = self.tell()\n            try:\n                return ser_type.deserialize(self, ctx)\n"
            "            finally:\n                self.seek(start)\n"},
    {"name": "R1 Reader.read consuming path also seeks back (nothing is ever consumed)", "file": SER, "expect": "C08.R1",
     "old": "                return ser_type.deserialize(self, ctx)\n\n        return ser_type.deserialize(self, ctx)\n",
     "new": "                return ser_type.deserialize(self, ctx)\n\n        start = self.tell()\n"
            "        val = ser_type.deserialize(self, ctx)\n        self.seek(start)\n        return val\n"},
    # ------------------------------------------------------------------ R6
    {"name": "R6 lazy decode lambda reads the reader's byte order when first touched", "file": SER, "expect": "C08.R6",
     "old": "            return lazy_object_proxy.Proxy(\n                self._lazy_deserialize_inner(endianness, pod, buf))\n",
     "new": "            return lazy_object_proxy.Proxy(\n"
            "                lambda: self._deserialize_inner(reader.endianness, pod, buf, ctx=None))\n"},
    {"name": "R6 lazy closure keeps the reader to re-check its mode later", "file": SER, "expect": "C08.R6",
     "edits": [
         {"file": SER, "old": "                self._lazy_deserialize_inner(endianness, pod, buf))\n",
          "new": "                self._lazy_deserialize_inner(endianness, pod, buf, reader))\n"},
         {"file": SER, "old": "    def _lazy_deserialize_inner(self, endianness, pod, buf):\n        def _deserialize_later():\n",
          "new": "    def _lazy_deserialize_inner(self, endianness, pod, buf, src=None):\n        def _deserialize_later():\n"
                 "            if src is not None and src.pod:\n"
                 "                return self._deserialize_inner(endianness, True, buf, ctx=None)\n"}]},
    {"name": "P R6 snapshot passed straight as arguments, locals renamed", "file": SER, "expect": "silent",
     "old": "        endianness = reader.endianness\n        pod = reader.pod\n        if self._lazy and not pod:\n"
            "            return lazy_object_proxy.Proxy(\n                self._lazy_deserialize_inner(endianness, pod, buf))\n"
            "        return self._deserialize_inner(endianness, pod, buf, ctx)\n",
     "new": "        byte_order, plain = reader.endianness, reader.pod\n        if self._lazy and not plain:\n"
            "            return lazy_object_proxy.Proxy(self._lazy_deserialize_inner(reader.endianness, reader.pod, buf))\n"
            "        return self._deserialize_inner(byte_order, plain, buf, ctx)\n"},
    {"name": "P R6 deferred decode as a lambda over captured locals", "file": SER, "expect": "silent",
     "old": "            return lazy_object_proxy.Proxy(\n                self._lazy_deserialize_inner(endianness, pod, buf))\n",
     "new": "            return lazy_object_proxy.Proxy(\n"
            "                lambda: self._deserialize_inner(endianness, pod, buf, ctx=None))\n"},
    # ------------------------------------------------------------------ R7
    {"name": "R7 subfield EMPTY_IS_NONE short-cut taken for every falsy value", "file": SER, "expect": "C08.R7",
     "old": "        if cls.EMPTY_IS_NONE and vals is None:\n", "new": "        if cls.EMPTY_IS_NONE and not vals:\n"},
    {"name": "R7 terminated typed bytes: nested truthiness test under the flag", "file": SER, "expect": "C08.R7",
     "old": "            if val is None:\n                return\n            body = BufferWriter(writer.endianness)\n",
     "new": "            if not val:\n                return\n            body = BufferWriter(writer.endianness)\n"},
    {"name": "P R7 None test nested under the flag, operands reordered", "file": SER, "expect": "silent",
     "old": "        if val is None and self._empty_is_none:\n            buf = b\"\"\n        else:\n"
            "            inner_writer = BufferWriter(writer.endianness)\n            inner_writer.write(self._spec, val, ctx=ctx)\n"
            "            buf = inner_writer.buffer\n",
     "new": "        buf = None\n        if self._empty_is_none:\n            if val is None:\n                buf = b\"\"\n"
            "        if buf is None:\n            inner_writer = BufferWriter(writer.endianness)\n"
            "            inner_writer.write(self._spec, val, ctx=ctx)\n            buf = inner_writer.buffer\n"},
    # ------------------------------------------------------------------ R2 (iv) silent truncation
    {"name": "R2 Str cuts over-long input to the prefix's capacity instead of rejecting it", "file": SER, "expect": "C08.R2",
     "old": "                instance += b\"\\x00\"\n        writer.write(self._bytes_tmpl, instance, ctx=ctx)\n",
     "new": "                instance += b\"\\x00\"\n        writer.write(self._bytes_tmpl, instance[:255], ctx=ctx)\n"},
    {"name": "R2 StrFixed measures characters, then pads through struct 's' (cuts the encoded bytes)", "file": SER,
     "expect": "C08.R2",
     "old": "        if isinstance(instance, str):\n            instance = instance.encode(\"utf8\")\n"
            "        if len(instance) > self._length:\n            raise ValueError(f\"{instance!r} can't fit in {self._length}\")\n"
            "        # Pad with nulls\n        instance += b\"\\x00\" * (self._length - len(instance))\n",
     "new": "        if len(instance) > self._length:\n            raise ValueError(f\"{instance!r} can't fit in {self._length}\")\n"
            "        raw = instance.encode(\"utf8\") if isinstance(instance, str) else instance\n"
            "        instance = struct.pack(\"%ds\" % self._length, raw)\n"},
    {"name": "P R2 StrFixed relies on its BytesFixed child for the size check", "file": SER, "expect": "silent",
     "old": "        if len(instance) > self._length:\n            raise ValueError(f\"{instance!r} can't fit in {self._length}\")\n"
            "        # Pad with nulls\n", "new": "        # Pad with nulls (an over-long value is refused by the fixed-size child spec)\n"},
    {"name": "P R2 StrFixed friendly check moved before the encode, manual padding kept", "file": SER, "expect": "silent",
     "old": "        if isinstance(instance, str):\n            instance = instance.encode(\"utf8\")\n"
            "        if len(instance) > self._length:\n            raise ValueError(f\"{instance!r} can't fit in {self._length}\")\n",
     "new": "        if len(instance) > self._length:\n            raise ValueError(f\"{instance!r} can't fit in {self._length}\")\n"
            "        if isinstance(instance, str):\n            instance = instance.encode(\"utf8\")\n"},
    {"name": "P R2 BytesFixed slices after its exact-length check", "file": SER, "expect": "silent",
     "old": "            raise ValueError(f\"length of {instance!r} is not {self._size}\")\n        writer.write_bytes(instance)\n",
     "new": "            raise ValueError(f\"length of {instance!r} is not {self._size}\")\n"
            "        writer.write_bytes(instance[:self._size])\n"},
    # ------------------------------------------------------------------ R8
    {"name": "R8 ByteArray.deserialize caps the length it just read", "file": SER, "expect": "C08.R8",
     "old": "        bytes_len = reader.read(self._len_spec, ctx=ctx)\n",
     "new": "        bytes_len = reader.read(self._len_spec, ctx=ctx)\n        if bytes_len > 4096:\n            bytes_len = 4096\n"},
    {"name": "R8 FixedPoint.deserialize maps tiny magnitudes to zero", "file": SER, "expect": "C08.R8",
     "old": "        fixed_val = float(self._ser_spec.deserialize(reader, ctx))\n",
     "new": "        fixed_val = float(self._ser_spec.deserialize(reader, ctx))\n"
            "        fixed_val = fixed_val if fixed_val > 2.0 else 0.0\n"},
    {"name": "R8 TupleCoord.deserialize zeroes out-of-range components", "file": SER, "expect": "C08.R8",
     "old": "        val = cls.COORD_CLS(*vals)\n        if cls.need_pod(reader):\n            return val.data()\n",
     "new": "        val = cls.COORD_CLS(*[0.0 if abs(c) > 1e30 else c for c in vals])\n"
            "        if cls.need_pod(reader):\n            return val.data()\n"},
    {"name": "P R8 TupleCoord.deserialize identity comprehension and mode-dependent result", "file": SER, "expect": "silent",
     "old": "        val = cls.COORD_CLS(*vals)\n        if cls.need_pod(reader):\n            return val.data()\n        return val\n",
     "new": "        val = cls.COORD_CLS(*[c for c in vals])\n        return val.data() if cls.need_pod(reader) else val\n"},
    # ------------------------------------------------------------------ R2 (iv) zip against the spec table
    {"name": "R2 Tuple.serialize arity check dropped, zip() swallows the surplus", "file": SER, "expect": "C08.R2",
     "old": "        assert len(vals) == len(self._prim_seq)\n", "new": ""},
    {"name": "R2 Tuple.serialize only refuses values that are too long, zip() shortens the spec walk", "file": SER,
     "expect": "C08.R2",
     "old": "        assert len(vals) == len(self._prim_seq)\n",
     "new": "        if len(vals) > len(self._prim_seq):\n            raise ValueError(\"too many values\")\n"},
    {"name": "P R2 Tuple.serialize arity assert as an explicit raise", "file": SER, "expect": "silent",
     "old": "        assert len(vals) == len(self._prim_seq)\n",
     "new": "        if len(self._prim_seq) != len(vals):\n            raise ValueError(\"wrong number of values\")\n"},
    {"name": "P R2 ByteArray length taken into a local before the check and the write", "file": SER, "expect": "silent",
     "old": "        if max_val < len(instance):\n            raise ValueError(f\"{instance!r} is wider than {max_val}\")\n"
            "        writer.write(self._len_spec, len(instance), ctx=ctx)\n",
     "new": "        n_bytes = len(instance)\n        if n_bytes > max_val:\n"
            "            raise ValueError(f\"{instance!r} is wider than {max_val}\")\n"
            "        writer.write(self._len_spec, n_bytes, ctx=ctx)\n"},
    # ------------------------------------------------------------------ R3 / R4 preserving (helpers, renamed fields)
    {"name": "P R3 Template.calc_size summing in a helper, cache filled by the caller", "file": SER, "expect": "silent",
     "old": "    def calc_size(self):\n        if self._size is not MISSING:\n            return self._size\n        sum_bytes = 0\n",
     "new": "    def calc_size(self):\n        if self._size is MISSING:\n            self._size = self._total()\n"
            "        return self._size\n\n    def _total(self):\n        sum_bytes = 0\n"},
    {"name": "P R4 BufferReader position committed by a helper method", "file": SER, "expect": "silent",
     "edits": [
         {"file": SER, "old": "        if not peek:\n            self._pos = end_pos\n        return read_bytes\n",
          "new": "        if not peek:\n            self._advance_to(end_pos)\n        return read_bytes\n\n"
                 "    def _advance_to(self, where):\n        self._pos = where\n"}]},
    # ------------------------------------------------------------------ R9
    {"name": "R9 OptionalFlagged reader wants the whole mask, writer any bit", "file": SER, "expect": "C08.R9",
     "old": "        if self._normalize_flag_val(ctx) & self._flag_val:\n            return reader.read(self._ser_spec, ctx=ctx)\n",
     "new": "        if (self._normalize_flag_val(ctx) & self._flag_val) == self._flag_val:\n"
            "            return reader.read(self._ser_spec, ctx=ctx)\n"},
    {"name": "P R9 OptionalFlagged writer spells the mask test as != 0", "file": SER, "expect": "silent",
     "old": "        if self._normalize_flag_val(ctx) & self._flag_val:\n            writer.write(self._ser_spec, val, ctx=ctx)\n",
     "new": "        if (self._flag_val & self._normalize_flag_val(ctx)) != 0:\n"
            "            writer.write(self._ser_spec, val, ctx=ctx)\n"},
    {"name": "P R9 Collection writer asks `is not None` of the length spec, flags hoisted into a local", "file": SER,
     "expect": "silent",
     "old": "        if self._len_spec:\n            writer.write(self._len_spec, len(entries), ctx=ctx)\n",
     "new": "        if self._len_spec is not None:\n            writer.write(self._len_spec, len(entries), ctx=ctx)\n"},
    {"name": "P R9 OptionalFlagged reader keeps the flags in a local first", "file": SER, "expect": "silent",
     "old": "        if self._normalize_flag_val(ctx) & self._flag_val:\n            return reader.read(self._ser_spec, ctx=ctx)\n",
     "new": "        current = self._normalize_flag_val(ctx)\n        if current & self._flag_val:\n"
            "            return reader.read(self._ser_spec, ctx=ctx)\n"},
    # ------------------------------------------------------------------ R1 read-until-sentinel iterators
    {"name": "P R1 VertexWeights.deserialize as iter(callable, sentinel) under islice, explicit loop", "file": MESH,
     "expect": "silent",
     "old": "        for _ in range(cls.INFLUENCE_LIMIT):\n            joint_idx = reader.read_bytes(1)[0]\n"
            "            if joint_idx == cls.INFLUENCE_TERM:\n                break\n",
     "new": "        import itertools\n        pull = iter(lambda: reader.read_bytes(1)[0], cls.INFLUENCE_TERM)\n"
            "        for joint_idx in itertools.islice(pull, cls.INFLUENCE_LIMIT):\n"},
    {"name": "R1 VertexWeights.deserialize sentinel loop without the influence limit", "file": MESH, "expect": "C08.R1",
     "old": "        for _ in range(cls.INFLUENCE_LIMIT):\n            joint_idx = reader.read_bytes(1)[0]\n"
            "            if joint_idx == cls.INFLUENCE_TERM:\n                break\n",
     "new": "        for joint_idx in iter(lambda: reader.read_bytes(1)[0], cls.INFLUENCE_TERM):\n"},
    # ------------------------------------------------------------------ R10
    {"name": "R10 OptionalFlagged no longer marked OPTIONAL", "file": SER, "expect": "C08.R10",
     "old": "class OptionalFlagged(SerializableBase):\n    OPTIONAL = True\n", "new": "class OptionalFlagged(SerializableBase):\n"},
    {"name": "R10 OptionalPrefixed marker switched off", "file": SER, "expect": "C08.R10",
     "old": "    \"\"\"Field prefixed by a U8 indicating whether or not it's present\"\"\"\n    OPTIONAL = True\n",
     "new": "    \"\"\"Field prefixed by a U8 indicating whether or not it's present\"\"\"\n    OPTIONAL = False\n"},
    {"name": "P R10 IfPresent additionally marked OPTIONAL (harmless), annotated spelling", "file": SER, "expect": "silent",
     "old": "    \"\"\"Only write if non-None, or read if there are bytes left\"\"\"\n",
     "new": "    \"\"\"Only write if non-None, or read if there are bytes left\"\"\"\n    OPTIONAL: bool = True\n"},
    # ------------------------------------------------------------------ R11
    {"name": "R11 Collection only takes primitives and adapters as length specs", "file": SER, "expect": "C08.R11",
     "old": "        if isinstance(length, SerializableBase):\n", "new": "        if isinstance(length, (SerializablePrimitive, Adapter)):\n"},
    {"name": "P R11 Collection constructor branches reordered, class given as a tuple", "file": SER, "expect": "silent",
     "old": "        if isinstance(length, SerializableBase):\n            self._len_spec = length\n"
            "        elif isinstance(length, int):\n            self._length = length\n",
     "new": "        if isinstance(length, int):\n            self._length = length\n"
            "        elif isinstance(length, (SerializableBase,)):\n            self._len_spec = length\n"},
    # ------------------------------------------------------------------ R12
    {"name": "R12 default default_value() needs an instance", "file": SER, "expect": "C08.R12",
     "old": "    @classmethod\n    def default_value(cls) -> Any:\n        # None may be a valid default, so return MISSING as a sentinel val\n",
     "new": "    def default_value(self) -> Any:\n        # None may be a valid default, so return MISSING as a sentinel val\n"},
    {"name": "R12 BinaryLLSD overrides calc_size as an instance method", "file": SER, "expect": "C08.R12",
     "old": "class BinaryLLSD(SerializableBase):\n", "new": "class BinaryLLSD(SerializableBase):\n    def calc_size(self):\n        return None\n\n"},
    {"name": "P R12 Null spells out its own class-level calc_size", "file": SER, "expect": "silent",
     "old": "class Null(SerializableBase):\n", "new": "class Null(SerializableBase):\n    @classmethod\n    def calc_size(cls):\n        return 0\n\n"},
    # ------------------------------------------------------------------ R6 callable objects instead of closures
    {"name": "R6 deferred decode as a callable object that keeps the reader", "file": SER, "expect": "C08.R6",
     "edits": [
         {"file": SER, "old": "        def _deserialize_later():\n            # No context allowed, we don't want to keep any referenced objects alive\n"
          "            return self._deserialize_inner(endianness, pod, buf, ctx=None)\n        return _deserialize_later\n",
          "new": "        return _LaterInner(self, endianness, pod, buf)\n"},
         {"file": SER, "old": "                self._lazy_deserialize_inner(endianness, pod, buf))\n",
          "new": "                _LaterInner(self, reader, pod, buf))\n"},
         {"file": SER, "old": "class TypedBytesBase(SerializableBase, abc.ABC):\n",
          "new": "class _LaterInner:\n    def __init__(self, owner, src, plain, data):\n        self.owner = owner\n        self.src = src\n"
                 "        self.plain = plain\n        self.data = data\n\n    def __call__(self):\n"
                 "        return self.owner._deserialize_inner(self.src.endianness, self.plain, self.data, ctx=None)\n\n\n"
                 "class TypedBytesBase(SerializableBase, abc.ABC):\n"}]},
    {"name": "P R6 deferred decode as a callable object over the snapshot", "file": SER, "expect": "silent",
     "edits": [
         {"file": SER, "old": "        def _deserialize_later():\n            # No context allowed, we don't want to keep any referenced objects alive\n"
          "            return self._deserialize_inner(endianness, pod, buf, ctx=None)\n        return _deserialize_later\n",
          "new": "        return _LaterInner(self, endianness, pod, buf)\n"},
         {"file": SER, "old": "class TypedBytesBase(SerializableBase, abc.ABC):\n",
          "new": "class _LaterInner:\n    def __init__(self, owner, order, plain, data):\n        self.owner = owner\n        self.order = order\n"
                 "        self.plain = plain\n        self.data = data\n\n    def __call__(self):\n"
                 "        return self.owner._deserialize_inner(self.order, self.plain, self.data, ctx=None)\n\n\n"
                 "class TypedBytesBase(SerializableBase, abc.ABC):\n"}]},
    # ------------------------------------------------------------------ state attribute instead of flag pair
    # ------------------------------------------------------------------ R13
    {"name": "R13 SegmentSerializer keeps one scratch writer on the instance", "file": MESH, "expect": "C08.R13",
     "edits": [
         {"file": MESH, "old": "        self._templates: Dict[str, se.SerializableBase] = templates\n",
          "new": "        self._templates: Dict[str, se.SerializableBase] = templates\n        self._scratch = se.BufferWriter(\"<\")\n"},
         {"file": MESH, "old": "                writer = se.BufferWriter(\"<\")\n                writer.write(self._templates[key], val)\n",
          "new": "                writer = self._scratch\n                writer.clear()\n                writer.write(self._templates[key], val)\n"}]},
    {"name": "P R13 TypedBytesBase builds its per-call window in a helper", "file": SER, "expect": "silent",
     "edits": [
         {"file": SER, "old": "            inner_writer = BufferWriter(writer.endianness)\n            inner_writer.write(self._spec, val, ctx=ctx)\n",
          "new": "            inner_writer = self._new_window(writer)\n            inner_writer.write(self._spec, val, ctx=ctx)\n"},
         {"file": SER, "old": "    def _lazy_deserialize_inner(self, endianness, pod, buf):\n",
          "new": "    def _new_window(self, outer):\n        return BufferWriter(outer.endianness)\n\n"
                 "    def _lazy_deserialize_inner(self, endianness, pod, buf):\n"}]},
    # ------------------------------------------------------------------ R14
    {"name": "R14 scoped_seek seeks back only when the block succeeds", "file": SER, "expect": "C08.R14",
     "old": "        try:\n            self.seek(pos=pos, whence=whence)\n            yield\n        finally:\n            self.seek(old_pos)\n",
     "new": "        self.seek(pos=pos, whence=whence)\n        yield\n        self.seek(old_pos)\n"},
    {"name": "R14 FlagSwitch switches the caller's reader out of pod mode by hand, no finally", "file": SER, "expect": "C08.R14",
     "old": "        with reader.scoped_pod(pod=False):\n            flags = int(self._flag_spec.deserialize(reader, ctx=ctx))\n",
     "new": "        was_pod = reader.pod\n        reader.pod = False\n        flags = int(self._flag_spec.deserialize(reader, ctx=ctx))\n"
            "        reader.pod = was_pod\n"},
    {"name": "P R14 scoped_pod sets the flag before entering the try", "file": SER, "expect": "silent",
     "old": "        old_pod = self.pod\n        try:\n            self.pod = pod\n            yield\n",
     "new": "        old_pod = self.pod\n        self.pod = pod\n        try:\n            yield\n"},
    # ------------------------------------------------------------------ round 7: hooks, loop shapes, lossy reads, regex
    {"name": "P R5/R1 typed-bytes inner reader class taken from a class attribute hook", "file": SER, "expect": "silent",
     "edits": [
         {"file": SER, "old": "class TypedBytesBase(SerializableBase, abc.ABC):\n    _bytes_tmpl: BytesBase\n",
          "new": "class TypedBytesBase(SerializableBase, abc.ABC):\n    _bytes_tmpl: BytesBase\n    WINDOW_READER = BufferReader\n"
                 "    WINDOW_WRITER = BufferWriter\n"},
         {"file": SER, "old": "        inner_reader = BufferReader(endianness, buf, pod=pod)\n",
          "new": "        inner_reader = self.WINDOW_READER(endianness, buf, pod=pod)\n"},
         {"file": SER, "old": "            inner_writer = BufferWriter(writer.endianness)\n",
          "new": "            inner_writer = self.WINDOW_WRITER(writer.endianness)\n"}]},
    {"name": "P R1 TEFaceBitfield reader as loop-and-a-half with early return", "file": TEMPL, "expect": "silent",
     "old": "        while have_next:\n            char = reader.read(se.U8, ctx=ctx)\n            have_next = char & 0x80\n"
            "            val |= char & 0x7F\n            if have_next:\n                val <<= 7\n",
     "new": "        while True:\n            char = reader.read(se.U8, ctx=ctx)\n            val |= char & 0x7F\n"
            "            if not char & 0x80:\n                break\n            val <<= 7\n"},
    {"name": "R15 CStr drops trailing NULs of its payload (nothing on the write side adds them)", "file": SER,
     "expect": "C08.R15",
     "old": "        return self._bytes_tmpl.deserialize(reader, ctx).decode(self._encoding)\n",
     "new": "        return self._bytes_tmpl.deserialize(reader, ctx).rstrip(b\"\\x00\").decode(self._encoding)\n"},
    {"name": "R15 StrFixed strips whitespace as well as the padding", "file": SER, "expect": "C08.R15",
     "old": "        if len(instance) > self._length:\n            raise ValueError(f\"{instance!r} can't fit in {self._length}\")\n"
            "        # Pad with nulls\n        instance += b\"\\x00\" * (self._length - len(instance))\n"
            "        writer.write(self._bytes_tmpl, instance, ctx=ctx)\n\n    def deserialize(self, reader: Reader, ctx):\n"
            "        return reader.read(self._bytes_tmpl, ctx=ctx).rstrip(b\"\\x00\").decode(\"utf8\")\n",
     "new": "        if len(instance) > self._length:\n            raise ValueError(f\"{instance!r} can't fit in {self._length}\")\n"
            "        # Pad with nulls\n        instance += b\"\\x00\" * (self._length - len(instance))\n"
            "        writer.write(self._bytes_tmpl, instance, ctx=ctx)\n\n    def deserialize(self, reader: Reader, ctx):\n"
            "        return reader.read(self._bytes_tmpl, ctx=ctx).rstrip(b\"\\x00\").decode(\"utf8\").strip()\n"},
    {"name": "P R15 Str and StrFixed share a module-level decode helper that strips the padding", "file": SER,
     "expect": "silent",
     "edits": [
         {"file": SER, "old": "class Str(SerializableBase):\n",
          "new": "def _unpad(raw, codec=\"utf8\"):\n    return bytes(raw).rstrip(b\"\\x00\").decode(codec)\n\n\nclass Str(SerializableBase):\n"},
         {"file": SER, "old": "        return reader.read(self._bytes_tmpl, ctx=ctx).rstrip(b\"\\x00\").decode(\"utf8\")\n",
          "new": "        return _unpad(reader.read(self._bytes_tmpl, ctx=ctx))\n", "all": True}]},
    {"name": "R16 BytesTerminated looks for terminators with a character class built from the raw bytes", "file": SER,
     "expect": "C08.R16",
     "old": "        self.terminators = terminators\n        self.write_terminator = write_terminator\n",
     "new": "        self.terminators = terminators\n        self._term_re = re.compile(b\"[\" + b\"\".join(terminators) + b\"]\")\n"
            "        self.write_terminator = write_terminator\n"},
    {"name": "P R16 BytesTerminated terminator regex built from escaped alternatives", "file": SER, "expect": "silent",
     "old": "        self.terminators = terminators\n        self.write_terminator = write_terminator\n",
     "new": "        self.terminators = terminators\n        self._term_re = re.compile(b\"|\".join(re.escape(t) for t in terminators))\n"
            "        self.write_terminator = write_terminator\n"},
    # ------------------------------------------------------------------ round 8
    {"name": "R17 OptionalPrefixed marker carries the payload's truth, payload still written when not None", "file": SER,
     "expect": "C08.R17",
     "old": "        writer.write(U8, val is not None, ctx=ctx)\n", "new": "        writer.write(U8, bool(val), ctx=ctx)\n"},
    {"name": "P R17 OptionalPrefixed marker through a shared bool adapter, still the `is not None` answer", "file": SER,
     "expect": "silent",
     "edits": [
         {"file": SER, "old": "        writer.write(U8, val is not None, ctx=ctx)\n",
          "new": "        writer.write(self._MARK, not (val is None), ctx=ctx)\n"},
         {"file": SER, "old": "        present = reader.read(U8, ctx=ctx)\n        if present:\n",
          "new": "        if reader.read(self._MARK, ctx=ctx):\n"},
         {"file": SER, "old": "    \"\"\"Field prefixed by a U8 indicating whether or not it's present\"\"\"\n    OPTIONAL = True\n",
          "new": "    \"\"\"Field prefixed by a U8 indicating whether or not it's present\"\"\"\n    OPTIONAL = True\n"
                 "    _MARK = BoolAdapter(U8)\n"}]},
    {"name": "P R17 OptionalPrefixed presence computed once into a local", "file": SER, "expect": "silent",
     "old": "        writer.write(U8, val is not None, ctx=ctx)\n        if val is not None:\n",
     "new": "        present = val is not None\n        writer.write(U8, present, ctx=ctx)\n        if present:\n"},
    {"name": "R2 primitive writer masks the number to the field's range instead of letting struct refuse it", "file": SER,
     "expect": "C08.R2",
     "old": "        struct_obj = self._pick_struct(writer.endianness)\n        writer.write_bytes(struct_obj.pack(val))\n",
     "new": "        struct_obj = self._pick_struct(writer.endianness)\n        writer.write_bytes(struct_obj.pack(val & self._max_val))\n"},
    {"name": "P R2 single-byte fast path with an explicit range test in front of the mask", "file": SER, "expect": "silent",
     "edits": [
         {"file": SER, "old": "        struct_obj = self._pick_struct(writer.endianness)\n        writer.write_bytes(struct_obj.pack(val))\n",
          "new": "        if self._be_struct.size == 1:\n            if val > self._max_val or val < self._min_val:\n"
                 "                raise ValueError(f\"{val!r} out of range\")\n            writer.write_bytes((val & 0xFF,))\n"
                 "            return\n        struct_obj = self._pick_struct(writer.endianness)\n"
                 "        writer.write_bytes(struct_obj.pack(val))\n"},
         {"file": SER, "old": "        return super().deserialize(reader, ctx)[0]\n",
          "new": "        if self._be_struct.size == 1:\n            byte = reader.read_bytes(1)[0]\n"
                 "            return byte - 0x100 if self._is_signed and byte > self._max_val else byte\n"
                 "        return super().deserialize(reader, ctx)[0]\n"}]},
    {"name": "P R1/R3 TupleCoord.deserialize walks a tuple of NUM_ELEMS copies of the element spec", "file": SER,
     "expect": "silent",
     "old": "        vals = (reader.read(cls.ELEM_SPEC, ctx=ctx) for _ in range(cls.NUM_ELEMS))\n",
     "new": "        specs = (cls.ELEM_SPEC,) * cls.NUM_ELEMS\n        vals = [reader.read(one, ctx=ctx) for one in specs]\n"},
    {"name": "P R3 Struct compiles its two byte orders in a static helper", "file": SER, "expect": "silent",
     "old": "        if struct_fmt[:1] in \"!><\":\n            self._be_struct = self._le_struct = struct.Struct(struct_fmt)\n"
            "        else:\n            self._le_struct = struct.Struct(\"<\" + struct_fmt)\n"
            "            self._be_struct = struct.Struct(\">\" + struct_fmt)\n",
     "new": "        self._le_struct, self._be_struct = self._both_orders(struct_fmt)\n\n    @staticmethod\n"
            "    def _both_orders(fmt):\n        if fmt[:1] in \"!><\":\n            one = struct.Struct(fmt)\n"
            "            return one, one\n        return struct.Struct(\"<\" + fmt), struct.Struct(\">\" + fmt)\n"},
    {"name": "R3 Struct big-endian object compiled from a different format than the little-endian one", "file": SER,
     "expect": "C08.R3",
     "old": "    def __init__(self, struct_fmt):\n        self._struct_fmt: str = struct_fmt\n",
     "new": "    def __init__(self, struct_fmt, wide_fmt=None):\n        self._struct_fmt: str = struct_fmt\n"
            "        self._wide = struct.Struct(\">\" + (wide_fmt or struct_fmt))\n"},
    # ------------------------------------------------------------------ audit round (anchored on the repaired text)
    {"name": "R18 DataclassAdapter.encode deep-converts with dataclasses.asdict again (D76)", "file": SER, "expect": "C08.R18",
     "old": "            val = {field.name: getattr(val, field.name) for field in dataclasses.fields(val)}\n",
     "new": "            val = dataclasses.asdict(val)\n"},
    {"name": "P R18 shallow conversion spelled with dict() over the fields", "file": SER, "expect": "silent",
     "old": "            val = {field.name: getattr(val, field.name) for field in dataclasses.fields(val)}\n",
     "new": "            val = dict((f.name, getattr(val, f.name)) for f in dataclasses.fields(val))\n"},
    {"name": "R15 Str.deserialize rstrips every trailing NUL again (D77)", "file": SER, "expect": "C08.R15",
     "old": "        val = reader.read(self._bytes_tmpl, ctx=ctx)\n"
            "        # Only take off the one terminator serialize() adds, any further NULs are data\n"
            "        if self._null_term and val.endswith(b\"\\x00\"):\n            val = val[:-1]\n"
            "        return val.decode(\"utf8\")\n",
     "new": "        return reader.read(self._bytes_tmpl, ctx=ctx).rstrip(b\"\\x00\").decode(\"utf8\")\n"},
    {"name": "P R15 Str.deserialize takes the single terminator off with removesuffix", "file": SER, "expect": "silent",
     "old": "        if self._null_term and val.endswith(b\"\\x00\"):\n            val = val[:-1]\n"
            "        return val.decode(\"utf8\")\n",
     "new": "        if self._null_term:\n            val = bytes(val).removesuffix(b\"\\x00\")\n        return val.decode(\"utf8\")\n"},
    {"name": "R2 BitField.pack shift path checks only the upper bound again (D78)", "file": HELPERS, "expect": "C08.R2",
     "old": "                if not 0 <= val <= mask:\n", "new": "                if val > mask:\n"},
    {"name": "P R2 BitField.pack bounds spelled as two comparisons", "file": HELPERS, "expect": "silent",
     "old": "                if not 0 <= val <= mask:\n", "new": "                if val < 0 or val > mask:\n"},
    {"name": "R19 QuantizedFloat hard-codes zero_median=False for its base class again (D79)", "file": SER, "expect": "C08.R19",
     "old": "        super().__init__(prim_spec, zero_median=bool(zero_median))\n",
     "new": "        super().__init__(prim_spec, zero_median=False)\n"},
    {"name": "P R19 explicit zero_median applied after the base constructor", "file": SER, "expect": "silent",
     "old": "        super().__init__(prim_spec, zero_median=bool(zero_median))\n",
     "new": "        super().__init__(prim_spec, zero_median=False)\n        if zero_median:\n            self.zero_median = True\n"},
    {"name": "R20 half-step nudge applied even when 0.0 sits on a code again (D79b)", "file": SER, "expect": "C08.R20",
     "old": "            if abs(zero_pos - round(zero_pos)) > 1e-6:\n                # Only change the value a tiny bit so the rounding is biased\n"
            "                # towards the correct value\n                nudge = delta * self.step_mag * 0.5\n"
            "                nudge = math.copysign(nudge, val)\n",
     "new": "            nudge = delta * self.step_mag * 0.5\n            nudge = math.copysign(nudge, val)\n"},
    {"name": "P R20 on-code test computed into a local first", "file": SER, "expect": "silent",
     "old": "            if abs(zero_pos - round(zero_pos)) > 1e-6:\n",
     "new": "            between_codes = abs(round(zero_pos) - zero_pos) > 1e-6\n            if between_codes:\n"},
    # re-anchored copies of earlier variants whose text the audit repairs change
    {"name": "R2 BitField per-member check hoisted out of the loop (seed 1, repaired text)", "file": HELPERS, "expect": "C08.R2",
     "edits": [
         {"file": HELPERS, "old": "                if not 0 <= val <= mask:\n                    raise ValueError(\"%r not within 0..%r\" % (val, mask))\n",
          "new": ""},
         {"file": HELPERS, "old": "            cur_bit += bits\n        return packed\n",
          "new": "            cur_bit += bits\n        if self.shift and not 0 <= packed <= self._bits_mask(cur_bit):\n"
                 "            raise ValueError(\"%r larger than max\" % (packed,))\n        return packed\n"}]},
    {"name": "P R2 BitField range check as an explicit conjunction (repaired text)", "file": HELPERS, "expect": "silent",
     "old": "                if not 0 <= val <= mask:\n", "new": "                if not (0 <= val and val <= mask):\n"},
    {"name": "P R2 BitField per-member work moved into a helper (repaired text)", "file": HELPERS, "expect": "silent",
     "edits": [
         {"file": HELPERS, "old": "            if self.shift:\n                if not 0 <= val <= mask:\n"
          "                    raise ValueError(\"%r not within 0..%r\" % (val, mask))\n                packed |= val << cur_bit\n",
          "new": "            if self.shift:\n                packed |= self._shifted(vals[name], mask, cur_bit)\n"},
         {"file": HELPERS, "old": "    def unpack(self, packed):\n",
          "new": "    def _shifted(self, member, limit, at):\n        if member < 0 or member > limit:\n"
                 "            raise ValueError(\"%r not within 0..%r\" % (member, limit))\n        return member << at\n\n"
                 "    def unpack(self, packed):\n"}]},
    {"name": "R15 Str strips NULs on both ends although the writer only appends one (repaired text)", "file": SER,
     "expect": "C08.R15",
     "old": "        if self._null_term and val.endswith(b\"\\x00\"):\n            val = val[:-1]\n        return val.decode(\"utf8\")\n",
     "new": "        return bytes(val).strip(b\"\\x00\").decode(\"utf8\")\n"},
    # ------------------------------------------------------------------ second audit round (anchored on the repaired text)
    {"name": "R21 Collection picks the fixed-length mode by the truth of _length again (D151)", "file": SER, "expect": "C08.R21",
     "old": "        elif self._length is not None:\n            if len(entries) != self._length:",
     "new": "        elif self._length:\n            if len(entries) != self._length:"},
    {"name": "R21 Collection.deserialize falls into the greedy branch for a length of 0 again (D151)", "file": SER,
     "expect": "C08.R21",
     "old": "        if self._len_spec or self._length is not None:\n", "new": "        if self._len_spec or self._length:\n"},
    {"name": "P R21 Collection.deserialize mode test with the operands the other way round", "file": SER, "expect": "silent",
     "old": "        if self._len_spec or self._length is not None:\n",
     "new": "        if self._length is not None or self._len_spec is not None:\n"},
    {"name": "R2 NumPyArray.encode casts without looking at what was lost again (D152)", "file": SER, "expect": "C08.R2",
     "old": "        src = np.asarray(val)\n        val: np.ndarray = src.astype(self.dtype).flatten()\n"
            "        # Casting to an integer dtype wraps / truncates whatever doesn't fit, refuse instead\n"
            "        if np.issubdtype(self.dtype, np.integer) and not np.array_equal(val, src.flatten()):\n"
            "            raise ValueError(f\"{src!r} can't be represented as {self.dtype}\")\n",
     "new": "        val: np.ndarray = np.array(val, dtype=self.dtype).flatten()\n"},
    {"name": "P R2 NumPyArray.encode check hoisted into locals, operands swapped", "file": SER, "expect": "silent",
     "old": "        if np.issubdtype(self.dtype, np.integer) and not np.array_equal(val, src.flatten()):\n",
     "new": "        integral = np.issubdtype(self.dtype, np.integer)\n        lossless = np.array_equal(src.flatten(), val)\n"
            "        if integral and not lossless:\n"},
    {"name": "R22 ParseContext._root starts walking at the parent again (D153)", "file": SER, "expect": "C08.R22",
     "old": "        # The outermost context is its own root\n        obj = self\n", "new": "        obj = self._\n"},
    {"name": "P R22 ParseContext._root as an explicit walk with a local for the parent", "file": SER, "expect": "silent",
     "old": "        # The outermost context is its own root\n        obj = self\n        while obj._ is not None:\n            obj = obj._\n        return obj\n",
     "new": "        obj = self\n        while True:\n            above = obj._\n            if above is None:\n                return obj\n            obj = above\n"},
    # re-anchored copies of earlier Collection variants (text after the `_length is not None` repair)
    {"name": "P R2 Collection count checks in a helper with guard clauses (repaired text)", "file": SER, "expect": "silent",
     "edits": [
         {"file": SER, "old": "    def serialize(self, entries, writer: BufferWriter, ctx):\n        if self._len_spec:\n"
          "            max_len = getattr(self._len_spec, 'max_val', None)\n",
          "new": "    def _refuse_bad_count(self, items):\n        if self._len_spec:\n"
                 "            max_len = getattr(self._len_spec, 'max_val', None)\n"},
         {"file": SER, "old": "            if max_len is not None and max_len < len(entries):\n"
          "                raise ValueError(f\"{len(entries)} is wider than {max_len}\")\n        elif self._length is not None:\n"
          "            if len(entries) != self._length:\n"
          "                raise ValueError(f\"Need exactly {self._length} entries, got {len(entries)}\")\n",
          "new": "            if max_len is not None and max_len < len(items):\n"
                 "                raise ValueError(f\"{len(items)} is wider than {max_len}\")\n            return\n"
                 "        if self._length is not None and len(items) != self._length:\n"
                 "            raise ValueError(f\"Need exactly {self._length} entries, got {len(items)}\")\n\n"
                 "    def serialize(self, entries, writer: BufferWriter, ctx):\n        self._refuse_bad_count(entries)\n"}]},
    {"name": "R9 Collection reader treats a fixed length of one as greedy (repaired text)", "file": SER, "expect": "C08.R9",
     "old": "        if self._len_spec or self._length is not None:\n            if self._len_spec:\n                size = reader.read(",
     "new": "        if self._len_spec or (self._length is not None and self._length > 1):\n            if self._len_spec:\n"
            "                size = reader.read("},
    {"name": "P R1/R2/R9 Collection folds its two length attributes into a mode string (repaired text)", "file": SER,
     "expect": "silent",
     "edits": [
         {"file": SER, "old": "        elif isinstance(length, int):\n            self._length = length\n\n"
          "    def serialize(self, entries, writer: BufferWriter, ctx):\n        if self._len_spec:\n",
          "new": "        elif isinstance(length, int):\n            self._length = length\n"
                 "        if self._len_spec:\n            self._mode = \"prefixed\"\n        elif self._length is not None:\n"
                 "            self._mode = \"counted\"\n        else:\n            self._mode = \"greedy\"\n\n"
                 "    def serialize(self, entries, writer: BufferWriter, ctx):\n        if self._mode == \"prefixed\":\n"},
         {"file": SER, "old": "                raise ValueError(f\"{len(entries)} is wider than {max_len}\")\n        elif self._length is not None:\n",
          "new": "                raise ValueError(f\"{len(entries)} is wider than {max_len}\")\n        elif self._mode == \"counted\":\n"},
         {"file": SER, "old": "        if self._len_spec or self._length is not None:\n            if self._len_spec:\n                size = reader.read(",
          "new": "        if self._mode != \"greedy\":\n            if self._mode == \"prefixed\":\n                size = reader.read("}]},
    {"name": "P R15 StrFixed pads and strips with a module-level NUL constant", "file": SER, "expect": "silent",
     "edits": [
         {"file": SER, "old": "class StrFixed(SerializableBase):\n", "new": "_PAD_BYTE = b\"\\x00\"\n\n\nclass StrFixed(SerializableBase):\n"},
         {"file": SER, "old": "        instance += b\"\\x00\" * (self._length - len(instance))\n",
          "new": "        instance += _PAD_BYTE * (self._length - len(instance))\n"},
         {"file": SER, "old": "        return reader.read(self._bytes_tmpl, ctx=ctx).rstrip(b\"\\x00\").decode(\"utf8\")\n",
          "new": "        return reader.read(self._bytes_tmpl, ctx=ctx).rstrip(_PAD_BYTE).decode(\"utf8\")\n"}]},
    # decided by the generic builtin-eq-ne lint (P2), which looks through generic bases and typing aliases:
    # OrderedMultiDict(MultiDict[_K, _T]) -> MultiDict(Dict[_K, _T]) -> dict
    {"name": "X P2 OrderedMultiDict loses its __ne__ again (D154)",
     "file": "hippolyzer/lib/base/multidict.py", "expect": "C08.P2",
     "old": "    def __ne__(self, other: object) -> bool:\n        # dict.__ne__ would compare the raw buckets, which never compare equal\n"
            "        eq = self.__eq__(other)\n        return eq if eq is NotImplemented else not eq\n\n", "new": ""},
    {"name": "P P2 OrderedMultiDict.__ne__ spelled as a plain negation", "file": "hippolyzer/lib/base/multidict.py", "expect": "silent",
     "old": "        eq = self.__eq__(other)\n        return eq if eq is NotImplemented else not eq\n",
     "new": "        return not self.__eq__(other)\n"},
    # ------------------------------------------------------------------ round 9
    {"name": "P R1 Reader.read peeks through a thin wrapper method around scoped_seek", "file": SER, "expect": "silent",
     "edits": [
         {"file": SER, "old": "            with self.scoped_seek(pos=0, whence=SEEK_CUR):\n                return ser_type.deserialize(self, ctx)\n",
          "new": "            with self._unread_afterwards():\n                return ser_type.deserialize(self, ctx)\n"},
         {"file": SER, "old": "    def read(self, ser_type: SERIALIZABLE_TYPE, ctx=None, peek=False):\n",
          "new": "    def _unread_afterwards(self):\n        return self.scoped_seek(pos=0, whence=SEEK_CUR)\n\n"
                 "    def read(self, ser_type: SERIALIZABLE_TYPE, ctx=None, peek=False):\n"}]},
    {"name": "P R2 NumPyArray.encode asks a helper method whether the cast lost anything", "file": SER, "expect": "silent",
     "edits": [
         {"file": SER, "old": "        if np.issubdtype(self.dtype, np.integer) and not np.array_equal(val, src.flatten()):\n",
          "new": "        if self._lost_something(src, val):\n"},
         {"file": SER, "old": "    def encode(self, val, ctx: Optional[ParseContext]) -> Any:\n        src = np.asarray(val)\n",
          "new": "    def _lost_something(self, before, after):\n"
                 "        return np.issubdtype(self.dtype, np.integer) and not np.array_equal(after, before.flatten())\n\n"
                 "    def encode(self, val, ctx: Optional[ParseContext]) -> Any:\n        src = np.asarray(val)\n"}]},
    {"name": "R24 EnumSwitch decodes its payload while the reader is forced into rich mode", "file": SER, "expect": "C08.R24",
     "old": "        flag = reader.read(self._enum_spec, ctx=ctx)\n        choice_flag = flag\n"
            "        # POD mode, need to get the actual enum val to do the lookup\n        if isinstance(flag, str):\n"
            "            choice_flag = self._enum_spec.enum_cls[choice_flag]\n"
            "        val = flag, reader.read(self._choice_specs[choice_flag], ctx=ctx)\n",
     "new": "        was_pod = reader.pod\n        with reader.scoped_pod(pod=False):\n"
            "            member = reader.read(self._enum_spec, ctx=ctx)\n"
            "            payload = reader.read(self._choice_specs[member], ctx=ctx)\n"
            "        val = (member.name if was_pod and hasattr(member, \"name\") else member), payload\n"},
    {"name": "P R24 EnumSwitch reads only its discriminator in forced rich mode, the payload in the caller's mode", "file": SER,
     "expect": "silent",
     "old": "        flag = reader.read(self._enum_spec, ctx=ctx)\n        choice_flag = flag\n"
            "        # POD mode, need to get the actual enum val to do the lookup\n        if isinstance(flag, str):\n"
            "            choice_flag = self._enum_spec.enum_cls[choice_flag]\n"
            "        val = flag, reader.read(self._choice_specs[choice_flag], ctx=ctx)\n",
     "new": "        with reader.scoped_pod(pod=False):\n            choice_flag = reader.read(self._enum_spec, ctx=ctx)\n"
            "        flag = getattr(choice_flag, \"name\", choice_flag) if reader.pod else choice_flag\n"
            "        val = flag, reader.read(self._choice_specs[choice_flag], ctx=ctx)\n"},
    {"name": "R3 Collection.deserialize refuses counts by a guessed entry size", "file": SER, "expect": "C08.R3",
     "old": "                size = reader.read(self._len_spec, ctx=ctx)\n            else:\n                size = self._length\n",
     "new": "                size = reader.read(self._len_spec, ctx=ctx)\n"
            "                if size * (self._entry_ser.calc_size() or 1) > len(reader):\n"
            "                    raise ValueError(\"count can't fit\")\n            else:\n                size = self._length\n"},
    {"name": "P R3 Collection.deserialize early exact check only when the entry size is known and non-zero", "file": SER,
     "expect": "silent",
     "old": "                size = reader.read(self._len_spec, ctx=ctx)\n            else:\n                size = self._length\n",
     "new": "                size = reader.read(self._len_spec, ctx=ctx)\n                per_entry = self._entry_ser.calc_size()\n"
            "                if per_entry and reader.seekable and size * per_entry > len(reader):\n"
            "                    raise ValueError(\"count can't fit\")\n            else:\n                size = self._length\n"},
    # ------------------------------------------------------------------ documented limits (value level)
    {"name": "X OptionalPrefixed reader's presence test flipped (conditions are not compared)", "file": SER, "expect": "miss",
     "old": "        present = reader.read(U8, ctx=ctx)\n        if present:\n", "new":
            "        present = reader.read(U8, ctx=ctx)\n        if not present:\n"},
    {"name": "X BitField mask one bit too wide (range check present, wrong value)", "file": HELPERS, "expect": "miss",
     "old": "        return (2 ** bits) - 1\n", "new": "        return (2 ** (bits + 1)) - 1\n"},
]
